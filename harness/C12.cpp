// C12 -- Force elements' power matches their potential energy.
// Engine E3: every element of the shared force alphabet (engine/forcemodels.h) x parameter set x attachment x host
// tree x STATE.  P = sum_b F_b . V_b + f . u from Force::calcForceContribution (harness long-double arithmetic);
// dPE/dt by 4th-order central differences of Force::calcPotentialEnergyContribution along q(t) = q + t*qdot,
// qdot = N u, validated by the Richardson pair (h, h/2).
//   conservative elements (no damping parameter, or all zero):      P + dPE/dt  = 0
//   dissipative elements:                                           P + dPE/dt <= 0   (they only remove energy)
//   documented non-potential elements ("sources"): reported PE == 0 exactly; where a work function W(q) follows
//       from the documentation (constant force at a station: W = F.p ; constant force along a line: W = f*dist)
//       P - dW/dt = 0
//   gradient clause (conservative always, dissipative at u = 0): for every mobility i the generalized force
//       Q_i = sum_b J_b,i^T F_b + f_i (J from velocity kinematics at u = e_i) equals -d/dt PE along qdot = N e_i.
// Sections "contact", "exponential-spring", "cable" (namespace cx below) apply the same clauses to the contact elements
// and the cable spring of the property's quantifier: HuntCrossleyForce, ElasticFoundationForce, the generators of the
// CompliantContactSubsystem (Hertz circular / elliptical, elastic foundation, brick - half-space), the normal direction of
// ExponentialSpringForce and CableSpring over a CablePath, on purpose-built one- and two-body fixtures.
#include "Simbody.h"
#include "verif.h"
#include "models.h"
#include "forcemodels.h"
#include "refkit.h"
#include "CablePath_Impl.h"

#include <memory>

using namespace SimTK;
using ref::LD;

static const double TOL = 1e-7;        // relative to (power terms + |PE| + parameter floor); worst on the unchanged tree 2.9e-10 (notes/C12.md)
static const double FD_AGREE = 1e-7;   // Richardson pair must agree to this (same normalisation) or the case is skipped and counted
static const LD H = 2e-3L;

struct Unit { int host, elem, pset, attach; };

// harness-side work function of the documented non-potential constant forces (0 if none follows from the docs)
static bool hasWorkFunction(int elem) { return elem == fm::EConstantForce || elem == fm::ETwoPointConstantForce; }
static LD workFunction(const mb::Model& M, const fm::Instance& I, const State& st) {
    const fm::Attach& a = I.at;
    if (I.elem == fm::EConstantForce) {           // "a constant force applied to a body station; the force is a vector fixed in Ground"
        const Vec3 p = fm::bodyOf(M, a.b1).findStationLocationInGround(st, a.s1);
        return (LD)I.p.vec[0] * p[0] + (LD)I.p.vec[1] * p[1] + (LD)I.p.vec[2] * p[2];
    }
    if (I.elem == fm::ETwoPointConstantForce) {   // "acts along the line between two points; a positive force acts to separate the points; independent of the separation"
        const Vec3 r = fm::bodyOf(M, a.b2).findStationLocationInGround(st, a.s2) - fm::bodyOf(M, a.b1).findStationLocationInGround(st, a.s1);
        return (LD)I.p.f * sqrtl((LD)r[0] * r[0] + (LD)r[1] * r[1] + (LD)r[2] * r[2]);
    }
    return 0;
}

struct PathFD { LD d = 0, disagree = 0, absMax = 0; };
// d/dt [PE_reported - W](q0 + t*qdot) at t = 0
static PathFD pathDerivative(const mb::Model& M, const fm::Instance& I, State& st, const Vector& q0, const Vector& qdot) {
    PathFD R;
    auto phi = [&](LD t) {
        st.updQ() = q0 + (Real)t * qdot;
        M.system.realize(st, Stage::Position);
        const LD pe = I.force.calcPotentialEnergyContribution(st);
        const LD w = workFunction(M, I, st);
        R.absMax = std::max(R.absMax, std::max(fabsl(pe), fabsl(w)));
        return std::vector<LD>{pe - w};
    };
    LD dis = 0;
    auto e = ref::fd4(phi, 0, H, &dis);
    R.d = e[0]; R.disagree = dis;
    return R;
}

static void oneCase(verif::Run& run, const Unit& u, int stateKind, int valueSet, const std::string& desc) {
    auto C = fm::buildCase(u.host, u.elem, u.pset, u.attach, stateKind, valueSet);
    mb::Model& M = *C->M; fm::Instance& I = C->I; State& s = C->s;
    M.system.realize(s, Stage::Velocity);
    auto where = [&] { return desc; };
    const fm::Attach& a = I.at;
    const std::string en = fm::elemName(u.elem);
    const int eclass = fm::energyClass(I);
    const int nu = s.getNU();

    // documented preconditions
    if (u.elem == fm::ELinearBushing) {
        const Vec6 q = Force::LinearBushing::downcast(I.force).getQ(s);
        if (std::abs(std::cos(q[1])) < 0.2) { run.count("skipped:bushing-near-documented-singularity"); run.evaluation(verif::hashStr(desc), false); return; }
    } else if (fm::elemClass(u.elem) == fm::CTwoBody && u.elem != fm::ECustomTorquePair) {
        const Real dist = (fm::bodyOf(M, a.b2).findStationLocationInGround(s, a.s2) - fm::bodyOf(M, a.b1).findStationLocationInGround(s, a.s1)).norm();
        if (dist < 1e-3) { run.count("skipped:coincident-stations(documented-error)"); run.evaluation(verif::hashStr(desc), false); return; }
    }

    Vector_<SpatialVec> F; Vector_<Vec3> pF; Vector f;
    I.force.calcForceContribution(s, F, pF, f);
    // power delivered to the system, and the magnitude of its terms
    auto powerOf = [&](const State& vs, LD& P, LD& S) {
        P = 0; S = 0;
        for (MobilizedBodyIndex b(0); b < M.matter.getNumBodies(); ++b) {
            const SpatialVec& V = M.matter.getMobilizedBody(b).getBodyVelocity(vs);
            for (int k = 0; k < 2; ++k) for (int i = 0; i < 3; ++i) { const LD t = (LD)F[b][k][i] * (LD)V[k][i]; P += t; S += fabsl(t); }
        }
        for (int i = 0; i < nu; ++i) { const LD t = (LD)f[i] * (LD)vs.getU()[i]; P += t; S += fabsl(t); }
    };
    LD P = 0, S = 0; powerOf(s, P, S);
    // floor for the normalisation: (size of the element's parameters) x (speeds in the system).  Without it the
    // same-body cases, whose power is pure round-off (1e-17), would be compared with themselves.
    LD paramMag = fabsl((LD)I.p.k) + fabsl((LD)I.p.c) + fabsl((LD)I.p.f) + (LD)I.p.vec.norm() + (LD)I.p.g;
    for (int i = 0; i < 6; ++i) paramMag += (LD)I.p.K6[i] + (LD)I.p.C6[i];
    auto speedOf = [&](const State& vs) { LD v = 0; for (MobilizedBodyIndex b(0); b < M.matter.getNumBodies(); ++b) { const SpatialVec& V = M.matter.getMobilizedBody(b).getBodyVelocity(vs); v = std::max(v, (LD)V[0].norm() + (LD)V[1].norm()); } return v; };
    const LD Vmax = speedOf(s);
    const LD floorN = paramMag * Vmax * (1 + Vmax);

    const LD peHere = I.force.calcPotentialEnergyContribution(s);
    if (eclass == fm::Source) {
        run.expect(peHere == 0, "source-element-reports-nonzero-PE/" + en, [&] { return "documented as not contributing potential energy but reports " + verif::fmtd((double)peHere) + " at " + desc; });
        if (u.elem == fm::EThermostat) {      // documented: all power is external, -c0 * 2KE ; accessor vs f.u
            const LD pw = Force::Thermostat::downcast(I.force).getExternalPower(s);
            if (S > 0) run.residual("thermostat-power-vs-getExternalPower", (double)(fabsl(P - pw) / S), 1e-12, where);
        }
        if (!hasWorkFunction(u.elem)) { run.count(std::string("no-energy-clause(source-without-work-function)/") + en); run.evaluation(verif::hashStr(desc), false); return; }
    }

    State st = s;                     // work state for the path
    const Vector q0 = s.getQ();
    const Vector qdot = s.getQDot();
    bool nontrivial = false;

    // ---- power clause
    {
        PathFD d = pathDerivative(M, I, st, q0, qdot);
        const LD N = S + fabsl(d.d) + d.absMax + floorN;
        if (N > 0) {
            if (d.disagree > FD_AGREE * N) run.count("skipped:richardson-pair-disagrees(power)/" + en);
            else {
                const LD D = P + d.d;     // = -(dissipated power)
                if (S > 0 || d.d != 0) nontrivial = true;
                if (eclass == fm::Dissipative) {
                    run.residual("dissipative-adds-energy/" + en, (double)(D / N), TOL, where);           // D <= tol  (one-sided)
                    if (D < -(LD)TOL * N) run.count("dissipative-cases-removing-energy/" + en);
                    if (u.elem == fm::ELinearBushing && S > 0) {
                        const LD pd = Force::LinearBushing::downcast(I.force).getPowerDissipation(s);
                        run.residual("bushing-dissipation-accessor-vs-power-balance", (double)(fabsl(-D - pd) / N), TOL, where);
                        run.expect(pd >= 0, "bushing-negative-power-dissipation", [&] { return "getPowerDissipation < 0 at " + desc; });
                    }
                } else {
                    run.residual(std::string(eclass == fm::Source ? "power-vs-dWdt/" : "power-plus-dPEdt/") + en, (double)(fabsl(D) / N), TOL, where);
                }
                if (run.verbose) printf("%s\n  class=%s P=%.15Lg d(PE-W)/dt=%.15Lg sum=%.3Lg norm=%.6Lg richardson-disagreement=%.3Lg PE=%.15Lg\n", desc.c_str(), fm::energyClassName(eclass), P, d.d, D, N, d.disagree, peHere);
            }
        } else run.count("trivial:no-power-no-energy/" + en);
    }

    // ---- gradient clause: generalized force = -dPE/dq mapped through N, one mobility at a time
    const bool uIsZero = s.getU().norm() == 0;
    if (eclass != fm::Dissipative || uIsZero) {
        State su = s;
        for (int i = 0; i < nu; ++i) {
            su.updU() = 0; su.updU()[i] = 1;
            M.system.realize(su, Stage::Velocity);
            LD Q = 0, SQ = 0; powerOf(su, Q, SQ);          // Q_i = J_i^T F + f_i  (F, f from the original state)
            const Vector qdi = su.getQDot();
            PathFD d = pathDerivative(M, I, st, q0, qdi);
            const LD Vi = speedOf(su);
            const LD N = SQ + fabsl(d.d) + d.absMax + paramMag * Vi * (1 + Vi);
            if (!(N > 0)) continue;
            if (d.disagree > FD_AGREE * N) { run.count("skipped:richardson-pair-disagrees(gradient)/" + en); continue; }
            if (SQ > 0 || d.d != 0) nontrivial = true;
            run.residual(std::string(eclass == fm::Source ? "genforce-vs-work-gradient/" : "genforce-vs-minus-PE-gradient/") + en, (double)(fabsl(Q + d.d) / N), TOL,
                         [&] { return desc + " mobility=" + std::to_string(i); });
            if (run.verbose) printf("  mobility %d: Q=%.15Lg  d(PE-W)/dt along N e_i = %.15Lg  sum=%.3Lg\n", i, Q, d.d, Q + d.d);
        }
    } else run.count("gradient-clause-not-applicable(damping-active)/" + en);

    run.evaluation(verif::hashStr(desc), nontrivial);
    run.count(std::string("class:") + fm::energyClassName(eclass));
    if (nontrivial) run.count("nontrivial/" + en);
    run.outcome(verif::hashMix(verif::hashPod((float)P), verif::hashPod((float)peHere)));
}

// =====================================================================================================================
// Sections "contact", "exponential-spring", "cable": the contact elements and the cable spring of the property's
// quantifier.  Same oracles as above, on purpose-built two-body fixtures (the element alone in the system):
//   P = sum_b F_b . V_b  (F from Force::calcForceContribution, or the system's rigid-body forces for the
//   CompliantContactSubsystem, which is a force subsystem of its own); dPE/dt by 4th-order central differences of the
//   REPORTED potential energy (Force::calcPotentialEnergyContribution / MultibodySystem::calcPotentialEnergy, state
//   realized to Stage::Dynamics as documented) along q + t*qdot; Richardson pair must agree or the case is skipped.
namespace cx {

struct CoutSilencer { std::streambuf* old; CoutSilencer() : old(std::cout.rdbuf(nullptr)) {} ~CoutSilencer() { std::cout.rdbuf(old); std::cout.clear(); } };

static const double TOLC = 1e-7;          // contact / exponential spring / cable over via points (calibration: notes/C12.md)
static const double TOL_SURFACE = 1e-4;   // cable over a surface obstacle: the path's geodesics are integrated numerically (CablePath: 1e-6)

struct Fx {
    MultibodySystem sys; SimbodyMatterSubsystem matter; GeneralForceSubsystem forces;
    std::unique_ptr<GeneralContactSubsystem> gcs; std::unique_ptr<ContactTrackerSubsystem> tracker; std::unique_ptr<CompliantContactSubsystem> ccs;
    std::unique_ptr<CableTrackerSubsystem> cables; std::unique_ptr<CablePath> path;
    MobilizedBody::Free A, B; bool haveA = false, chain = false;
    Transform X_AF;                       // inboard frame of B on A (chain)
    Force element; bool haveElement = false;
    Fx() : matter(sys), forces(sys) {}
    static Body::Rigid body() { return Body::Rigid(MassProperties(1.3, Vec3(0.1, -0.15, 0.2), Inertia(0.9, 1.2, 1.4, 0.1, -0.07, 0.05).shiftFromMassCenter(Vec3(0.1, -0.15, 0.2), 1.3))); }
    // carrier 0: only B (partner on Ground); 1: A and B both Free on Ground; 2: B is a Free child of A
    void addBodies(int carrier) {
        if (carrier >= 1) { A = MobilizedBody::Free(matter.Ground(), Transform(), body(), Transform()); haveA = true; }
        if (carrier == 2) { chain = true; X_AF = Transform(Rotation(BodyRotationSequence, 0.3, XAxis, 0.5, YAxis, -0.2, ZAxis), Vec3(0.2, -0.1, 0.3)); B = MobilizedBody::Free(A, X_AF, body(), Transform()); }
        else B = MobilizedBody::Free(matter.Ground(), Transform(), body(), Transform());
    }
    MobilizedBody first() { return haveA ? (MobilizedBody)A : (MobilizedBody)matter.updGround(); }
    // poses and velocities are given in Ground; A must be set (and the State realized to Position for the velocities) first
    void poseB(State& s, const Transform& X_GB) {
        if (!chain) { B.setQToFitTransform(s, X_GB); return; }
        sys.realize(s, Stage::Position);
        B.setQToFitTransform(s, ~(A.getBodyTransform(s) * X_AF) * X_GB);
    }
    void velB(State& s, const SpatialVec& V_GB) {       // state realized to Position
        if (!chain) { B.setUToFitVelocity(s, V_GB); return; }
        sys.realize(s, Stage::Velocity);
        const Transform X_GF = A.getBodyTransform(s) * X_AF; const SpatialVec VA = A.getBodyVelocity(s);
        const Vec3 oB = B.getBodyOriginLocation(s), oA = A.getBodyOriginLocation(s);
        const Vec3 vF = VA[1] + VA[0] % (X_GF.p() - oA);
        B.setUToFitVelocity(s, SpatialVec(~X_GF.R() * (V_GB[0] - VA[0]), ~X_GF.R() * (V_GB[1] - vF - VA[0] % (oB - X_GF.p()))));
    }
    LD pe(const State& st) const { return haveElement ? (LD)element.calcPotentialEnergyContribution(st) : (LD)sys.calcPotentialEnergy(st); }
    void applied(const State& s, Vector_<SpatialVec>& F, Vector& f) const {
        if (haveElement) { Vector_<Vec3> pF; element.calcForceContribution(s, F, pF, f); }
        else { F = sys.getRigidBodyForces(s, Stage::Dynamics); f = sys.getMobilityForces(s, Stage::Dynamics); }
    }
};

struct Spec {
    std::string en, suffix, regime;       // element(geometry) ; motion class / regime (last component of the violation key) ; regime used for the counters
    bool dissipative = false, gradient = false;
    LD Fnom = 0, H = 2e-5L; double tol = TOLC, fdAgree = TOLC / 1000;  // a kink inside the stencil leaves an error of up to ~3x the pair's disagreement: kept 300x below the bound
    std::function<bool(const State&)> valid;            // is a stencil point usable (iterative solvers)? null = always
    bool accessorApplies = false; std::function<LD(const State&)> accessor;   // documented dissipated-power accessor
};

struct PathFD { LD d = 0, disagree = 0, absMax = 0; bool bad = false; };
static PathFD pathDerivative(const Fx& fx, const Spec& sp, State& st, const Vector& q0, const Vector& qdot) {
    PathFD R;
    auto phi = [&](LD t) {
        st.updQ() = q0 + (Real)t * qdot;
        fx.sys.realize(st, Stage::Dynamics);
        if (sp.valid && !sp.valid(st)) R.bad = true;
        const LD pe = fx.pe(st);
        R.absMax = std::max(R.absMax, fabsl(pe));
        return std::vector<LD>{pe};
    };
    LD dis = 0; auto e = ref::fd4(phi, 0, sp.H, &dis);
    R.d = e[0]; R.disagree = dis; if (!std::isfinite((double)R.d) || !std::isfinite((double)dis)) R.bad = true;
    return R;
}

// s: realized to Stage::Dynamics.  Returns the power balance D = P + dPE/dt (NaN if not evaluated).
static void judge(verif::Run& run, Fx& fx, State& s, const Spec& sp, const std::string& desc) {
    auto where = [&] { return desc; };
    const SimbodyMatterSubsystem& matter = fx.matter;
    const int nu = s.getNU();
    Vector_<SpatialVec> F; Vector f; fx.applied(s, F, f);
    auto powerOf = [&](const State& vs, LD& P, LD& S) {
        P = 0; S = 0;
        for (MobilizedBodyIndex b(0); b < matter.getNumBodies(); ++b) {
            const SpatialVec& V = matter.getMobilizedBody(b).getBodyVelocity(vs);
            for (int k = 0; k < 2; ++k) for (int i = 0; i < 3; ++i) { const LD t = (LD)F[b][k][i] * (LD)V[k][i]; P += t; S += fabsl(t); }
        }
        for (int i = 0; i < nu; ++i) { const LD t = (LD)f[i] * (LD)vs.getU()[i]; P += t; S += fabsl(t); }
    };
    auto speedOf = [&](const State& vs) { LD v = 0; for (MobilizedBodyIndex b(0); b < matter.getNumBodies(); ++b) { const SpatialVec& V = matter.getMobilizedBody(b).getBodyVelocity(vs); v = std::max(v, (LD)V[0].norm() + (LD)V[1].norm()); } return v; };
    LD P = 0, S = 0; powerOf(s, P, S);
    const LD Vmax = speedOf(s);
    const LD peHere = fx.pe(s);
    run.expect(std::isfinite((double)peHere) && peHere >= 0, "reported-PE-negative-or-not-finite/" + sp.en, [&] { return "reported potential energy " + verif::fmtd((double)peHere) + " at " + desc; });
    if (fx.haveElement) {
        const LD sysPE = fx.sys.calcPotentialEnergy(s);
        run.expect(sysPE == peHere, "system-PE-vs-element-contribution/" + sp.en, [&] { return "MultibodySystem::calcPotentialEnergy " + verif::fmtd((double)sysPE) + " != the only element's contribution " + verif::fmtd((double)peHere) + " at " + desc; });
    }
    bool engaged = false;
    for (int b = 0; b < F.size(); ++b) if (F[b][0].norm() != 0 || F[b][1].norm() != 0) engaged = true;
    run.count(std::string(engaged ? "force-applied/" : "no-force/") + sp.en);

    State st = s;
    const Vector q0 = s.getQ(), qdot = s.getQDot();
    bool nontrivial = false;
    // ---- power clause
    {
        PathFD d = pathDerivative(fx, sp, st, q0, qdot);
        const LD N = S + fabsl(d.d) + d.absMax + sp.Fnom * Vmax;
        if (d.bad) run.count("skipped:solver-not-converged-inside-the-stencil(power)/" + sp.en);
        else if (!(N > 0)) run.count("trivial:no-power-no-energy/" + sp.en);
        else if (d.disagree > (LD)sp.fdAgree * N) run.count("skipped:richardson-pair-disagrees(power)/" + sp.en);
        else {
            const LD D = P + d.d;
            if (S > 0 || d.d != 0) nontrivial = true;
            if (sp.dissipative) {
                run.residual("dissipative-adds-energy/" + sp.en + "/" + sp.suffix, (double)(D / N), sp.tol, where);
                if (D < -(LD)sp.tol * N) run.count("dissipative-cases-removing-energy/" + sp.en + "/" + (sp.regime.empty() ? sp.suffix : sp.regime));
            } else run.residual("power-plus-dPEdt/" + sp.en + "/" + sp.suffix, (double)(fabsl(D) / N), sp.tol, where);
            if (sp.accessor) {
                if (sp.accessorApplies) {
                    const LD pd = sp.accessor(s);
                    run.residual("dissipation-accessor-vs-power-balance/" + sp.en + "/" + sp.suffix, (double)(fabsl(-D - pd) / N), sp.tol, where);
                    run.expect(pd >= 0, "negative-power-dissipation-reported/" + sp.en, [&] { return "reported power dissipation " + verif::fmtd((double)pd) + " < 0 at " + desc; });
                } else run.count("unspecified:dissipation-accessor-while-clamped(documented-exception)/" + sp.en);
            }
            if (run.verbose) printf("%s\n  %s P=%.15Lg dPE/dt=%.15Lg sum=%.3Lg norm=%.6Lg richardson-disagreement=%.3Lg PE=%.15Lg Vmax=%.4Lg\n", desc.c_str(), sp.dissipative ? "dissipative" : "conservative", P, d.d, D, N, d.disagree, peHere, Vmax);
        }
    }
    // ---- gradient clause
    if (sp.gradient) {
        State su = s;
        for (int i = 0; i < nu; ++i) {
            su.updU() = 0; su.updU()[i] = 1;
            fx.sys.realize(su, Stage::Velocity);
            LD Q = 0, SQ = 0; powerOf(su, Q, SQ);
            const Vector qdi = su.getQDot();
            PathFD d = pathDerivative(fx, sp, st, q0, qdi);
            const LD Vi = speedOf(su);
            const LD N = SQ + fabsl(d.d) + d.absMax + sp.Fnom * Vi;
            if (d.bad) { run.count("skipped:solver-not-converged-inside-the-stencil(gradient)/" + sp.en); continue; }
            if (!(N > 0)) continue;
            if (d.disagree > (LD)sp.fdAgree * N) { run.count("skipped:richardson-pair-disagrees(gradient)/" + sp.en); continue; }
            if (SQ > 0 || d.d != 0) nontrivial = true;
            run.residual("genforce-vs-minus-PE-gradient/" + sp.en + (i % 6 < 3 ? "/rotational-mobility" : "/translational-mobility"), (double)(fabsl(Q + d.d) / N), sp.tol, [&] { return desc + " mobility=" + std::to_string(i); });
            if (run.verbose) printf("  mobility %d: Q=%.15Lg  dPE/dt along N e_i = %.15Lg  sum=%.3Lg norm=%.6Lg\n", i, Q, d.d, Q + d.d, N);
        }
    } else run.count("gradient-clause-not-applicable(dissipation-active)/" + sp.en);
    run.evaluation(verif::hashStr(desc), nontrivial);
    run.count(std::string("class:") + (sp.dissipative ? "dissipative" : "conservative") + "(contact-cable)");
    if (nontrivial) run.count("nontrivial/" + sp.en);
    run.outcome(verif::hashMix(verif::hashPod((float)P), verif::hashPod((float)peHere)));
}

// ---------------------------------------------------------------- value sets (VERIF_SEED selects one; thorough runs all)
struct VS { Real Rb, Ra; Real ang[9]; Vec3 pA; };
static const VS kVS[3] = {{0.5, 0.7, {0.2, -0.3, -1.3, 0.3, -0.4, 0.2, -0.5, 0.25, 0.6}, Vec3(0.3, 1.5, -0.2)},
                          {0.3, 0.45, {-0.6, 0.45, 0.8, -0.2, 0.7, -0.35, 0.4, -0.55, 0.15}, Vec3(0.39, 1.95, -0.26)},
                          {0.8, 1.1, {1.1, 0.2, -0.4, 0.5, 0.1, 0.9, -0.3, -0.7, 0.35}, Vec3(0.48, 2.4, -0.32)}};
static Rotation rot3(const Real* a) { return Rotation(BodyRotationSequence, a[0], XAxis, a[1], YAxis, a[2], ZAxis); }

// ---------------------------------------------------------------- section "contact"
enum Shape { S_HS, S_SPH, S_MESHSPH, S_ELL, S_BRICK, S_MESHBRICK };
enum Family { F_HC, F_EF, F_CCS };
struct KindInfo { const char* name; int family, mainShape, partnerShape, efParams; };   // efParams (ElasticFoundationForce): 0 main mesh only, 1 both meshes, 2 partner mesh only
static const KindInfo kKinds[] = {
    {"HuntCrossleyForce(sphere-halfspace)", F_HC, S_SPH, S_HS, 0},
    {"HuntCrossleyForce(sphere-sphere)", F_HC, S_SPH, S_SPH, 0},
    {"ElasticFoundationForce(mesh-halfspace)", F_EF, S_MESHSPH, S_HS, 0},
    {"ElasticFoundationForce(mesh-sphere)", F_EF, S_MESHSPH, S_SPH, 0},
    {"ElasticFoundationForce(mesh-mesh,both-parameterised)", F_EF, S_MESHSPH, S_MESHBRICK, 1},
    {"ElasticFoundationForce(mesh-mesh,only-sphere-mesh-parameterised)", F_EF, S_MESHSPH, S_MESHBRICK, 0},
    {"ElasticFoundationForce(mesh-mesh,only-brick-mesh-parameterised)", F_EF, S_MESHSPH, S_MESHBRICK, 2},
    {"CompliantContact-HertzCircular(sphere-halfspace)", F_CCS, S_SPH, S_HS, 0},
    {"CompliantContact-HertzCircular(sphere-sphere)", F_CCS, S_SPH, S_SPH, 0},
    {"CompliantContact-HertzElliptical(ellipsoid-halfspace)", F_CCS, S_ELL, S_HS, 0},
    {"CompliantContact-ElasticFoundation(mesh-halfspace)", F_CCS, S_MESHSPH, S_HS, 0},
    {"CompliantContact-ElasticFoundation(mesh-sphere)", F_CCS, S_MESHSPH, S_SPH, 0},
    {"CompliantContact-ElasticFoundation(mesh-mesh)", F_CCS, S_MESHSPH, S_MESHBRICK, 0},
    {"CompliantContact-BrickHalfSpace(brick-halfspace)", F_CCS, S_BRICK, S_HS, 0}};
static const int NKIND = sizeof(kKinds) / sizeof(kKinds[0]);

struct Mat { Real c[2], us[2], ud[2], uv[2]; const char* cls; bool damping, friction, clamping; };
static const Mat kMat[5] = {{{0, 0}, {0, 0}, {0, 0}, {0, 0}, "conservative", false, false, false},
                            {{0.4, 0.2}, {0, 0}, {0, 0}, {0, 0}, "damping", true, false, false},
                            {{3.0, 3.0}, {0, 0}, {0, 0}, {0, 0}, "strong-damping(clamps-when-separating)", true, false, true},
                            {{0, 0}, {0.8, 0.9}, {0.5, 0.6}, {0.3, 0.2}, "friction", false, true, false},
                            {{0.4, 0.2}, {0.8, 0.9}, {0.5, 0.6}, {0.3, 0.2}, "damping+friction", true, true, false}};
static const char* depthName(int d) { static const char* n[] = {"separated", "touching", "shallow", "deep"}; return n[d]; }
static const char* velName(int v) { static const char* n[] = {"rest", "approaching", "separating", "sliding", "spinning", "generic"}; return n[v]; }
static const char* carrierName(int c) { static const char* n[] = {"partner-on-Ground", "both-on-moving-bodies", "both-on-moving-bodies(chain)"}; return n[c]; }

struct CCase { int kind, carrier, order, mat, depth, vel, vs; };
static std::string str(const CCase& c) {
    return std::string(kKinds[c.kind].name) + " " + carrierName(c.carrier) + " order=" + std::to_string(c.order) + " mat=" + kMat[c.mat].cls + " depth=" + depthName(c.depth) + " vel=" + velName(c.vel) + " vs=" + std::to_string(c.vs);
}

static PolygonalMesh meshOf(int shape, Real Rb) {
    if (shape == S_MESHSPH) return PolygonalMesh::createSphereMesh(Rb, 2);
    return PolygonalMesh::createBrickMesh(Vec3(1.6, 0.4, 1.4) * Rb, 4);
}
static ContactGeometry geometryOf(int shape, const VS& V, bool isMain) {
    switch (shape) {
        case S_HS: return ContactGeometry::HalfSpace();
        case S_SPH: return ContactGeometry::Sphere(isMain ? V.Rb : V.Ra);
        case S_ELL: return ContactGeometry::Ellipsoid(Vec3(1.2, 0.8, 1.9) * (V.Rb / 2));
        case S_BRICK: return ContactGeometry::Brick(Vec3(0.3, 0.2, 0.1) * (V.Rb / 0.5));
        default: return ContactGeometry::TriangleMesh(meshOf(shape, V.Rb));
    }
}

static void contactCase(verif::Run& run, const CCase& c, const std::string& desc) {
    const KindInfo& K = kKinds[c.kind]; const VS& V = kVS[c.vs]; const Mat& M = kMat[c.mat];
    const Real Rb = V.Rb;
    // ---- relative placement of the main shape in the partner's frame at the requested penetration
    const bool isMesh = K.mainShape == S_MESHSPH, isPoint = !isMesh;
    static const Real depthPoint[4] = {-0.3, 0, 0.02, 0.24}, depthMesh[4] = {-0.2, 0, 0.1, 0.25}, depthBrick[4] = {-0.2, 0, 0.008, 0.12};
    const Real* dt = K.mainShape == S_BRICK ? depthBrick : (isPoint ? depthPoint : depthMesh);
    const Real depth = dt[c.depth] * Rb, depthNominal = dt[2] * Rb;
    Vec3 n_p, foot;               // outward normal of the partner at the contact and a point of its surface, partner frame
    if (K.partnerShape == S_HS) { n_p = Vec3(-1, 0, 0); foot = Vec3(0, 0.3, -0.2); }
    else if (K.partnerShape == S_SPH) { n_p = Vec3(UnitVec3(0.48, 0.6, -0.64)); foot = V.Ra * n_p; }
    else { n_p = Vec3(0, 1, 0); foot = Vec3(0.13 * Rb, 0.4 * Rb, -0.09 * Rb); }
    Rotation R_pm = rot3(V.ang + 6);
    if (K.mainShape == S_BRICK) R_pm = Rotation(UnitVec3(n_p), ZAxis, Vec3(0.2, 0.9, 0.4), XAxis) * Rotation(BodyRotationSequence, 0.05, XAxis, -0.03, YAxis, 0.4, ZAxis);
    const Vec3 dm = ~R_pm * (-n_p);      // direction towards the partner, main frame
    Real hsup = Rb; PolygonalMesh mainMesh;
    if (K.mainShape == S_MESHSPH) { mainMesh = meshOf(S_MESHSPH, Rb); hsup = -Infinity; for (int i = 0; i < mainMesh.getNumVertices(); ++i) hsup = std::max(hsup, dot(mainMesh.getVertexPosition(i), dm)); }
    else if (K.mainShape == S_ELL) { const Vec3 r = Vec3(1.2, 0.8, 1.9) * (Rb / 2); hsup = std::sqrt(square(r[0] * dm[0]) + square(r[1] * dm[1]) + square(r[2] * dm[2])); }
    else if (K.mainShape == S_BRICK) { const Vec3 hl = Vec3(0.3, 0.2, 0.1) * (Rb / 0.5); hsup = hl[0] * std::abs(dm[0]) + hl[1] * std::abs(dm[1]) + hl[2] * std::abs(dm[2]); }
    const Transform X_pm(R_pm, foot + n_p * (hsup - depth));
    const Vec3 pc_p = X_pm.p() - n_p * (hsup - depth / 2);      // middle of the overlap, partner frame

    // ---- system
    Fx fx; fx.addBodies(c.carrier);
    const bool gcsFamily = K.family != F_CCS;
    const bool swapRoles = gcsFamily ? (c.order & 2) != 0 : (c.order & 1) != 0;      // main shape on the first body, partner on B
    const bool reverseRegistration = gcsFamily && (c.order & 1);                       // GeneralContactSubsystem: surface on B registered first
    const int shape0 = swapRoles ? K.mainShape : K.partnerShape, shape1 = swapRoles ? K.partnerShape : K.mainShape;
    const Transform X_P_S0(rot3(V.ang), Vec3(0.1, -0.2, 0.05)), X_B_S1(Rotation(BodyRotationSequence, 0.35, XAxis, -0.2, YAxis, 0.5, ZAxis), Vec3(0, 0.05, 0.1));
    const ContactGeometry g0 = geometryOf(shape0, V, swapRoles), g1 = geometryOf(shape1, V, !swapRoles);
    const int mainSlot = swapRoles ? 0 : 1;      // which of the two surfaces (0: first body, 1: B) carries the main shape
    const Real Epartner = 1e5, Emain = 3e5, kMeshMain = 1e6, kMeshPartner = 2e6, thickness = 0.02, vtrans = 0.05;
    LD Fnom = 0;
    {   // nominal elastic force at the shallow depth (documented laws; only a floor of the normalisation)
        const Real a = std::pow(Epartner, 2. / 3.), b = std::pow(Emain, 2. / 3.), s1 = b / (a + b), Estar = std::pow(s1 * a, 1.5);
        Real Reff = Rb; if (K.partnerShape == S_SPH) Reff = Rb * V.Ra / (Rb + V.Ra);
        if (K.mainShape == S_SPH || K.mainShape == S_ELL) Fnom = (4. / 3.) * std::sqrt(Reff) * Estar * std::pow(depthNominal, 1.5);
        else if (K.mainShape == S_BRICK) Fnom = Epartner * Emain / (Epartner + Emain) * depthNominal;
        else if (K.family == F_EF) Fnom = kMeshMain * (0.3 * Rb * Rb) * depthNominal;
        else Fnom = (Epartner / thickness) * (Emain / thickness) / (Epartner / thickness + Emain / thickness) * (0.3 * Rb * Rb) * depthNominal;
    }
    if (gcsFamily) {
        fx.gcs.reset(new GeneralContactSubsystem(fx.sys));
        ContactSetIndex set = fx.gcs->createContactSet();
        int idx[2];
        if (!reverseRegistration) { fx.gcs->addBody(set, fx.first(), g0, X_P_S0); idx[0] = 0; fx.gcs->addBody(set, fx.B, g1, X_B_S1); idx[1] = 1; }
        else { fx.gcs->addBody(set, fx.B, g1, X_B_S1); idx[1] = 0; fx.gcs->addBody(set, fx.first(), g0, X_P_S0); idx[0] = 1; }
        if (K.family == F_HC) {
            HuntCrossleyForce hc(fx.forces, *fx.gcs, set);
            for (int k = 0; k < 2; ++k) hc.setBodyParameters(ContactSurfaceIndex(idx[k]), k == mainSlot ? Emain : Epartner, M.c[k], M.us[k], M.ud[k], M.uv[k]);
            hc.setTransitionVelocity(vtrans);
            fx.element = hc;
        } else {
            ElasticFoundationForce ef(fx.forces, *fx.gcs, set);
            for (int k = 0; k < 2; ++k) {
                const bool isMainSurface = k == mainSlot;
                const bool parameterised = isMainSurface ? (K.efParams == 0 || K.efParams == 1) : (K.partnerShape == S_MESHBRICK && (K.efParams == 1 || K.efParams == 2));
                if (parameterised) ef.setBodyParameters(ContactSurfaceIndex(idx[k]), isMainSurface ? kMeshMain : kMeshPartner, M.c[k], M.us[k], M.ud[k], M.uv[k]);
            }
            ef.setTransitionVelocity(vtrans);
            fx.element = ef;
        }
        fx.haveElement = true;
    } else {
        fx.tracker.reset(new ContactTrackerSubsystem(fx.sys));
        fx.ccs.reset(new CompliantContactSubsystem(fx.sys, *fx.tracker));
        fx.ccs->setTransitionVelocity(vtrans);
        const ContactMaterial m0(mainSlot == 0 ? Emain : Epartner, M.c[0], M.us[0], M.ud[0], M.uv[0]), m1(mainSlot == 1 ? Emain : Epartner, M.c[1], M.us[1], M.ud[1], M.uv[1]);
        auto surf = [&](const ContactGeometry& g, const ContactMaterial& m, int shape) { return (shape == S_MESHSPH || shape == S_MESHBRICK) ? ContactSurface(g, m, thickness) : ContactSurface(g, m); };
        fx.first().updBody().addContactSurface(X_P_S0, surf(g0, m0, shape0));
        fx.B.updBody().addContactSurface(X_B_S1, surf(g1, m1, shape1));
    }
    CoutSilencer silence;
    fx.sys.realizeTopology();
    State s = fx.sys.getDefaultState();
    // ---- poses
    const Transform X_GP = fx.haveA ? Transform(rot3(V.ang + 3), V.pA) : Transform();
    if (fx.haveA) fx.A.setQToFitTransform(s, X_GP);
    const Transform X_GS0 = X_GP * X_P_S0;
    const Transform X_S0S1 = swapRoles ? ~X_pm : X_pm;
    const Transform X_GS1 = X_GS0 * X_S0S1;
    const Transform X_GB = X_GS1 * ~X_B_S1;
    fx.poseB(s, X_GB);
    const Transform X_Gpartner = swapRoles ? X_GS1 : X_GS0;
    Vec3 n = X_Gpartner.R() * n_p; if (swapRoles) n = -n;          // from the first body's surface towards B's surface
    const Vec3 pc = X_Gpartner * pc_p;
    Vec3 t = Vec3(0.3, 0.5, -0.8); t = t - dot(t, n) * n; t = t / t.norm();
    fx.sys.realize(s, Stage::Position);
    {   // harness sanity: B is where the construction says it is
        const Real e = (fx.B.getBodyTransform(s).p() - X_GB.p()).norm() + (fx.B.getBodyTransform(s).R() * ~X_GB.R()).convertRotationToAngleAxis()[0];
        if (!(std::abs(e) < 1e-12)) { run.harnessError("contact fixture pose differs from the construction (" + verif::fmtd(e) + ") at " + desc); return; }
    }
    // ---- velocities (B relative to the first body at the contact point)
    if (c.vel != 0) {
        SpatialVec VA(Vec3(0), Vec3(0));
        if (fx.haveA) { VA = SpatialVec(Vec3(0.4, 0.2, -0.3), Vec3(-0.2, 0.1, 0.3)); fx.A.setUToFitVelocity(s, VA); }
        Vec3 wrel(0), vd(0);
        switch (c.vel) { case 1: vd = -0.7 * n; break; case 2: vd = 0.7 * n; break; case 3: vd = 0.9 * t - 0.05 * n; break; case 4: wrel = Vec3(1.5, -2.0, 0.8); vd = 0.1 * t; break; default: wrel = Vec3(-0.7, 0.4, 1.1); vd = 0.3 * t + 0.25 * n; break; }
        const Vec3 oA = fx.haveA ? X_GP.p() : Vec3(0);
        const Vec3 vApc = VA[1] + VA[0] % (pc - oA);
        const Vec3 wB = VA[0] + wrel;
        const Vec3 vB = vApc + vd - wB % (pc - X_GB.p());
        fx.velB(s, SpatialVec(wB, vB));
        fx.sys.realize(s, Stage::Velocity);
        const Real e = (fx.B.getBodyVelocity(s)[0] - wB).norm() + (fx.B.getBodyVelocity(s)[1] - vB).norm();
        if (!(e < 1e-12)) { run.harnessError("contact fixture velocity differs from the construction (" + verif::fmtd(e) + ") at " + desc); return; }
    }
    fx.sys.realize(s, Stage::Dynamics);

    if (run.verbose && K.mainShape == S_ELL) {
        const Vec3 r = Vec3(1.2, 0.8, 1.9) * (Rb / 2); const Vec3 pl(r[0] * r[0] * dm[0] / hsup, r[1] * r[1] * dm[1] / hsup, r[2] * r[2] * dm[2] / hsup);
        const Transform X_Gmain = swapRoles ? X_GS0 : X_GS1; const Vec3 Q = X_Gmain * pl;
        const Vector_<SpatialVec>& FF = fx.sys.getRigidBodyForces(s, Stage::Dynamics); const int ib = (int)fx.B.getMobilizedBodyIndex();
        const Vec3 MQ = FF[ib][0] + (fx.B.getBodyOriginLocation(s) - Q) % FF[ib][1];
        printf("  ellipsoid: deepest point Q=(%g %g %g); force on B=(%g %g %g); moment of that force about Q=(%g %g %g) (|F|*depth=%g)\n", Q[0], Q[1], Q[2], FF[ib][1][0], FF[ib][1][1], FF[ib][1][2], MQ[0], MQ[1], MQ[2], FF[ib][1].norm() * depth);
        if (fx.ccs->getNumContactForces(s)) { const Vec3 cp = fx.ccs->getContactForce(s, 0).getContactPoint(); printf("  reported contact point (%g %g %g), offset from Q: (%g %g %g); normal n=(%g %g %g)\n", cp[0], cp[1], cp[2], cp[0]-Q[0], cp[1]-Q[1], cp[2]-Q[2], n[0], n[1], n[2]); }
    }
    if (run.verbose && fx.gcs) {
        const Array_<Contact>& cts = fx.gcs->getContacts(s, ContactSetIndex(0));
        printf("  contacts=%d depth=%.6g hsup=%.6g\n", (int)cts.size(), depth, hsup);
        for (int i = 0; i < (int)cts.size(); ++i) if (TriangleMeshContact::isInstance(cts[i])) { const TriangleMeshContact& tc = static_cast<const TriangleMeshContact&>(cts[i]); printf("   mesh contact: surf1 faces=%d surf2 faces=%d\n", (int)tc.getSurface1Faces().size(), (int)tc.getSurface2Faces().size()); }
    }
    Spec sp; sp.en = K.name; sp.suffix = c.vel == 0 ? "rest" : (c.vel >= 4 ? "relative-rotation" : "relative-translation"); sp.Fnom = Fnom; sp.H = 2e-5L; sp.tol = TOLC;
    // ElasticFoundationForce: surfaces without parameters contribute neither dissipation nor friction; the coefficients of the
    // parameterised mesh(es) decide.  All other models combine both materials, and both carry the set's coefficients.
    sp.dissipative = M.damping || M.friction;
    sp.gradient = !sp.dissipative || s.getU().norm() == 0;
    if (fx.ccs) {
        // documented (CompliantContactSubsystem.h "Energy and power", getDissipatedEnergy): PE + KE + dissipated energy is conserved except while a
        // Hunt-Crossley force is clamped at zero ("yanking").  Clamping needs 1 + (3/2) c xdot < 0 (Hertz) / 1 + c xdot < 0: impossible for c <= 0.4
        // with the speeds used here; with the strong-damping set it cannot happen at rest or in pure approach.
        sp.accessor = [&](const State& st) { LD p = 0; for (int i = 0; i < fx.ccs->getNumContactForces(st); ++i) p += (LD)fx.ccs->getContactForce(st, i).getPowerDissipation(); return p; };
        sp.accessorApplies = !M.clamping || c.vel <= 1;
    }
    sp.regime = M.cls;
    judge(run, fx, s, sp, desc);
    {   // the reported energy is a function of the state, not of the State object's history: change only the velocities of an already realized
        // State (moving -> rest, and rest -> moving on a fresh State) and compare with the value reported for the same (q, u) reached the other way
        const std::string gen = std::string(K.name).substr(0, std::string(K.name).find('('));
        const LD peMoving = fx.pe(s); const Vector uMoving = s.getU();
        State fresh = fx.sys.getDefaultState(); fresh.updQ() = s.getQ(); fx.sys.realize(fresh, Stage::Dynamics);
        const LD peRestFresh = fx.pe(fresh);
        s.updU() = 0; fx.sys.realize(s, Stage::Dynamics);
        const LD peRestAfterMoving = fx.pe(s);
        fresh.updU() = uMoving; fx.sys.realize(fresh, Stage::Dynamics);
        const LD peMovingAfterRest = fx.pe(fresh);
        run.expect(peRestAfterMoving == peRestFresh && peMovingAfterRest == peMoving, "reported-PE-stale-after-velocity-change/" + gen, [&] {
            return "same State object, only u changed: PE at rest " + verif::fmtd((double)peRestAfterMoving) + " (fresh State: " + verif::fmtd((double)peRestFresh) + "), PE moving " + verif::fmtd((double)peMovingAfterRest) + " (first evaluation: " + verif::fmtd((double)peMoving) + ") at " + desc; });
        if (peMoving != peRestFresh) run.count("reported-PE-depends-on-velocity(clamped-contact)/" + gen);
        s.updU() = uMoving; fx.sys.realize(s, Stage::Dynamics);
    }
    if (c.depth == 0) { Vector_<SpatialVec> F; Vector f; fx.applied(s, F, f); bool any = false; for (int b = 0; b < F.size(); ++b) any = any || F[b][0].norm() != 0 || F[b][1].norm() != 0;
        run.expect(!any && fx.pe(s) == 0, "separated-surfaces-force-or-energy/" + sp.en, [&] { return "force or potential energy reported although the surfaces are separated at " + desc; }); }
    if (c.depth >= 2) { Vector_<SpatialVec> F; Vector f; State s0 = s; s0.updU() = 0; fx.sys.realize(s0, Stage::Dynamics); fx.applied(s0, F, f); bool any = false; for (int b = 0; b < F.size(); ++b) any = any || F[b][1].norm() != 0;
        run.expect(any && fx.pe(s0) > 0, "vacuity:penetrating-fixture-applies-no-force/" + sp.en, [&] { return "harness: no force / no energy at rest although the construction penetrates at " + desc; }); }
}

// ---------------------------------------------------------------- section "exponential-spring" (normal direction)
struct ECase { int par, cz, mu, plane, height, vel, vs; };
static std::string str(const ECase& e) {
    static const char* hn[] = {"far-above", "above", "on-plane", "below", "deep(max-force-clamp)"};
    return std::string("ExponentialSpringForce par=") + std::to_string(e.par) + " cz#" + std::to_string(e.cz) + " mu#" + std::to_string(e.mu) + " plane=" + std::to_string(e.plane) + " height=" + hn[e.height] + " vel=" + velName(e.vel) + " vs=" + std::to_string(e.vs);
}
static void expSpringCase(verif::Run& run, const ECase& e, const std::string& desc) {
    Fx fx; fx.addBodies(0);
    ExponentialSpringParameters par;
    Real d0 = 0.0065905, d1 = 0.5336, d2 = 1150.0, maxFz = 100000.0;      // documented defaults
    if (e.par == 1) { d0 = -0.002; d1 = 1.2; d2 = 600; maxFz = 250; par.setShapeParameters(d0, d1, d2); par.setMaxNormalForce(maxFz); par.setFrictionElasticity(3000); par.setFrictionViscosity(40); par.setSettleVelocity(0.03); }
    static const Real czTable[3] = {0, 0.5, 3.0};
    const Real cz = czTable[e.cz]; par.setNormalViscosity(cz);
    const Real mus = e.mu ? 0.7 : 0, muk = e.mu ? 0.5 : 0;
    par.setInitialMuStatic(mus); par.setInitialMuKinetic(muk);
    const Transform X_GP = e.plane == 0 ? Transform() : e.plane == 1 ? Transform(Rotation(-Pi / 2, XAxis), Vec3(0.2, -0.1, 0.3)) : Transform(Rotation(BodyRotationSequence, 0.4 + 0.2 * e.vs, XAxis, -0.7, YAxis, 0.3, ZAxis), Vec3(-0.3, 0.5, 0.1));
    const Vec3 station(0.15, -0.1, 0.25);
    ExponentialSpringForce spr(fx.forces, X_GP, fx.B, station, par);
    fx.element = spr; fx.haveElement = true;
    fx.sys.realizeTopology();
    State s = fx.sys.getDefaultState();
    const Real pzTable[5] = {0.03, 0.008, 0, -0.002, e.par == 0 ? -0.02 : -0.012};
    const Real pz = pzTable[e.height];
    const Vec3 pP = Vec3(0.3 + 0.1 * e.vs, -0.2, pz), pG = X_GP * pP;
    const Rotation R_GB(BodyRotationSequence, -0.5, XAxis, 0.25 + 0.1 * e.vs, YAxis, 0.6, ZAxis);
    const Vec3 oB = pG - R_GB * station;
    fx.B.setQToFitTransform(s, Transform(R_GB, oB));
    Vec3 wB(0), vP(0);       // station velocity in the plane frame (z = normal)
    switch (e.vel) { case 1: vP = Vec3(0, 0, -0.6); break; case 2: vP = Vec3(0, 0, 0.5); break; case 3: vP = Vec3(0.48, -0.64, -0.05); break; case 4: wB = Vec3(1.5, -2.0, 0.8); vP = Vec3(0.06, -0.08, 0.1); break; default: break; }
    const Vec3 vG = X_GP.R() * vP;
    fx.sys.realize(s, Stage::Position);
    fx.B.setUToFitVelocity(s, SpatialVec(wB, vG - wB % (pG - oB)));
    spr.resetAnchorPoint(s);
    fx.sys.realize(s, Stage::Dynamics);
    {
        const Vec3 pc = fx.B.findStationLocationInGround(s, station), vc = fx.B.findStationVelocityInGround(s, station);
        if (!((pc - pG).norm() < 1e-13 && (vc - vG).norm() < 1e-12)) { run.harnessError("exponential spring fixture kinematics differ at " + desc); return; }
    }
    // documented law (ExponentialSpringForce.h): fzElas = d1 exp(-d2 (pz - d0)), fz = fzElas (1 - cz vz) clamped to [0, maxFz]
    const Real fzElas = d1 * std::exp(-d2 * (pz - d0)), fzRaw = fzElas * (1 - cz * vP[2]);
    if (fzRaw > maxFz || fzElas > maxFz) {
        // documented: "conservation of energy may fail if the material actually yields" (upper limit of the normal force)
        run.count("unspecified:normal-force-at-documented-maximum(energy-conservation-not-promised)"); run.evaluation(verif::hashStr(desc), false); return;
    }
    Spec sp; sp.en = "ExponentialSpringForce(normal)"; sp.suffix = cz == 0 ? "conservative" : (fzRaw < 0 ? "normal-viscosity(clamped-at-zero)" : "normal-viscosity");
    sp.Fnom = d1 * std::exp(d2 * d0); sp.H = (LD)0.01 / (LD)d2; sp.tol = TOLC;
    sp.dissipative = cz != 0;      // friction: mu = 0, or no tangential motion of the station (the enumeration guarantees it)
    sp.gradient = !sp.dissipative || s.getU().norm() == 0;
    if (fzRaw < 0) run.count("expspring:normal-force-clamped-at-zero");
    judge(run, fx, s, sp, desc);
}

// ---------------------------------------------------------------- section "cable"
struct KCase { int pathKind, carrier, c, slack, vel, vs; };
static const char* pathKindName(int k) { static const char* n[] = {"via-point", "surface-obstacle", "disabled-surface-obstacle", "via-point+surface-obstacle", "no-obstacle"}; return n[k]; }
static std::string str(const KCase& k) {
    static const char* cn[] = {"all-on-Ground-but-termination", "origin-on-moving-body", "obstacles-on-moving-body"}; static const char* sn[] = {"slack", "exactly-taut", "stretched", "very-stretched"};
    static const char* vn[] = {"rest", "lengthening", "shortening", "generic", "spinning"};
    return std::string("CableSpring(") + pathKindName(k.pathKind) + ") " + cn[k.carrier] + " c#" + std::to_string(k.c) + " " + sn[k.slack] + " vel=" + vn[k.vel] + " vs=" + std::to_string(k.vs);
}
static void cableCase(verif::Run& run, const KCase& k, const std::string& desc) {
    Fx fx; fx.addBodies(k.carrier == 0 ? 0 : 1);
    fx.cables.reset(new CableTrackerSubsystem(fx.sys));
    const Real sc = 1 + 0.15 * k.vs, r = 0.5 * sc;
    const Vec3 Ow(-2.0, 0.2 * sc, 0.1), Cw(0.05 * k.vs, 0, 0.02), Tw(2.0 + 0.2 * k.vs, 0.1, 0.3), V1w(0.3, 1.0 * sc, 0.2), V2w(1.2, -0.3 * sc, 0.25);
    const Transform X_GA(rot3(kVS[k.vs].ang + 3), Vec3(-0.4, -0.8, 0.3));
    const Rotation R_GB(BodyRotationSequence, -0.5, XAxis, 0.25, YAxis, 0.6, ZAxis);
    const Vec3 stB(-0.1, 0.2, 0.15), oB = Tw - R_GB * stB;
    const bool originOnA = k.carrier == 1, obstacleOnA = k.carrier == 2;
    MobilizedBody originBody = originOnA ? (MobilizedBody)fx.A : (MobilizedBody)fx.matter.updGround();
    MobilizedBody obsBody = obstacleOnA ? (MobilizedBody)fx.A : (MobilizedBody)fx.matter.updGround();
    auto inBody = [&](bool onA, const Vec3& pw) { return onA ? ~X_GA * pw : pw; };
    fx.path.reset(new CablePath(*fx.cables, originBody, inBody(originOnA, Ow), fx.B, stB));
    const bool hasSurface = k.pathKind == 1 || k.pathKind == 2 || k.pathKind == 3;
    if (k.pathKind == 0) CableObstacle::ViaPoint(*fx.path, obsBody, inBody(obstacleOnA, V1w));
    if (hasSurface) {
        const Transform X_BS(obstacleOnA ? ~X_GA.R() : Rotation(), inBody(obstacleOnA, Cw));    // surface frame aligned with Ground at the base pose
        CableObstacle::Surface so(*fx.path, obsBody, X_BS, ContactGeometry::Sphere(r));
        so.setContactPointHints(Vec3(-0.2 * r, r, 0), Vec3(0.2 * r, r, 0));
        if (k.pathKind == 2) so.setDisabledByDefault(true);
    }
    if (k.pathKind == 3) CableObstacle::ViaPoint(*fx.path, obsBody, inBody(obstacleOnA, V2w));
    static const Real cTable[3] = {0, 0.3, 3.0};
    const Real kSpring = 120, cc = cTable[k.c];
    CableSpring spring(fx.forces, *fx.path, kSpring, 1.0, cc);
    fx.element = spring; fx.haveElement = true;
    CoutSilencer silence;
    fx.sys.realizeTopology();
    State s = fx.sys.getDefaultState();
    if (fx.haveA) fx.A.setQToFitTransform(s, X_GA);
    fx.B.setQToFitTransform(s, Transform(R_GB, oB));
    fx.sys.realize(s, Stage::Position);
    const CablePath::Impl& pimpl = fx.path->getImpl();
    const bool activeSurface = k.pathKind == 1 || k.pathKind == 3;
    auto converged = [&](const State& st) { const PathPosEntry& ppe = pimpl.getPosEntry(st); return std::isfinite(fx.path->getCableLength(st)) && (ppe.err.size() ? ppe.err.norm() : 0.0) <= 1e-9; };
    const Real L = fx.path->getCableLength(s);
    if (!run.expect(converged(s), std::string("vacuity:cable-path-not-converged-at-the-base-state/") + pathKindName(k.pathKind), [&] { return "harness: the fixture's cable path does not converge (a surface obstacle that would have to lift off?) at " + desc; })) { run.evaluation(verif::hashStr(desc), false); return; }
    {   // vacuity / construction: the active sphere must lengthen the path beyond the straight polyline, the disabled one must not
        Real poly = 0; Vec3 prev = Ow; if (k.pathKind == 0) { poly += (V1w - prev).norm(); prev = V1w; } if (k.pathKind == 3) { poly += (V2w - prev).norm(); prev = V2w; } poly += (Tw - prev).norm();
        if (activeSurface) run.expect(L > poly + 1e-3, "vacuity:cable-does-not-wrap-the-active-obstacle", [&] { return "harness: path length " + verif::fmtd(L) + " vs polyline " + verif::fmtd(poly) + " at " + desc; });
        else run.residual("cable-length-without-active-surface-is-the-polyline", std::abs(L - poly) / poly, 1e-13, [&] { return desc; });
    }
    static const Real slackFactor[4] = {1.4, 1.0, 0.9, 0.5};
    const Real L0 = L * slackFactor[k.slack];
    spring.setSlackLength(s, L0);
    fx.sys.realize(s, Stage::Position);
    // velocities: B moves along / against the last cable direction (approximately +x), A generic
    if (k.vel != 0) {
        if (fx.haveA) fx.A.setUToFitVelocity(s, SpatialVec(Vec3(0.4, 0.2, -0.3), Vec3(-0.2, 0.1, 0.3)));
        SpatialVec VB(Vec3(0), Vec3(0));
        switch (k.vel) { case 1: VB[1] = Vec3(0.7, -0.1, 0.05); break; case 2: VB[1] = Vec3(-0.7, 0.1, -0.05); break; case 3: VB = SpatialVec(Vec3(-0.7, 0.4, 1.1), Vec3(0.2, 0.5, -0.3)); break; default: VB[0] = Vec3(1.5, -2.0, 0.8); break; }
        fx.B.setUToFitVelocity(s, VB);
    }
    fx.sys.realize(s, Stage::Dynamics);
    const Real Ldot = fx.path->getCableLengthDot(s);
    const bool clamped = L > L0 && cc * Ldot < -1;
    Spec sp; sp.en = std::string("CableSpring(") + pathKindName(k.pathKind) + ")";
    sp.suffix = cc == 0 ? "conservative" : (clamped ? "dissipation(tension-clamped-at-zero)" : "dissipation");
    sp.Fnom = kSpring * 0.1 * L; sp.H = 2e-3L; sp.tol = activeSurface ? TOL_SURFACE : TOLC; sp.fdAgree = sp.tol / 300;
    sp.dissipative = cc != 0;
    sp.gradient = !sp.dissipative || s.getU().norm() == 0;
    sp.valid = converged;
    // documented (CableSpring.h): powerLoss = f_rate * xdot accounts exactly for the lost energy, also while the tension is clamped at zero
    sp.accessor = [&](const State& st) { return (LD)spring.getPowerDissipation(st); }; sp.accessorApplies = true;
    run.count(std::string("cable:") + (L > L0 ? (clamped ? "stretched-clamped" : "stretched") : (L == L0 ? "exactly-taut" : "slack")));
    judge(run, fx, s, sp, desc);
}

}  // namespace cx

int main(int argc, char** argv) {
    verif::Run run("C12", argc, argv);
    run.setDeadline(300, 2400);
    const bool th = run.thorough();
    run.rule = "E3: section alphabet: case = (host tree of 3 bodies (3 trees; thorough 5), force element, parameter set, attachment, state kind, value set); every tuple of the force alphabet is built and evaluated. "
               "section contact: case = (element x geometry pair (14: HuntCrossleyForce sphere/half-space, sphere/sphere; ElasticFoundationForce mesh/half-space, mesh/sphere, mesh/mesh with both / only the sphere mesh / only the brick mesh parameterised; "
               "CompliantContactSubsystem Hertz circular sphere/half-space, sphere/sphere, Hertz elliptical ellipsoid/half-space, elastic foundation mesh/half-space, mesh/sphere, mesh/mesh, brick/half-space), "
               "carrier (partner surface on Ground / both on free bodies; thorough + second body a child of the first), surface order (registration order reversed for the GeneralContactSubsystem elements; shapes swapped between the two bodies for the "
               "CompliantContactSubsystem; thorough: both for the former), material set (5: conservative, damping, strong damping that clamps the force at zero when separating, friction, damping+friction), "
               "penetration (separated, touching, shallow, deep), relative velocity (rest, approaching, separating, sliding, spinning; thorough + generic), value set). "
               "section exponential-spring: (parameter set(2), normal viscosity(0, .5, 3), friction(off: any motion / on: motion along the plane normal only), plane(3), height(5 incl. the max-force clamp), velocity, value set). "
               "section cable: (path: via point / surface obstacle / disabled surface obstacle (thorough + via point and surface, no obstacle), which attachment is on a moving body(3), dissipation(0, .3, 3), slack length(slack, exactly taut, stretched, very stretched), velocity(4; thorough 5), value set). "
               "distinct = distinct tuple; non-trivial = some power term, energy derivative or generalized-force component is non-zero";
    run.assumptions = {"continuous values only from the fixed tables of engine/models.h and engine/forcemodels.h", "body velocities and qdot = N u are the library's velocity kinematics (checked by C03/C04)", "finite differences: 4th-order central, h = 2e-3 and 1e-3 must agree to 1e-7 (normalised) or the case is skipped and counted", "contact / exponential-spring / cable sections: the element is alone in its system; reported PE = Force::calcPotentialEnergyContribution (== MultibodySystem::calcPotentialEnergy, checked) or MultibodySystem::calcPotentialEnergy for the CompliantContactSubsystem, always on a State realized to Stage::Dynamics as documented; the stencil keeps u fixed", "contact sections: step h = 2e-5 (contact), 0.01/d2 (exponential spring), 2e-3 (cable); Richardson pair must agree to 1e-10 (normalised) or the case is skipped and counted (kinks: touching surfaces, mesh faces entering contact, slack/taut, clamps); cable over a surface obstacle: bound 1e-4, agreement 3.3e-7 (its geodesics are integrated numerically) and every stencil point must have a converged path (error <= 1e-9)", "normalisation of the contact sections: sum |power terms| + |dPE/dt| + max |PE| on the stencil + (documented elastic force at the nominal shallow penetration) x (largest body speed)", "clamped regimes (force clamped at zero while separating fast, CableSpring tension clamped at zero) are dissipative: one-sided clause; CompliantContactSubsystem dissipated-power report = -(P + dPE/dt) demanded only where no clamping is possible (documented exception), CableSpring always (documented)", "ExponentialSpringForce: only the normal direction (friction off, or no tangential motion of the station); states with the normal force at its documented maximum are counted, not judged (the header: conservation of energy may fail there)", "the law of each contact force is C37's, third law C13's, cable geometry C45's; here only power vs reported energy", "quaternion hosts: the straight-line path q + t*qdot leaves the unit sphere at second order; the library normalises quaternions, first derivatives are unaffected"};
    for (int h = 0; h < fm::NHOST_ALL; ++h) { std::string why; if (!fm::checkHostTables(h, &why)) { run.harnessError(why); return run.finish(); } }
    std::vector<int> valueSets = th ? std::vector<int>{0, 1, 2} : std::vector<int>{(int)(((run.seed % 3) + 3) % 3)};
    std::vector<Unit> units;
    for (int h = 0; h < (th ? fm::NHOST_ALL : fm::NHOST); ++h) for (int e = 0; e < fm::NELEM; ++e) for (int p = 0; p < fm::numParamSets(e); ++p) for (int a = 0; a < fm::numAttachments(h, e); ++a) units.push_back({h, e, p, a});
    verif::Odometer od; od.dim("state", 4); od.dim("valueset", (int64_t)valueSets.size()); od.dim("unit", (int64_t)units.size());
    run.parallel("alphabet", od.size(), [&](int64_t idx) {
        auto d = od.digits(idx); const Unit& u = units[d[2]];
        std::string desc = "item=" + std::to_string(idx) + " host=" + fm::hostName(u.host) + " " + fm::elemName(u.elem) + "/p" + std::to_string(u.pset) + "/" + fm::attachments(u.host, u.elem)[u.attach].str + " state=" + std::to_string(d[0]) + " vs=" + std::to_string(valueSets[d[1]]);
        try { oneCase(run, u, d[0], valueSets[d[1]], desc); }
        catch (const std::exception& e) { run.violation(std::string("exception/") + fm::elemName(u.elem), std::string("exception: ") + e.what() + " at " + desc, run.replayHeader()); }
        if (idx % 1543 == 0) run.sample(desc);
    });
    // ---- contact elements, exponential spring (normal direction), cable spring
    const std::vector<int> vsets = th ? std::vector<int>{0, 1, 2} : std::vector<int>{(int)(((run.seed % 3) + 3) % 3)};
    {
        std::vector<cx::CCase> cc;
        for (int vs : vsets) for (int k = 0; k < cx::NKIND; ++k) for (int ca = 0; ca < (th ? 3 : 2); ++ca) {
            const int nOrder = (th && cx::kKinds[k].family != cx::F_CCS) ? 4 : 2;
            for (int o = 0; o < nOrder; ++o) for (int m = 0; m < 5; ++m) for (int d = 0; d < 4; ++d) for (int v = 0; v < (th ? 6 : 5); ++v) cc.push_back({k, ca, o, m, d, v, vs});
        }
        run.parallel("contact", (int64_t)cc.size(), [&](int64_t idx) {
            const cx::CCase& c = cc[idx];
            const std::string desc = "contact item=" + std::to_string(idx) + " " + cx::str(c);
            try { cx::contactCase(run, c, desc); }
            catch (const std::exception& e) { run.violation(std::string("exception/") + cx::kKinds[c.kind].name, std::string("exception: ") + e.what() + " at " + desc, run.replayHeader() + desc); }
            if (idx % 733 == 0) run.sample(desc);
        });
    }
    {
        std::vector<cx::ECase> ec;
        for (int vs : vsets) for (int par = 0; par < 2; ++par) for (int cz = 0; cz < 3; ++cz) for (int mu = 0; mu < 2; ++mu) for (int pl = 0; pl < 3; ++pl) for (int hgt = 0; hgt < 5; ++hgt)
            for (int v = 0; v < (mu ? 3 : 5); ++v) ec.push_back({par, cz, mu, pl, hgt, v, vs});       // with friction: motion of the station along the plane normal only
        run.parallel("exponential-spring", (int64_t)ec.size(), [&](int64_t idx) {
            const cx::ECase& e = ec[idx];
            const std::string desc = "exponential-spring item=" + std::to_string(idx) + " " + cx::str(e);
            try { cx::expSpringCase(run, e, desc); }
            catch (const std::exception& ex) { run.violation("exception/ExponentialSpringForce(normal)", std::string("exception: ") + ex.what() + " at " + desc, run.replayHeader() + desc); }
            if (idx % 211 == 0) run.sample(desc);
        });
    }
    {
        std::vector<cx::KCase> kc;
        const std::vector<int> pathKinds = th ? std::vector<int>{0, 1, 2, 3, 4} : std::vector<int>{0, 1, 2};
        for (int vs : vsets) for (int pk : pathKinds) for (int ca = 0; ca < 3; ++ca) for (int c = 0; c < 3; ++c) for (int sl = 0; sl < 4; ++sl) for (int v = 0; v < (th ? 5 : 4); ++v) kc.push_back({pk, ca, c, sl, v, vs});
        run.parallel("cable", (int64_t)kc.size(), [&](int64_t idx) {
            const cx::KCase& k = kc[idx];
            const std::string desc = "cable item=" + std::to_string(idx) + " " + cx::str(k);
            try { cx::cableCase(run, k, desc); }
            catch (const std::exception& ex) { run.violation(std::string("exception/CableSpring(") + cx::pathKindName(k.pathKind) + ")", std::string("exception: ") + ex.what() + " at " + desc, run.replayHeader() + desc); }
            if (idx % 97 == 0) run.sample(desc);
        });
    }
    return run.finish();
}
