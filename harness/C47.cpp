// C47 -- Geodesics lie on their surfaces and agree across methods.
// Engine E3 (enum): surfaces {sphere, cylinder, ellipsoid x2, torus x2} x 6x6 start-point parameter lattice x 12 tangent
// directions x lengths {short, quarter, > half circumference} (thorough: + tiny, medium, > full circumference; all 9 value sets).
// Every case runs the real ContactGeometry geodesic shooters / solvers and compares every knot with an independent reference
// geodesic written here in long double: closed forms (great circle, helix) or a fixed-step RK4 of the geodesic equations in a
// different formulation (ellipsoid: own implicit function; torus: parametric Christoffel form), validated by a step-halving pair.
#include "SimTKmath.h"
#include "ContactGeometryImpl.h"
#include "verif.h"
#include "geomkit.h"

#include <array>
#include <fcntl.h>
#include <memory>

using namespace SimTK;
using gk::s3; using gk::sd;
typedef long double LD;
typedef ContactGeometry::GeodesicKnotPoint Knot;

// ------------------------------------------------------------------------------------------------ long double 3-vectors
struct L3 { LD x[3]; LD& operator[](int i) { return x[i]; } LD operator[](int i) const { return x[i]; } };
static L3 mk(LD a, LD b, LD c) { L3 v; v.x[0] = a; v.x[1] = b; v.x[2] = c; return v; }
static L3 operator+(const L3& a, const L3& b) { return mk(a[0] + b[0], a[1] + b[1], a[2] + b[2]); }
static L3 operator-(const L3& a, const L3& b) { return mk(a[0] - b[0], a[1] - b[1], a[2] - b[2]); }
static L3 operator*(LD s, const L3& a) { return mk(s * a[0], s * a[1], s * a[2]); }
static LD dotl(const L3& a, const L3& b) { return a[0] * b[0] + a[1] * b[1] + a[2] * b[2]; }
static L3 crossl(const L3& a, const L3& b) { return mk(a[1] * b[2] - a[2] * b[1], a[2] * b[0] - a[0] * b[2], a[0] * b[1] - a[1] * b[0]); }
static LD norml(const L3& a) { return sqrtl(dotl(a, a)); }
static L3 unitl(const L3& a) { return (1 / norml(a)) * a; }
static L3 toL(const Vec3& v) { return mk(v[0], v[1], v[2]); }
static Vec3 toD(const L3& v) { return Vec3((double)v[0], (double)v[1], (double)v[2]); }

// ------------------------------------------------------------------------------------------------ reference geodesics
struct RefPt {
    L3 p, t, n;                 // point, unit tangent, outward unit normal
    LD jr = 0, jrd = 0, jt = 0, jtd = 0;   // Jacobi fields: jr(0)=0,jr'(0)=1 ; jt(0)=1,jt'(0)=0  (j'' + K j = 0)
    LD K = 0;                   // Gaussian curvature
    LD growth = 1;              // exp( integral of sqrt(max(0,-K)) ds ): bound on the amplification of perturbations
    LD kn = 0;                  // normal curvature in the tangent direction (positive on convex surfaces)
};
struct RefCurve {
    virtual ~RefCurve() {}
    virtual RefPt at(LD s) const = 0;
    LD halving = 0;            // |end point (h) - end point (h/2)| of the step-halving pair (0 for closed forms)
};

struct Surface;
static std::unique_ptr<RefCurve> makeCurve(const Surface& S, const L3& p0, const L3& t0, LD Lmax, bool store);

struct Surface {
    std::string name, kind;
    double r = 0, R = 0; Vec3 radii = Vec3(0);
    double rhoMin = 1, rhoChar = 1, rhoMaxHalf = 1;   // smallest radius of curvature, characteristic radius, max(1/|grad S|)
    bool analytic = false;
    std::unique_ptr<ContactGeometry> make() const {
        if (kind == "Sphere") return std::unique_ptr<ContactGeometry>(new ContactGeometry::Sphere(r));
        if (kind == "Cylinder") return std::unique_ptr<ContactGeometry>(new ContactGeometry::Cylinder(r));
        if (kind == "Ellipsoid") return std::unique_ptr<ContactGeometry>(new ContactGeometry::Ellipsoid(radii));
        return std::unique_ptr<ContactGeometry>(new ContactGeometry::Torus(R, r));
    }
    // parametrisation used for the start lattice
    Vec3 point(double u, double v) const {
        if (kind == "Sphere") return Vec3(r * cos(v) * cos(u), r * cos(v) * sin(u), r * sin(v));
        if (kind == "Ellipsoid") return Vec3(radii[0] * cos(v) * cos(u), radii[1] * cos(v) * sin(u), radii[2] * sin(v));
        if (kind == "Cylinder") return Vec3(r * cos(u), r * sin(u), v);
        return Vec3((R + r * cos(v)) * cos(u), (R + r * cos(v)) * sin(u), r * sin(v));
    }
    Vec3 eU(double u) const {
        Vec3 e = kind == "Ellipsoid" ? Vec3(-radii[0] * sin(u), radii[1] * cos(u), 0) : Vec3(-sin(u), cos(u), 0);
        return e / e.norm();
    }
    // ---- independent closed forms (long double)
    L3 nrm(const L3& p) const {
        if (kind == "Sphere") return unitl(p);
        if (kind == "Cylinder") return unitl(mk(p[0], p[1], 0));
        if (kind == "Ellipsoid") return unitl(mk(p[0] / ((LD)radii[0] * radii[0]), p[1] / ((LD)radii[1] * radii[1]), p[2] / ((LD)radii[2] * radii[2])));
        LD h = hypotl(p[0], p[1]);
        return unitl(mk((h - R) * p[0] / h, (h - R) * p[1] / h, p[2]));
    }
    LD dist(const L3& p) const {     // distance from p to the surface (ellipsoid: first order, exact in the limit)
        if (kind == "Sphere") return fabsl(norml(p) - r);
        if (kind == "Cylinder") return fabsl(hypotl(p[0], p[1]) - r);
        if (kind == "Torus") return fabsl(hypotl(hypotl(p[0], p[1]) - R, p[2]) - r);
        LD f = 1, g2 = 0;
        for (int i = 0; i < 3; ++i) { LD a = radii[i]; f -= p[i] * p[i] / (a * a); g2 += 4 * p[i] * p[i] / (a * a * a * a); }
        return fabsl(f) / sqrtl(g2);
    }
    L3 project(const L3& p) const {  // nearest point for tiny offsets
        if (kind == "Sphere") return ((LD)r / norml(p)) * p;
        if (kind == "Cylinder") { LD h = hypotl(p[0], p[1]); return mk(p[0] * r / h, p[1] * r / h, p[2]); }
        if (kind == "Torus") { LD h = hypotl(p[0], p[1]); L3 c = mk(p[0] * R / h, p[1] * R / h, 0); L3 d = p - c; return c + ((LD)r / norml(d)) * d; }
        L3 q = p;
        for (int it = 0; it < 20; ++it) {
            LD f = 1; L3 g;
            for (int i = 0; i < 3; ++i) { LD a = radii[i]; f -= q[i] * q[i] / (a * a); g[i] = -2 * q[i] / (a * a); }
            q = q - (f / dotl(g, g)) * g;
        }
        return q;
    }
    LD normalCurvature(const L3& p, const L3& d) const {   // of the surface at p in unit tangent direction d; positive = convex
        if (kind == "Sphere") return 1 / (LD)r;
        if (kind == "Cylinder") { L3 ephi = unitl(mk(-p[1], p[0], 0)); LD c = dotl(d, ephi); return c * c / r; }
        if (kind == "Ellipsoid") {
            LD q = 0, w2 = 0;
            for (int i = 0; i < 3; ++i) { LD a2 = (LD)radii[i] * radii[i]; q += d[i] * d[i] / a2; w2 += p[i] * p[i] / (a2 * a2); }
            return q / sqrtl(w2);
        }
        LD h = hypotl(p[0], p[1]); L3 eu = mk(-p[1] / h, p[0] / h, 0); L3 n = nrm(p); L3 ev = crossl(n, eu);
        LD cv = (h - R) / r;   // cos v
        LD cu = dotl(d, eu), cw = dotl(d, ev);
        return cw * cw / r + cu * cu * cv / (R + r * cv);
    }
    std::unique_ptr<RefCurve> curve(const L3& p0, const L3& t0, LD Lmax, bool store = true) const { return makeCurve(*this, p0, t0, Lmax, store); }
};

// closed forms ------------------------------------------------------------------------------------
struct SphereCurve : RefCurve {
    LD r; L3 e1, e2;
    SphereCurve(LD r, const L3& p0, const L3& t0) : r(r) { e1 = unitl(p0); e2 = unitl(t0 - dotl(t0, e1) * e1); }
    RefPt at(LD s) const override {
        RefPt q; LD a = s / r, c = cosl(a), sn = sinl(a);
        q.n = c * e1 + sn * e2; q.p = r * q.n; q.t = c * e2 - sn * e1;
        q.jr = r * sn; q.jrd = c; q.jt = c; q.jtd = -sn / r; q.K = 1 / (r * r); q.kn = 1 / r; return q;
    }
};
struct CylinderCurve : RefCurve {
    LD r, phi0, z0, ct, st;
    CylinderCurve(LD r, const L3& p0, const L3& t0) : r(r) {
        phi0 = atan2l(p0[1], p0[0]); z0 = p0[2];
        L3 ephi = mk(-sinl(phi0), cosl(phi0), 0);
        ct = dotl(t0, ephi); st = t0[2]; LD m = hypotl(ct, st); ct /= m; st /= m;
    }
    RefPt at(LD s) const override {
        RefPt q; LD phi = phi0 + s * ct / r, c = cosl(phi), sn = sinl(phi);
        q.n = mk(c, sn, 0); q.p = mk(r * c, r * sn, z0 + s * st); q.t = mk(-sn * ct, c * ct, st);
        q.jr = s; q.jrd = 1; q.jt = 1; q.jtd = 0; q.K = 0; q.kn = ct * ct / r; return q;
    }
};
// fixed-step RK4 with stored nodes ---------------------------------------------------------------
template <int N> struct RK4Curve : RefCurve {
    typedef std::array<LD, N> Y;
    LD h = 0; std::vector<Y> nodes; Y yEnd; LD sEnd = 0;
    virtual void deriv(const Y& y, Y& d) const = 0;
    virtual RefPt toPt(const Y& y) const = 0;
    Y step(const Y& y, LD hh) const {
        Y k1, k2, k3, k4, t;
        deriv(y, k1);
        for (int i = 0; i < N; ++i) t[i] = y[i] + hh / 2 * k1[i]; deriv(t, k2);
        for (int i = 0; i < N; ++i) t[i] = y[i] + hh / 2 * k2[i]; deriv(t, k3);
        for (int i = 0; i < N; ++i) t[i] = y[i] + hh * k3[i]; deriv(t, k4);
        for (int i = 0; i < N; ++i) t[i] = y[i] + hh / 6 * (k1[i] + 2 * k2[i] + 2 * k3[i] + k4[i]);
        return t;
    }
    void integrate(const Y& y0, LD L, LD hTarget, bool store) {
        int n = (int)ceill(L / hTarget); if (n < 4) n = 4;
        h = L / n; sEnd = L; Y y = y0;
        if (store) { nodes.clear(); nodes.reserve(n + 1); nodes.push_back(y); }
        for (int i = 0; i < n; ++i) { y = step(y, h); if (store) nodes.push_back(y); }
        yEnd = y;
    }
    RefPt at(LD s) const override {
        if (nodes.empty()) return toPt(yEnd);
        long i = (long)floorl(s / h); if (i < 0) i = 0; if (i > (long)nodes.size() - 1) i = (long)nodes.size() - 1;
        LD rem = s - i * h;
        if (fabsl(rem) < 1e-18L) return toPt(nodes[i]);
        return toPt(step(nodes[i], rem));
    }
};
// ellipsoid: p'' = -kn(v) n  written with w = (x/a^2, y/b^2, z/c^2):  p'' = -(sum v_i^2/a_i^2) w / |w|^2 ;  K = 1/(a^2 b^2 c^2 |w|^4)
struct EllipsoidCurve : RK4Curve<10> {
    LD a2[3];
    void deriv(const Y& y, Y& d) const override {
        LD q = 0, w2 = 0; LD w[3];
        for (int i = 0; i < 3; ++i) { w[i] = y[i] / a2[i]; w2 += w[i] * w[i]; q += y[3 + i] * y[3 + i] / a2[i]; }
        LD K = 1 / (a2[0] * a2[1] * a2[2] * w2 * w2);
        for (int i = 0; i < 3; ++i) { d[i] = y[3 + i]; d[3 + i] = -q * w[i] / w2; }
        d[6] = y[7]; d[7] = -K * y[6]; d[8] = y[9]; d[9] = -K * y[8];
    }
    RefPt toPt(const Y& y) const override {
        RefPt q; q.p = mk(y[0], y[1], y[2]); q.t = unitl(mk(y[3], y[4], y[5]));
        L3 w = mk(y[0] / a2[0], y[1] / a2[1], y[2] / a2[2]); LD w2 = dotl(w, w); q.n = unitl(w);
        q.jr = y[6]; q.jrd = y[7]; q.jt = y[8]; q.jtd = y[9]; q.K = 1 / (a2[0] * a2[1] * a2[2] * w2 * w2);
        LD qq = 0; for (int i = 0; i < 3; ++i) qq += q.t[i] * q.t[i] / a2[i]; q.kn = qq / sqrtl(w2);
        return q;
    }
};
// torus in (u,v): u'' = 2 r sin v/(R + r cos v) u' v' ; v'' = -(R + r cos v) sin v / r u'^2 ; K = cos v / (r (R + r cos v))
struct TorusCurve : RK4Curve<9> {
    LD R, r;
    void deriv(const Y& y, Y& d) const override {
        LD sv = sinl(y[1]), cv = cosl(y[1]), w = R + r * cv, K = cv / (r * w);
        d[0] = y[2]; d[1] = y[3];
        d[2] = 2 * r * sv / w * y[2] * y[3];
        d[3] = -w * sv / r * y[2] * y[2];
        d[4] = y[5]; d[5] = -K * y[4]; d[6] = y[7]; d[7] = -K * y[6];
        d[8] = K < 0 ? sqrtl(-K) : 0;
    }
    RefPt toPt(const Y& y) const override {
        RefPt q; LD su = sinl(y[0]), cu = cosl(y[0]), sv = sinl(y[1]), cv = cosl(y[1]), w = R + r * cv;
        q.p = mk(w * cu, w * su, r * sv); q.n = mk(cv * cu, cv * su, sv);
        L3 pu = mk(-w * su, w * cu, 0), pv = mk(-r * sv * cu, -r * sv * su, r * cv);
        q.t = unitl(y[2] * pu + y[3] * pv);
        q.jr = y[4]; q.jrd = y[5]; q.jt = y[6]; q.jtd = y[7]; q.K = cv / (r * w); q.growth = expl(y[8]);
        LD cu2 = y[2] * w, cw2 = y[3] * r, m2 = cu2 * cu2 + cw2 * cw2;    // components of the tangent along e_u, e_v
        q.kn = (cw2 * cw2 / r + cu2 * cu2 * cv / w) / m2;
        return q;
    }
};

static std::unique_ptr<RefCurve> makeCurve(const Surface& S, const L3& p0in, const L3& t0in, LD Lmax, bool store) {
    const L3 p0 = S.project(p0in); const L3 n0 = S.nrm(p0); const L3 t0 = unitl(t0in - dotl(t0in, n0) * n0);
    if (S.kind == "Sphere") return std::unique_ptr<RefCurve>(new SphereCurve(S.r, p0, t0));
    if (S.kind == "Cylinder") return std::unique_ptr<RefCurve>(new CylinderCurve(S.r, p0, t0));
    if (Lmax < 1e-6L * S.rhoMin) Lmax = 1e-6L * S.rhoMin;
    const LD hFine = 0.002L * S.rhoMin;
    if (S.kind == "Ellipsoid") {
        auto build = [&](LD h, bool st) {
            std::unique_ptr<EllipsoidCurve> c(new EllipsoidCurve());
            for (int i = 0; i < 3; ++i) c->a2[i] = (LD)S.radii[i] * S.radii[i];
            EllipsoidCurve::Y y0 = {p0[0], p0[1], p0[2], t0[0], t0[1], t0[2], 0, 1, 1, 0};
            c->integrate(y0, Lmax, h, st); return c; };
        auto fine = build(hFine, store);
        if (store) { auto coarse = build(2 * hFine, false); fine->halving = norml(fine->toPt(fine->yEnd).p - coarse->toPt(coarse->yEnd).p); }
        return std::unique_ptr<RefCurve>(fine.release());
    }
    auto build = [&](LD h, bool st) {
        std::unique_ptr<TorusCurve> c(new TorusCurve()); c->R = S.R; c->r = S.r;
        LD hxy = hypotl(p0[0], p0[1]), u = atan2l(p0[1], p0[0]), v = atan2l(p0[2], hxy - S.R);
        LD w = S.R + S.r * cosl(v);
        L3 eu = mk(-sinl(u), cosl(u), 0), ev = mk(-sinl(v) * cosl(u), -sinl(v) * sinl(u), cosl(v));
        TorusCurve::Y y0 = {u, v, dotl(t0, eu) / w, dotl(t0, ev) / S.r, 0, 1, 1, 0, 0};
        c->integrate(y0, Lmax, h, st); return c; };
    auto fine = build(hFine, store);
    if (store) { auto coarse = build(2 * hFine, false); fine->halving = norml(fine->toPt(fine->yEnd).p - coarse->toPt(coarse->yEnd).p); }
    return std::unique_ptr<RefCurve>(fine.release());
}

// ------------------------------------------------------------------------------------------------ catalogue
static double sizeFactor(long vs) { static const double f[3] = {1.0, 0.37, 2.3}; return f[((vs % 3) + 3) % 3]; }
static const char* kSurfNames[] = {"Sphere", "Cylinder", "Ellipsoid-abc", "Ellipsoid-aac", "Torus-4to1", "Torus-1.5to1"};
static const int kNumSurf = 6;

static Surface buildSurface(int idx, long vs) {
    Surface S; S.name = kSurfNames[idx]; const double s = sizeFactor(vs);
    if (idx == 0) { S.kind = "Sphere"; S.r = 1.5 * s; S.rhoMin = S.rhoChar = S.r; S.rhoMaxHalf = S.r / 2; S.analytic = true; }
    else if (idx == 1) { S.kind = "Cylinder"; S.r = 1.2 * s; S.rhoMin = S.rhoChar = S.r; S.rhoMaxHalf = S.r / 2; S.analytic = true; }
    else if (idx == 2 || idx == 3) {
        S.kind = "Ellipsoid"; S.radii = (idx == 2 ? Vec3(0.9, 1.4, 2.0) : Vec3(1.1, 1.1, 2.2)) * s;
        double mn = min(S.radii), mx = max(S.radii);
        S.rhoMin = mn * mn / mx; S.rhoChar = (S.radii[0] + S.radii[1] + S.radii[2]) / 3; S.rhoMaxHalf = mx / 2;
    } else { S.kind = "Torus"; S.R = (idx == 4 ? 2.0 : 1.5) * s; S.r = (idx == 4 ? 0.5 : 1.0) * s; S.rhoMin = std::min(S.r, S.R - S.r); S.rhoChar = S.R; S.rhoMaxHalf = S.r / 2; }
    return S;
}
// start lattice 6x6 in the surface parameters; value set selects the offsets
static void startParams(const Surface& S, long vs, int i, int j, double& u, double& v) {
    static const double du[3] = {0, 0.11, 0.23}, dv[3] = {0, 0.07, -0.13};
    const int k = (int)(((vs / 3) % 3 + 3) % 3);
    u = i * Pi / 3 + du[k];
    if (S.kind == "Sphere" || S.kind == "Ellipsoid") { static const double lat[6] = {-1.2, -0.6, 0, 0.5, 1.0, Pi / 2}; v = lat[j] + dv[k]; }
    else if (S.kind == "Cylinder") v = (j - 2.5) * 0.6 * S.r + dv[k] * S.r;
    else v = j * Pi / 3 + dv[k];
}
static void dirCS(int k, double& c, double& s) {   // 12 directions, multiples of 30 degrees; the axis directions are exact
    static const double C[12] = {1, 0.8660254037844387, 0.5, 0, -0.5, -0.8660254037844387, -1, -0.8660254037844387, -0.5, 0, 0.5, 0.8660254037844387};
    c = C[k % 12]; s = C[(k + 9) % 12];
}
static std::vector<double> lengthTable(const Surface& S, bool thorough) {
    std::vector<double> L = {0.07 * S.rhoChar, 0.5 * Pi * S.rhoChar, 1.15 * Pi * S.rhoChar};
    if (thorough) { L.push_back(0.0004 * S.rhoChar); L.push_back(0.8 * S.rhoChar); L.push_back(2.2 * Pi * S.rhoChar); }
    return L;
}
static const char* kLenNames[] = {"short", "quarter", "over-half", "tiny", "medium", "over-full"};

// ------------------------------------------------------------------------------------------------ helpers
static bool finiteKnot(const Knot& k) {
    return std::isfinite(k.arcLength) && gk::finite3(k.point) && gk::finite3(Vec3(k.tangent)) && std::isfinite(k.jacobiRot) && std::isfinite(k.jacobiTrans)
        && std::isfinite(k.jacobiRotDot) && std::isfinite(k.jacobiTransDot);
}
static std::string accName(double a) { char b[32]; snprintf(b, sizeof b, "%.0e", a); return b; }

// ------------------------------------------------------------------------------------------------ oracles shared by all sections
struct Tol { bool analytic; double acc, consTol; };
struct Checker {
    verif::Run& run; const Surface& S; std::string desc; double rho; const ContactGeometry* geo;
    Checker(verif::Run& r, const Surface& s, const std::string& d, const ContactGeometry* g = nullptr) : run(r), S(s), desc(d), rho(s.rhoChar), geo(g) {}
    // The documented constraint tolerance applies to the library's own surface function, whose scaling is not documented and differs between
    // shapes: a value tolerance tol corresponds to the distance tol / |gradient of that function|.
    double lenPerValue(const Vec3& p) const { if (!geo) return S.rhoMaxHalf; const double g = geo->calcSurfaceGradient(p).norm(); return g > 0 ? 1 / g : S.rhoMaxHalf; }
    std::function<std::string()> whereFn() const { std::string d = desc; return [d] { return d; }; }
    // bound on the amplification of a perturbation made before arc length s (Rauch comparison: linear growth for K >= 0, exp(int sqrt(-K)) for K < 0)
    double amp(const RefPt& q, double s) const { return (1 + s / S.rhoMin) * (double)q.growth; }
    // knot-list oracle; tol.analytic: machine-precision shooter, else adaptive integrator with (acc, consTol)
    bool checkKnots(const std::vector<Knot>& K, const std::string& tag, const Tol& tol, double Lreq, const Vec3& pIn, const Vec3& tIn, bool exactStart, double startOffset) {
        auto where = whereFn();
        const std::string sfx = S.kind;
        if (!run.expect(!K.empty(), tag + "-no-knots/" + sfx, [&] { return tag + " produced no knot at " + desc; })) return false;
        bool fin = true; for (auto& k : K) fin = fin && finiteKnot(k);
        if (!run.expect(fin, tag + "-knot-nan/" + sfx, [&] { return tag + " produced a non-finite knot at " + desc; })) return false;
        // arc-length bookkeeping
        run.expect(K.front().arcLength == 0, tag + "-first-arclength-zero/" + sfx, [&] { return "first knot arc length " + sd(K.front().arcLength) + " at " + desc; });
        run.expect(K.back().arcLength == Lreq, tag + "-last-arclength-is-requested-length/" + sfx, [&] { return "last knot arc length " + sd(K.back().arcLength) + " != requested " + sd(Lreq) + " at " + desc; });
        bool mono = true; for (size_t k = 1; k < K.size(); ++k) mono = mono && K[k].arcLength > K[k - 1].arcLength;
        run.expect(mono || Lreq == 0, tag + "-arclength-increasing/" + sfx, [&] { return "knot arc lengths not strictly increasing at " + desc; });
        // first knot vs the inputs
        const double posEps = tol.analytic ? 1e-14 * rho : tol.consTol * S.rhoMaxHalf * 2 + 1e-14 * rho;
        if (exactStart) {
            run.residual(tag + "-first-knot-is-start-point/" + sfx, (K[0].point - pIn).norm() / (posEps), 1.0, where);
            run.residual(tag + "-first-knot-tangent-is-start-tangent/" + sfx, (Vec3(K[0].tangent) - tIn).norm(), 1e-13 + 4 * posEps / S.rhoMin, where);
        } else {
            run.residual(tag + "-projected-start-near-approximate-start/" + sfx, (K[0].point - pIn).norm() / startOffset, 1.5, where);
        }
        // reference geodesic from the library's own first knot
        std::unique_ptr<RefCurve> rc = S.curve(toL(K[0].point), toL(Vec3(K[0].tangent)), (LD)Lreq);
        if (!((double)rc->halving <= 1e-9 * rho)) { run.count("skipped:reference-step-halving-disagrees"); return true; }
        double wPos = 0, wTan = 0, wJr = 0, wJt = 0, wJrd = 0, wJtd = 0, wSurf = 0, wPerp = 0, wUnit = 0, wArc = 0; size_t kPos = 0;
        for (size_t k = 0; k < K.size(); ++k) {
            const double s = K[k].arcLength;
            const RefPt q = rc->at(s);
            const L3 p = toL(K[k].point), t = toL(Vec3(K[k].tangent));
            const L3 n = S.nrm(p);
            // (a) on the surface, (b) unit tangent perpendicular to the normal -- independent closed forms
            wSurf = std::max(wSurf, (double)S.dist(p) / (tol.analytic ? 1e-15 * rho * (10 + (double)K.size()) : tol.consTol * lenPerValue(K[k].point) * 1.001 + 1e-15 * rho));
            wPerp = std::max(wPerp, (double)fabsl(dotl(n, t)) / (tol.analytic ? 1e-15 * (10 + (double)K.size()) : tol.consTol * std::max(1.0, S.rhoMaxHalf) + 1e-14));
            wUnit = std::max(wUnit, std::abs((double)norml(t) - 1));
            // (c) agreement with the reference geodesic at the knot's own arc length
            const double A = amp(q, s);
            const double tolPos = tol.analytic ? 1e-15 * rho * (10 + (double)K.size()) * (1 + s / S.rhoMin)
                                               : A * ((double)k * tol.acc + (k + 1) * tol.consTol * S.rhoMaxHalf) + 1e-13 * rho;
            const double ePos = (double)norml(p - q.p) / tolPos; if (ePos > wPos) { wPos = ePos; kPos = k; }
            wTan = std::max(wTan, (double)norml(t - q.t) / (tolPos / S.rhoMin + (tol.analytic ? 0 : A * (double)k * tol.acc)));
            const double sc = (1 + s / S.rhoMin) * (1 + s / S.rhoMin);
            const double tolJ = tolPos * sc + (tol.analytic ? 0 : A * (double)k * tol.acc * std::max(1.0, rho));
            wJr = std::max(wJr, std::abs(K[k].jacobiRot - (double)q.jr) / tolJ);
            wJt = std::max(wJt, std::abs(K[k].jacobiTrans - (double)q.jt) * S.rhoMin / tolJ);
            wJrd = std::max(wJrd, std::abs(K[k].jacobiRotDot - (double)q.jrd) * S.rhoMin / tolJ);
            wJtd = std::max(wJtd, std::abs(K[k].jacobiTransDot - (double)q.jtd) * S.rhoMin * S.rhoMin / tolJ);
            if (tol.analytic) wArc = std::max(wArc, std::abs(s - Lreq * (double)k / (double)(K.size() - 1)) / (1e-15 * std::max(Lreq, 1e-300)));
            if (run.verbose) fprintf(stderr, "    %s knot %zu s=%.15g p=%s dist=%.3Lg n.t=%.3Lg |dp|=%.3Lg |dt|=%.3Lg jr=%.12g/%.12Lg jt=%.12g/%.12Lg A=%.3g\n", tag.c_str(), k, s,
                                     s3(K[k].point).c_str(), S.dist(p), dotl(n, t), norml(p - q.p), norml(t - q.t), K[k].jacobiRot, q.jr, K[k].jacobiTrans, q.jt, A);
        }
        const std::string at = tol.analytic ? "" : "/acc=" + accName(tol.acc);
        auto wk = [&] { return desc + " (" + tag + ", " + std::to_string(K.size()) + " knots, worst at knot " + std::to_string(kPos) + ")"; };
        run.residual(tag + "-knot-on-surface/" + sfx, wSurf, 1.0, wk);
        run.residual(tag + "-tangent-perpendicular-to-normal/" + sfx, wPerp, 1.0, wk);
        run.residual(tag + "-tangent-unit/" + sfx, wUnit, 1e-13, wk);
        const double C = tol.analytic ? 100 : 30;
        run.residual(tag + "-knot-position-vs-reference/" + sfx + at, wPos, C, wk);
        run.residual(tag + "-knot-tangent-vs-reference/" + sfx + at, wTan, C, wk);
        run.residual(tag + "-jacobi-rot-vs-reference/" + sfx + at, wJr, C, wk);
        run.residual(tag + "-jacobi-trans-vs-reference/" + sfx + at, wJt, C, wk);
        run.residual(tag + "-jacobi-rot-dot-vs-reference/" + sfx + at, wJrd, C, wk);
        run.residual(tag + "-jacobi-trans-dot-vs-reference/" + sfx + at, wJtd, C, wk);
        if (tol.analytic) run.residual(tag + "-knots-at-equal-intervals/" + sfx, wArc, 4.0, wk);
        return true;
    }
    // Geodesic-object oracle.  analyticObj: closed-form object; else produced by an adaptive integrator with the library's fixed settings (1e-6 / 1e-10)
    bool checkGeodesic(const Geodesic& geod, const std::string& tag, bool analyticObj, double Lexp, bool lengthExact, const RefCurve* refForP, bool hasReverse) {
        auto where = whereFn();
        const std::string sfx = S.kind; const int n = geod.getNumPoints();
        if (!run.expect(n >= 2, tag + "-has-points/" + sfx, [&] { return tag + " returned a Geodesic with " + std::to_string(n) + " points at " + desc; })) return false;
        const bool sizes = (int)geod.getArcLengths().size() == n && (int)geod.getCurvatures().size() == n && (int)geod.getDirectionalSensitivityPtoQ().size() == n
                        && (int)geod.getPositionalSensitivityPtoQ().size() == n && (!hasReverse || ((int)geod.getDirectionalSensitivityQtoP().size() == n && (int)geod.getPositionalSensitivityQtoP().size() == n));
        if (!run.expect(sizes, tag + "-arrays-same-length/" + sfx, [&] { return "Geodesic arrays differ in length (" + std::to_string(n) + " frames, " + std::to_string(geod.getArcLengths().size()) + " arc lengths, " +
                        std::to_string(geod.getCurvatures().size()) + " curvatures, " + std::to_string(geod.getDirectionalSensitivityPtoQ().size()) + "/" + std::to_string(geod.getDirectionalSensitivityQtoP().size()) + " directional, " +
                        std::to_string(geod.getPositionalSensitivityPtoQ().size()) + "/" + std::to_string(geod.getPositionalSensitivityQtoP().size()) + " positional) at " + desc; })) return false;
        bool fin = true;
        for (int k = 0; k < n; ++k) fin = fin && gk::finite3(geod.getFrenetFrames()[k].p()) && gk::finite3(Vec3(geod.getFrenetFrames()[k].y())) && std::isfinite(geod.getArcLengths()[k]) && std::isfinite(geod.getCurvatures()[k])
                                      && std::isfinite(geod.getDirectionalSensitivityPtoQ()[k][0]);
        if (!run.expect(fin, tag + "-nan/" + sfx, [&] { return tag + " returned non-finite frames / arc lengths / curvatures at " + desc; })) return false;
        // knot list view
        std::vector<Knot> K(n);
        for (int k = 0; k < n; ++k) {
            K[k].arcLength = geod.getArcLengths()[k]; K[k].point = geod.getFrenetFrames()[k].p(); K[k].tangent = geod.getFrenetFrames()[k].y();
            K[k].jacobiRot = geod.getDirectionalSensitivityPtoQ()[k][0]; K[k].jacobiRotDot = geod.getDirectionalSensitivityPtoQ()[k][1];
            K[k].jacobiTrans = geod.getPositionalSensitivityPtoQ()[k][0]; K[k].jacobiTransDot = geod.getPositionalSensitivityPtoQ()[k][1];
        }
        const bool hasTrans = std::isfinite(K[0].jacobiTrans);   // analytic Geodesic objects document "TODO: positional sensitivity" and store NaN
        if (!hasTrans) { run.count("unspecified:positional-sensitivity-not-provided/" + tag); }
        const double acc = 1e-6, ctol = 1e-10;
        // arc lengths
        run.expect(K.front().arcLength == 0, tag + "-first-arclength-zero/" + sfx, [&] { return "first arc length " + sd(K.front().arcLength) + " at " + desc; });
        if (lengthExact) run.expect(geod.getLength() == Lexp, tag + "-length-is-requested-length/" + sfx, [&] { return "getLength() " + sd(geod.getLength()) + " != requested " + sd(Lexp) + " at " + desc; });
        bool mono = true; for (int k = 1; k < n; ++k) mono = mono && K[k].arcLength > K[k - 1].arcLength;
        run.expect(mono, tag + "-arclength-increasing/" + sfx, [&] { return "arc lengths not strictly increasing at " + desc; });
        // reference from the object's own start
        std::unique_ptr<RefCurve> own;
        if (!refForP) { own = S.curve(toL(K[0].point), toL(Vec3(K[0].tangent)), (LD)geod.getLength()); if (!((double)own->halving <= 1e-9 * rho)) { run.count("skipped:reference-step-halving-disagrees"); return true; } refForP = own.get(); }
        double wSurf = 0, wFrame = 0, wNormal = 0, wPos = 0, wTan = 0, wJr = 0, wJrd = 0, wJt = 0, wJtd = 0, wCurv = 0, wRevJ = 0, wRevJd = 0; bool convexAll = true;
        const double Ltot = geod.getLength(); const RefPt qEnd = refForP->at(Ltot);
        for (int k = 0; k < n; ++k) {
            const Transform& F = geod.getFrenetFrames()[k]; const double s = K[k].arcLength;
            const L3 p = toL(F.p()), t = toL(Vec3(F.y())), n3 = S.nrm(p); const RefPt q = refForP->at(s);
            const double A = amp(q, s);
            const double tolPos = analyticObj ? 1e-14 * rho * (1 + s / S.rhoMin) : A * ((double)k * acc + (k + 1) * ctol * S.rhoMaxHalf) + 1e-13 * rho;
            wSurf = std::max(wSurf, (double)S.dist(p) / (analyticObj ? 1e-14 * rho : ctol * lenPerValue(F.p()) * 1.001 + 1e-15 * rho));
            wNormal = std::max(wNormal, (double)norml(toL(Vec3(F.z())) - n3));                       // z = outward unit normal
            wFrame = std::max(wFrame, (Vec3(F.x()) - Vec3(F.y()) % Vec3(F.z())).norm() + std::abs(dot(Vec3(F.y()), Vec3(F.z()))) + std::abs(Vec3(F.y()).norm() - 1) + std::abs(Vec3(F.z()).norm() - 1));
            wPos = std::max(wPos, (double)norml(p - q.p) / tolPos);
            wTan = std::max(wTan, (double)norml(t - q.t) / (tolPos / S.rhoMin + (analyticObj ? 1e-14 : A * (double)k * acc)));
            const double sc = (1 + s / S.rhoMin) * (1 + s / S.rhoMin);
            const double tolJ = tolPos * sc + (analyticObj ? 0 : A * (double)k * acc * std::max(1.0, rho));
            wJr = std::max(wJr, std::abs(K[k].jacobiRot - (double)q.jr) / tolJ);
            wJrd = std::max(wJrd, std::abs(K[k].jacobiRotDot - (double)q.jrd) * S.rhoMin / tolJ);
            if (hasTrans) { wJt = std::max(wJt, std::abs(K[k].jacobiTrans - (double)q.jt) * S.rhoMin / tolJ); wJtd = std::max(wJtd, std::abs(K[k].jacobiTransDot - (double)q.jtd) * S.rhoMin * S.rhoMin / tolJ); }
            // normal curvature in the tangent direction, from the independent closed form at the library's own point and tangent
            wCurv = std::max(wCurv, std::abs(geod.getCurvatures()[k] - (double)S.normalCurvature(p, t)) * S.rhoMin);
            convexAll = convexAll && geod.getCurvatures()[k] >= 0;
            if (hasReverse) {
                // Jacobi reciprocity: the field integrated backwards from Q, evaluated at s, equals the forward field of the sub-geodesic from s to Q; at s=0 it is (jr(L), jt(L))
                if (k == 0) {
                    const double scL = (1 + Ltot / S.rhoMin) * (1 + Ltot / S.rhoMin);
                    const double tolE = (analyticObj ? 1e-13 * rho * scL : amp(qEnd, Ltot) * (2.0 * n * acc) * scL * std::max(1.0, rho));
                    wRevJ = std::abs(geod.getJacobiP() - (double)qEnd.jr) / tolE;
                    wRevJd = std::abs(geod.getJacobiPDot() + (double)qEnd.jt) * S.rhoMin / tolE;
                }
            }
            if (run.verbose) fprintf(stderr, "    %s pt %d s=%.15g p=%s dist=%.3Lg |dp|=%.3Lg |dt|=%.3Lg jr=%.12g/%.12Lg kappa=%.12g/%.12Lg\n", tag.c_str(), k, s, s3(F.p()).c_str(), S.dist(p), norml(p - q.p), norml(t - q.t),
                                     K[k].jacobiRot, q.jr, geod.getCurvatures()[k], S.normalCurvature(p, t));
        }
        const double C = analyticObj ? 100 : 30;
        run.residual(tag + "-point-on-surface/" + sfx, wSurf, 1.0, where);
        run.residual(tag + "-frame-z-is-outward-normal/" + sfx, wNormal, 1e-9, where);
        run.residual(tag + "-frame-orthonormal-x=yXz/" + sfx, wFrame, 1e-12, where);
        run.residual(tag + "-position-vs-reference/" + sfx, wPos, C, where);
        run.residual(tag + "-tangent-vs-reference/" + sfx, wTan, C, where);
        run.residual(tag + "-jacobi-rot-vs-reference/" + sfx, wJr, C, where);
        run.residual(tag + "-jacobi-rot-dot-vs-reference/" + sfx, wJrd, C, where);
        if (hasTrans) { run.residual(tag + "-jacobi-trans-vs-reference/" + sfx, wJt, C, where); run.residual(tag + "-jacobi-trans-dot-vs-reference/" + sfx, wJtd, C, where); }
        run.residual(tag + "-curvature-is-normal-curvature-along-tangent/" + sfx, wCurv, 1e-9, where);
        run.expect(geod.isConvex() == convexAll, tag + "-convex-flag/" + sfx, [&] { return "isConvex()=" + std::to_string(geod.isConvex()) + " but curvature signs say " + std::to_string(convexAll) + " at " + desc; });
        if (hasReverse) {
            // calibration: sphere / cylinder (constant Gaussian curvature) worst 5e-4; the forward fields of the same objects worst 0.02 on every surface
            const double CR = analyticObj ? 100 : 3;
            const bool okJ = run.residual(tag + "-reverse-jacobi-reciprocity/" + sfx, wRevJ, CR, where);
            const bool okJd = run.residual(tag + "-reverse-jacobi-dot-reciprocity/" + sfx, wRevJd, CR, where);
            if (!analyticObj && (!okJ || !okJd || run.verbose)) {
                // diagnosis (counted, not judged): does the library's value match a backward integration that leaves every knot along -x (the
                // BINORMAL of the documented frame convention) instead of -y (the tangent)?
                LD j = 0, jd = 1;
                for (int k = n - 1; k >= 1; --k) {
                    const Transform& F = geod.getFrenetFrames()[k]; const LD ds = geod.getArcLengths()[k] - geod.getArcLengths()[k - 1];
                    RefPt e = S.curve(toL(F.p()), (-1.0L) * toL(Vec3(F.x())), ds, false)->at(ds);
                    const LD j1 = j * e.jt + jd * e.jr, jd1 = j * e.jtd + jd * e.jrd; j = j1; jd = jd1;
                }
                const double dModel = std::abs(geod.getJacobiP() - (double)j), dTrue = std::abs(geod.getJacobiP() - (double)qEnd.jr);
                run.count(dModel < 0.01 * dTrue ? "diagnosis:reverse-jacobi-matches-integration-along-binormal" : "diagnosis:reverse-jacobi-matches-neither");
                if (run.verbose) fprintf(stderr, "    %s reverse Jacobi: library jP=%.12g jPdot=%.12g ; reciprocity demands jP=%.12Lg jPdot=%.12Lg ; integration along the binormal gives jP=%.12Lg jPdot=%.12Lg\n",
                                         tag.c_str(), geod.getJacobiP(), geod.getJacobiPDot(), qEnd.jr, -qEnd.jt, j, -jd);
            }
        }
        // end-point scalars: binormal curvature (surface property at P, Q), torsion
        for (int e = 0; e < 2; ++e) {
            const Transform& F = e == 0 ? geod.getFrenetFrames().front() : geod.getFrenetFrames().back();
            const double kb = e == 0 ? geod.getBinormalCurvatureP() : geod.getBinormalCurvatureQ();
            run.residual(tag + "-binormal-curvature/" + sfx, std::abs(kb - (double)S.normalCurvature(toL(F.p()), toL(Vec3(F.x())))) * S.rhoMin, 1e-9, where);
            // geodesic torsion tau = -dot(db/ds, n) from the reference curve (4th-order finite difference of b = t x n)
            const double s = e == 0 ? 0 : Ltot; const LD hh = 1e-3L * S.rhoMin;
            auto bAt = [&](LD x) { RefPt q = refForP->at(x); return crossl(q.t, q.n); };
            L3 db;
            if (e == 0) db = (1 / (12 * hh)) * (-25 * bAt(0) + 48 * bAt(hh) - 36 * bAt(2 * hh) + 16 * bAt(3 * hh) - 3 * bAt(4 * hh));
            else db = (1 / (12 * hh)) * (25 * bAt(s) - 48 * bAt(s - hh) + 36 * bAt(s - 2 * hh) - 16 * bAt(s - 3 * hh) + 3 * bAt(s - 4 * hh));
            if (Ltot < 5 * (double)hh) { run.count("unspecified:torsion-of-tiny-geodesic"); continue; }
            const double tauRef = -(double)dotl(db, refForP->at(s).n);
            const double tau = e == 0 ? geod.getTorsionP() : geod.getTorsionQ();
            if (analyticObj) run.residual(tag + "-torsion/" + sfx, std::abs(tau - tauRef) * S.rhoMin, 1e-6, where);
            else {   // documented as a crude one-sided difference over the first / last integrator step: error O(step * curvature^2)
                const double step = e == 0 ? K[1].arcLength : K[n - 1].arcLength - K[n - 2].arcLength;
                run.residual(tag + "-torsion-estimate/" + sfx, std::abs(tau - tauRef) * S.rhoMin / (step / S.rhoMin + 1e-6), 30, where);
            }
        }
        return true;
    }
};

int main(int argc, char** argv) {
    verif::Run run("C47", argc, argv);
    run.setDeadline(600, 3000);
    const bool thorough = run.thorough();
    std::vector<long> vsets; if (thorough) for (long v = 0; v < 9; ++v) vsets.push_back(v); else vsets.push_back(((run.seed % 9) + 9) % 9);
    run.rule = "E3: surfaces {Sphere, Cylinder, Ellipsoid (distinct radii), Ellipsoid (two equal radii), Torus 4:1, Torus 1.5:1} x 6x6 start lattice in the surface "
               "parameters (incl. pole, equators, inner torus equator) x 12 tangent directions (multiples of 30 deg, axis directions exact) x lengths "
               "{0.07, pi/2, 1.15 pi} x characteristic radius (thorough: + {0.0004, 0.8, 2.2 pi}); a case = (surface, start, direction, length); every case runs the "
               "implicit shooter at 2 accuracies (exact and off-surface start), the analytic shooter with 2 and 7 (thorough 3, 12) knots, the Geodesic-object "
               "shooters, calcGeodesicAnalytical and calcGeodesicUsingOrthogonalMethod; non-trivial = reference validated by its step-halving pair";
    run.assumptions = {"continuous parameters (size factor, lattice offsets) come from 3x3 fixed value sets selected by VERIF_SEED; thorough enumerates all 9",
                       "no global accuracy is documented for the adaptive geodesic integrator: position/tangent/Jacobi bounds are (number of steps) x (local accuracy setting) x "
                       "(curvature-comparison amplification bound) x calibrated constant; constraint clauses use the documented constraint tolerance",
                       "solvers without a convergence flag (orthogonal method) are judged only where the returned end point reaches Q to 1e-8; other outcomes are counted",
                       "torsion estimates documented as 'numerical estimate for now' are compared with a bound proportional to the integrator step"};

    std::string sectionWall; double tPrev = run.elapsed();
    auto mark = [&](const char* nm) { double t = run.elapsed(); sectionWall += std::string(sectionWall.empty() ? "{" : ", ") + "\"" + nm + "\": " + verif::jsonNum(t - tPrev); tPrev = t; };

    verif::Odometer od; od.dim("len", thorough ? 6 : 3); od.dim("dir", 12); od.dim("j", 6); od.dim("i", 6); od.dim("surf", kNumSurf); od.dim("vs", (int64_t)vsets.size());

    auto silence = [&] {   // the library writes progress chatter to stdout; workers do not need stdout at all
        static bool done = false;
        if (!done && !run.replaying()) { int fd = open("/dev/null", O_WRONLY); if (fd >= 0) { fflush(stdout); dup2(fd, 1); close(fd); } }
        done = true;
    };

    // =================================================================================== section 1: shooters
    run.parallel("shoot", od.size(), [&](int64_t idx) {
        silence();
        auto dg = od.digits(idx);
        const int li = dg[0], di = dg[1], pj = dg[2], pi = dg[3], si = dg[4]; const long vs = vsets[dg[5]];
        const Surface S = buildSurface(si, vs);
        std::unique_ptr<ContactGeometry> gp = S.make(); const ContactGeometry& g = *gp;
        double u, v; startParams(S, vs, pi, pj, u, v);
        const Vec3 P = S.point(u, v);
        const L3 nP = S.nrm(toL(P));
        Vec3 e1 = S.eU(u); { Vec3 n = toD(nP); e1 = e1 - n * dot(e1, n); e1 /= e1.norm(); }
        const Vec3 e2 = toD(nP) % e1;
        double dc, ds; dirCS(di, dc, ds);
        Vec3 T = dc * e1 + ds * e2; T /= T.norm();
        const double L = lengthTable(S, thorough)[li];
        const std::string lenName = kLenNames[li];
        const std::string desc = S.name + " vs=" + std::to_string(vs) + " start(i=" + std::to_string(pi) + ",j=" + std::to_string(pj) + ")=" + s3(P) + " dir=" + std::to_string(di) +
                                 " t=" + s3(T) + " L=" + sd(L) + "(" + lenName + ")";
        auto where = [&] { return desc; };
        const double rho = S.rhoChar;

        // ---- reference from the exact start (used for classification and for the FD Jacobi oracle)
        std::unique_ptr<RefCurve> ref0 = S.curve(toL(P), toL(T), (LD)L * 1.0L);
        const bool refOK = (double)ref0->halving <= 1e-9 * rho;
        run.evaluation(verif::hashStr(desc), refOK);
        if (!refOK) { run.count("skipped:reference-step-halving-disagrees"); return; }
        const RefPt endRef = ref0->at(L);
        if (run.verbose) fprintf(stderr, "%s\n  ref end %s jr=%.12Lg jt=%.12Lg growth=%.3Lg halving=%.3Lg\n", desc.c_str(), s3(toD(endRef.p)).c_str(), endRef.jr, endRef.jt, endRef.growth, ref0->halving);

        // amplification bound at arc length s along a reference curve

        // ------------------------------------------------------------------ knot-list oracle (shared by all shooters)
        // mode: "implicit" (acc, consTol) or "analytic"
        Checker ck(run, S, desc, &g);
        auto amp = [&](const RefPt& q, double s) { return ck.amp(q, s); };
        auto checkKnots = [&](const std::vector<Knot>& K, const std::string& tag, const Tol& tol, double Lreq, const Vec3& pIn, const Vec3& tIn, bool exactStart, double startOffset) { return ck.checkKnots(K, tag, tol, Lreq, pIn, tIn, exactStart, startOffset); };
        auto checkGeodesic = [&](const Geodesic& geod, const std::string& tag, bool analyticObj, double Lexp, bool lengthExact, const RefCurve* refForP, bool hasReverse) { return ck.checkGeodesic(geod, tag, analyticObj, Lexp, lengthExact, refForP, hasReverse); };

        auto shootImplicit = [&](const Vec3& p, const Vec3& t, double len, double acc, double ctol, std::vector<Knot>& K) -> bool {
            K.clear();
            try { g.shootGeodesicInDirectionImplicitly(p, t, len, 0.1 * S.rhoMin, acc, ctol, 10, [&](const Knot& k) { K.push_back(k); }); return true; }
            catch (const std::exception& e) {
                run.violation("implicit-shooter-exception/" + S.kind + "/acc=" + accName(acc), std::string("shootGeodesicInDirectionImplicitly threw: ") + e.what() + " at " + desc, run.replayHeader() + desc);
                return false;
            }
        };

        // ------------------------------------------------------------------ M1: implicit shooter
        const double offset = 1e-3 * S.rhoMin;
        const Vec3 Papprox = P + offset * toD(nP) * ((pi + pj + di) % 2 ? 1.0 : -1.0);
        const Vec3 Tapprox = 1.7 * (T + 0.05 * toD(nP));
        Vec3 endImplicit(NaN); bool haveEndImplicit = false;
        for (double acc : {1e-6, 1e-9}) {
            const double ctol = acc == 1e-6 ? 1e-10 : 1e-12;
            std::vector<Knot> K;
            if (shootImplicit(P, T, L, acc, ctol, K)) {
                checkKnots(K, "implicit", Tol{false, acc, ctol}, L, P, T, true, 0);
                run.count("implicit-knots/acc=" + accName(acc), (int64_t)K.size());
                if (acc == 1e-9 && !K.empty()) { endImplicit = K.back().point; haveEndImplicit = true; run.outcome(gk::hashVec(K.back().point, K.size())); }
                // the library's own implicit function at the knots: documented constraint tolerance
                double w = 0; for (auto& k : K) w = std::max(w, std::abs(g.calcSurfaceValue(k.point)));
                run.residual("implicit-library-surface-value-within-constraint-tolerance/" + S.kind, w / ctol, 1.0 + 1e-3, where);
            }
            if (acc == 1e-6 || thorough) {
                if (shootImplicit(Papprox, Tapprox, L, acc, ctol, K)) checkKnots(K, "implicit-approx-start", Tol{false, acc, ctol}, L, P, T, false, offset);
            }
        }

        // ------------------------------------------------------------------ M2: analytic shooter
        run.expect(g.isAnalyticFormAvailable() == S.analytic, "isAnalyticFormAvailable/" + S.kind, [&] { return "isAnalyticFormAvailable()=" + std::to_string(g.isAnalyticFormAvailable()) + " for " + S.name; });
        Vec3 endAnalytic(NaN); Vec3 tEndAnalytic(NaN); bool haveEndAnalytic = false;
        if (S.analytic) {
            for (int nK : (thorough ? std::vector<int>{2, 3, 7, 12} : std::vector<int>{2, 7})) {
                std::vector<Knot> K;
                try { g.shootGeodesicInDirectionAnalytically(P, T, L, nK, [&](const Knot& k) { K.push_back(k); }); }
                catch (const std::exception& e) { run.violation("analytic-shooter-exception/" + S.kind, std::string(e.what()) + " at " + desc, run.replayHeader() + desc); continue; }
                run.expect((int)K.size() == nK, "analytic-number-of-knots/" + S.kind, [&] { return std::to_string(K.size()) + " knots delivered, " + std::to_string(nK) + " requested at " + desc; });
                checkKnots(K, "analytic", Tol{true, 0, 0}, L, P, T, true, 0);
                if (!K.empty() && nK == 2) { endAnalytic = K.back().point; tEndAnalytic = Vec3(K.back().tangent); haveEndAnalytic = true; }
                if (nK == 2) {   // approximate start: documented to be projected
                    std::vector<Knot> K2;
                    try { g.shootGeodesicInDirectionAnalytically(Papprox, Tapprox, L, 3, [&](const Knot& k) { K2.push_back(k); }); checkKnots(K2, "analytic-approx-start", Tol{true, 0, 0}, L, P, T, false, offset); }
                    catch (const std::exception& e) { run.violation("analytic-shooter-exception/" + S.kind, std::string(e.what()) + " at " + desc, run.replayHeader() + desc); }
                }
            }
            // finite-difference geodesic curvature along one analytic shot with equally spaced knots (9 knots: stencils h and 2h at the middle knot)
            {
                std::vector<Knot> K;
                const double Lfd = std::min(L, 0.8 * S.rhoMin);   // spacing Lfd/8 <= 0.1 rhoMin
                g.shootGeodesicInDirectionAnalytically(P, T, Lfd, 9, [&](const Knot& k) { K.push_back(k); });
                if (K.size() == 9 && Lfd / 8 < 0.005 * S.rhoMin) run.count("fd-skipped:analytic-curvature-knot-spacing-below-round-off-limit");   // second differences of 1e-16-accurate points need a spacing >> sqrt(eps)
                else if (K.size() == 9) {
                    const double h = Lfd / 8;
                    auto d2 = [&](int st) { return (-K[4 + 2 * st].point + 16.0 * K[4 + st].point - 30.0 * K[4].point + 16.0 * K[4 - st].point - K[4 - 2 * st].point) / (12.0 * (st * h) * (st * h)); };
                    const Vec3 a1 = d2(1), a2 = d2(2);
                    const Vec3 acc2 = (16.0 * a1 - a2) / 15.0;
                    const L3 n = S.nrm(toL(K[4].point)); const Vec3 t = Vec3(K[4].tangent); const Vec3 b = t % toD(n);
                    if ((a1 - a2).norm() <= 1e-4 / S.rhoMin) {
                        run.residual("analytic-geodesic-curvature-by-finite-differences/" + S.kind, std::abs(dot(acc2, b)) * S.rhoMin, 1e-8, where);
                        run.residual("analytic-normal-curvature-by-finite-differences/" + S.kind, std::abs(-dot(acc2, toD(n)) - (double)S.normalCurvature(toL(K[4].point), toL(t))) * S.rhoMin, 1e-6, where);
                        const Vec3 v1 = (K[3].point * -8.0 + K[5].point * 8.0 + K[2].point - K[6].point) / (12.0 * h);
                        const Vec3 v2 = (K[2].point * -8.0 + K[6].point * 8.0 + K[0].point - K[8].point) / (24.0 * h);
                        run.residual("analytic-arc-length-parameter-by-finite-differences/" + S.kind, ((16.0 * v1 - v2) / 15.0 - t).norm(), 1e-6, where);
                    } else run.count("fd-skipped:analytic-curvature");
                }
            }
        } else {
            bool threw = false;
            try { g.shootGeodesicInDirectionAnalytically(P, T, L, 2, [&](const Knot&) {}); } catch (const std::exception&) { threw = true; }
            run.expect(threw, "analytic-shooter-unavailable-throws/" + S.kind, [&] { return "isAnalyticFormAvailable() is false but shootGeodesicInDirectionAnalytically did not throw at " + desc; });
        }
        // analytic vs implicit end point
        if (haveEndAnalytic && haveEndImplicit) {
            const double tolE = amp(endRef, L) * (60 * 1e-9 + 60 * 1e-12 * S.rhoMaxHalf) + 1e-13 * rho;
            run.residual("analytic-vs-implicit-end-point/" + S.kind, (endAnalytic - endImplicit).norm() / tolE, 30, where);
        }

        // ------------------------------------------------------------------ FD geodesic curvature at the end point from library end points (implicit shooter, acc 1e-9)
        if (li != 2 || thorough) {
            const double h = std::min(0.1 * S.rhoMin, 0.2 * L);
            auto endOf = [&](double len, Vec3& p, Vec3& t) { std::vector<Knot> K; if (!shootImplicit(P, T, len, 1e-9, 1e-12, K) || K.empty()) return false; p = K.back().point; t = Vec3(K.back().tangent); return true; };
            Vec3 p0, t0, pp[4], pm[4], tt; bool ok = endOf(L, p0, t0);
            const double hs[4] = {h / 2, h, 2 * h, 0};
            for (int k = 0; k < 3 && ok; ++k) ok = endOf(L + hs[k], pp[k], tt) && endOf(L - hs[k], pm[k], tt);
            if (ok) {
                auto d2 = [&](int k1, int k2, double hh) { return (-pp[k2] + 16.0 * pp[k1] - 30.0 * p0 + 16.0 * pm[k1] - pm[k2]) / (12.0 * hh * hh); };
                const Vec3 aH = d2(1, 2, h), aH2 = d2(0, 1, h / 2);
                const Vec3 a = (16.0 * aH2 - aH) / 15.0;
                const double noise = amp(endRef, L) * (80 * 1e-9 + 80 * 1e-12 * S.rhoMaxHalf) + 1e-13 * rho;   // end-point error scale of one shot
                if ((aH - aH2).norm() <= 1e-3 / S.rhoMin + 50 * noise / (h * h)) {
                    const L3 n = S.nrm(toL(p0)); const Vec3 b = t0 % toD(n);
                    const double tolK = 30 * noise / (h * h / 4) + 1e-7 / S.rhoMin;
                    run.residual("implicit-geodesic-curvature-by-finite-differences/" + S.kind, std::abs(dot(a, b)) / tolK, 1.0, where);
                    run.residual("implicit-normal-curvature-by-finite-differences/" + S.kind, std::abs(-dot(a, toD(n)) - (double)S.normalCurvature(toL(p0), toL(t0))) / tolK, 1.0, where);
                    const Vec3 d1 = (pm[2] - 8.0 * pm[1] + 8.0 * pp[1] - pp[2]) / (12.0 * h);
                    run.residual("implicit-arc-length-parameter-by-finite-differences/" + S.kind, (d1 - t0).norm() / (30 * noise / h + 1e-4), 1.0, where);
                } else run.count("fd-skipped:implicit-curvature");
            }
        }

        // ------------------------------------------------------------------ Jacobi fields vs finite differences of reference end points (sub-lattice in quick)
        if (((pi * 6 + pj + di) % 4 == 0) || (thorough && (pi + pj + di) % 2 == 0)) {
            const L3 p0 = toL(P), t0 = toL(T), n0 = nP, b0 = crossl(t0, n0);
            auto endRot = [&](LD th) { L3 t = cosl(th) * t0 + sinl(th) * crossl(n0, t0); return S.curve(p0, t, L, false)->at(L); };
            auto endTrans = [&](LD dl) {
                if (dl == 0) return S.curve(p0, t0, L, false)->at(L);
                RefPt m = S.curve(p0, dl > 0 ? b0 : (-1.0L) * b0, fabsl(dl), false)->at(fabsl(dl));
                L3 bb = dl > 0 ? m.t : (-1.0L) * m.t;           // transported binormal
                return S.curve(m.p, crossl(m.n, bb), L, false)->at(L); };
            const L3 bQ = crossl(endRef.t, endRef.n);
            auto fd = [&](const std::function<RefPt(LD)>& f, LD h, bool& ok) {
                auto est = [&](LD hh) { L3 d = (1 / (12 * hh)) * (f(-2 * hh).p - 8 * f(-hh).p + 8 * f(hh).p - f(2 * hh).p); return dotl(d, bQ); };
                LD a = est(h), b = est(h / 2); ok = fabsl(a - b) <= 1e-7L * (LD)rho * (fabsl(b) / (LD)rho + 1); return (16 * b - a) / 15; };
            bool ok1, ok2;
            const LD jrFD = -fd(endRot, 0.01L, ok1);
            const LD jtFD = fd(endTrans, 0.01L * S.rhoMin, ok2);
            if (run.verbose) fprintf(stderr, "  jacobi FD: jr=%.12Lg (ode %.12Lg) ok=%d jt=%.12Lg (ode %.12Lg) ok=%d\n", jrFD, endRef.jr, (int)ok1, jtFD, endRef.jt, (int)ok2);
            // harness self-check: the reference Jacobi ODE agrees with the geometric definition documented in Geodesic.h
            if (ok1) run.residual("reference-jacobi-rot-ode-vs-fd-of-reference-end-points", (double)fabsl(jrFD - endRef.jr) / (rho * (1 + (double)fabsl(endRef.jr) / rho)), 1e-6, where); else run.count("fd-skipped:jacobi-rot");
            if (ok2) run.residual("reference-jacobi-trans-ode-vs-fd-of-reference-end-points", (double)fabsl(jtFD - endRef.jt) / (1 + (double)fabsl(endRef.jt)), 1e-6, where); else run.count("fd-skipped:jacobi-trans");
            // library Jacobi scalars at the end point (tight implicit shot; analytic shot) vs the finite differences
            std::vector<Knot> K;
            if (shootImplicit(P, T, L, 1e-9, 1e-12, K) && !K.empty()) {
                const double tolJ = (amp(endRef, L) * ((double)K.size() * 1e-9) * (1 + L / S.rhoMin) * (1 + L / S.rhoMin) * 30 + 1e-6) * (1 + (double)fabsl(endRef.jr) / rho + (double)fabsl(endRef.jt));
                if (ok1) run.residual("implicit-jacobi-rot-vs-fd-of-end-points/" + S.kind, std::abs(K.back().jacobiRot - (double)jrFD) / rho / tolJ, 1.0, where);
                if (ok2) run.residual("implicit-jacobi-trans-vs-fd-of-end-points/" + S.kind, std::abs(K.back().jacobiTrans - (double)jtFD) / tolJ, 1.0, where);
            }
            if (S.analytic) {
                K.clear(); g.shootGeodesicInDirectionAnalytically(P, T, L, 2, [&](const Knot& k) { K.push_back(k); });
                if (K.size() == 2) {
                    if (ok1) run.residual("analytic-jacobi-rot-vs-fd-of-end-points/" + S.kind, std::abs(K.back().jacobiRot - (double)jrFD) / rho, 1e-6, where);
                    if (ok2) run.residual("analytic-jacobi-trans-vs-fd-of-end-points/" + S.kind, std::abs(K.back().jacobiTrans - (double)jtFD), 1e-6, where);
                }
            }
        }

        // ------------------------------------------------------------------ Geodesic-object oracle
        // numericStep: the geodesic came from the adaptive integrator with the library's fixed settings (1e-6 / 1e-10)

        // ------------------------------------------------------------------ M3: shootGeodesicInDirectionUntilLengthReached
        // The public handle forwards to the old TimeStepper-based shooter without resetting the plane-hit event handler, whose
        // `enabled` flag is never initialised by its constructors (see section "history" and notes/C47.md): put the handler into a
        // defined state first so that this section judges the shooter itself, deterministically.
        GeodesicOptions opts;
        g.getImpl().geodHitPlaneEvent->setEnabled(false);
        {
            Geodesic gPub;
            try { g.shootGeodesicInDirectionUntilLengthReached(P, UnitVec3(T), L, opts, gPub); if (checkGeodesic(gPub, "until-length", false, L, true, nullptr, false)) run.count("until-length-knots", gPub.getNumPoints()); }
            catch (const std::exception& e) { run.violation("until-length-exception/" + S.kind, std::string(e.what()) + " at " + desc, run.replayHeader() + desc); }
        }
        // the implementation-level entry point used by the orthogonal method (GeodesicIntegrator, accuracy 1e-6, constraint tolerance 1e-10)
        Geodesic gNum; bool haveNum = false;
        try { g.getImpl().shootGeodesicInDirectionUntilLengthReached(P, UnitVec3(T), L, opts, gNum); haveNum = checkGeodesic(gNum, "impl-until-length", false, L, true, nullptr, false); }
        catch (const std::exception& e) { run.violation("impl-until-length-exception/" + S.kind, std::string(e.what()) + " at " + desc, run.replayHeader() + desc); }
        if (haveNum) run.count("impl-until-length-knots", gNum.getNumPoints());

        // ------------------------------------------------------------------ M4: shootGeodesicInDirectionUntilLengthReachedAnalytical
        {
            Geodesic gA; bool threw = false;
            try { g.shootGeodesicInDirectionUntilLengthReachedAnalytical(P, UnitVec3(T), L, opts, gA); }
            catch (const std::exception& e) { threw = true; run.violation("until-length-analytical-exception/" + S.kind, std::string(e.what()) + " at " + desc, run.replayHeader() + desc); }
            if (!threw) {
                if (S.kind == "Sphere") checkGeodesic(gA, "until-length-analytical", true, L, false, nullptr, true);
                else if (S.kind == "Cylinder")
                    run.expect(gA.getNumPoints() >= 2, "unimplemented-silent/Cylinder.shootGeodesicInDirectionUntilLengthReachedAnalytical",
                               [&] { return "Cylinder::shootGeodesicInDirectionUntilLengthReachedAnalytical returns without touching the Geodesic (empty stub, no error) at " + desc; });
                else if (haveNum) {   // base class: documented fallback to the numerical shooter
                    const bool same = gA.getNumPoints() == gNum.getNumPoints() && gA.getNumPoints() >= 2 && gA.getPointQ() == gNum.getPointQ() && gA.getLength() == gNum.getLength();
                    run.expect(same, "until-length-analytical-fallback-equals-numerical/" + S.kind, [&] { return "fallback result differs from shootGeodesicInDirectionUntilLengthReached at " + desc; });
                }
                if (S.kind == "Sphere" && gA.getNumPoints() >= 2) {
                    run.residual("until-length-analytical-length/Sphere", std::abs(gA.getLength() - L) / L, 1e-13, where);
                    if (haveEndAnalytic) run.residual("until-length-analytical-vs-analytic-shooter-end-point/Sphere", (gA.getPointQ() - endAnalytic).norm() / rho, 1e-13, where);
                }
            }
        }

        // ------------------------------------------------------------------ M5: calcGeodesicAnalytical between P and the analytic end point
        if (S.analytic && haveEndAnalytic) {
            const Vec3 Q = endAnalytic;
            // classification of the connecting geodesic named by the hints
            std::string cls = "generic";
            if (S.kind == "Sphere") {
                const double ang = L / S.r; const double sn = std::abs(sin(ang));
                if (ang >= 2 * Pi) cls = "winds-more-than-once"; else if (sn < 1e-3) cls = "near-antipodal-or-coincident";
            } else {
                const double ct = dot(T, S.eU(u)); const double ang = L * ct / S.r;
                if (std::abs(ang) >= 2 * Pi) cls = "winds-more-than-once"; else if (std::abs(ct) < 1e-12) cls = "axial";
            }
            run.count("calcGeodesicAnalytical-class:" + S.kind + "/" + cls);
            if (cls == "winds-more-than-once" || cls == "near-antipodal-or-coincident") run.count("unspecified:calcGeodesicAnalytical/" + cls);
            else {
                Geodesic gA; bool threw = false;
                try { g.calcGeodesicAnalytical(P, Q, T, tEndAnalytic, gA); }
                catch (const std::exception& e) { threw = true; run.violation("calcGeodesicAnalytical-exception/" + S.kind + "/" + cls, std::string(e.what()) + " at " + desc, run.replayHeader() + desc); }
                if (!threw) {
                    bool fin = gA.getNumPoints() >= 2 && std::isfinite(gA.getLength());
                    for (int k = 0; fin && k < gA.getNumPoints(); ++k) fin = gk::finite3(gA.getFrenetFrames()[k].p()) && gk::finite3(Vec3(gA.getFrenetFrames()[k].y()));
                    if (run.expect(fin, "calcGeodesicAnalytical-nan/" + S.kind + "/" + cls, [&] { return "calcGeodesicAnalytical(P,Q,tP,tQ) returned NaN / no points for Q=" + s3(Q) + " tQ=" + s3(tEndAnalytic) + " at " + desc; })) {
                        const double cond = S.kind == "Sphere" ? 1 / std::abs(sin(L / S.r)) : 1.0;
                        run.residual("calcGeodesicAnalytical-length/" + S.kind, std::abs(gA.getLength() - L) / rho / cond, 1e-12, where);
                        run.residual("calcGeodesicAnalytical-starts-at-P/" + S.kind, (gA.getPointP() - P).norm() / rho, 1e-13, where);
                        run.residual("calcGeodesicAnalytical-ends-at-Q/" + S.kind, (gA.getPointQ() - Q).norm() / rho / cond, 1e-12, where);
                        run.residual("calcGeodesicAnalytical-start-tangent/" + S.kind, (Vec3(gA.getTangentP()) - T).norm() / cond, 1e-11, where);
                        checkGeodesic(gA, "calcGeodesicAnalytical", true, L, false, nullptr, true);
                    }
                }
            }
        }

        // ------------------------------------------------------------------ M6: calcGeodesicUsingOrthogonalMethod with perturbed hints
        if (haveNum) {
            const Vec3 Q = gNum.getPointQ();
            const double th = 0.05; const Vec3 tHint = cos(th) * T + sin(th) * (toD(nP) % T);
            const double lenHint = L * 1.03;
            Geodesic gO; bool threw = false;
            try { g.calcGeodesicUsingOrthogonalMethod(P, Q, tHint, lenHint, gO); }
            catch (const std::exception& e) { threw = true; run.count("ortho:exception/" + lenName); if (run.verbose) fprintf(stderr, "  ortho threw %s\n", e.what()); }
            if (!threw && gO.getNumPoints() >= 2 && gk::finite3(gO.getPointQ())) {
                const double miss = (gO.getPointQ() - Q).norm();
                const bool converged = miss <= 1e-8;
                run.count(std::string("ortho:") + (converged ? "converged/" : "not-converged/") + lenName);
                if (run.verbose) fprintf(stderr, "  ortho: miss=%.3g length=%.15g (true %.15g) points=%d\n", miss, gO.getLength(), L, gO.getNumPoints());
                if (converged) {
                    const bool straight = gO.getNumPoints() == 2 && L < 1.5e-3;    // documented straight-line approximation for very short geodesics
                    if (!straight) checkGeodesic(gO, "orthogonal-method", false, gO.getLength(), false, nullptr, true);
                    else run.count("ortho:straight-line-approximation");
                    // uniqueness: away from conjugate points the geodesic near the hint is the one that was shot
                    // (the solver may legitimately converge to another geodesic joining P and Q: judged only on the branch of the shot geodesic)
                    const bool sameBranch = std::abs(gO.getLength() - L) <= 0.02 * L && (Vec3(gO.getTangentP()) - T).norm() <= 0.02;
                    run.count(std::string("ortho:") + (sameBranch ? "same-geodesic-as-shot/" : "other-geodesic-joining-P-and-Q/") + lenName);
                    if (std::abs((double)endRef.jr) > 0.05 * S.rhoMin && !straight && sameBranch) {
                        const double e = amp(endRef, L) * (2.0 * gNum.getNumPoints() * 1e-6) + 1e-8;
                        run.residual("orthogonal-method-length-vs-shot-length/" + S.kind, std::abs(gO.getLength() - L) / e, 30, where);
                        run.residual("orthogonal-method-start-tangent-vs-shot-tangent/" + S.kind, (Vec3(gO.getTangentP()) - T).norm() * std::abs((double)endRef.jr) / e, 30, where);
                    } else run.count("unspecified:ortho-near-conjugate-point-or-straight");
                }
            } else if (!threw) run.count("ortho:no-result/" + lenName);
        }
        if (idx % 1297 == 0) run.sample(desc + " -> reference end " + s3(toD(endRef.p)) + " jr=" + sd((double)endRef.jr) + " jt=" + sd((double)endRef.jt) +
                                        (haveEndImplicit ? " implicit end " + s3(endImplicit) : "") + (haveEndAnalytic ? " analytic end " + s3(endAnalytic) : ""));
    });
    mark("shoot");

    // =================================================================================== section 2: plane-hit shooters, call-history independence, split method
    // sub-lattice: 6 starts x 4 generic directions per surface, quarter length; plane through the reference point at 0.6 L
    static const int hStart[6][2] = {{0, 1}, {1, 3}, {2, 2}, {3, 4}, {4, 0}, {5, 5}};
    static const int hDir[4] = {1, 4, 8, 11};
    verif::Odometer oh; oh.dim("plane", 2); oh.dim("dir", 4); oh.dim("start", 6); oh.dim("surf", kNumSurf); oh.dim("vs", (int64_t)vsets.size());
    run.parallel("history", oh.size(), [&](int64_t idx) {
        silence();
        auto dg = oh.digits(idx);
        const int pl = dg[0], di = hDir[dg[1]], pi = hStart[dg[2]][0], pj = hStart[dg[2]][1], si = dg[3]; const long vs = vsets[dg[4]];
        const Surface S = buildSurface(si, vs);
        double u, v; startParams(S, vs, pi, pj, u, v);
        const Vec3 P = S.point(u, v); const L3 nP = S.nrm(toL(P));
        Vec3 e1 = S.eU(u); { Vec3 n = toD(nP); e1 = e1 - n * dot(e1, n); e1 /= e1.norm(); }
        const Vec3 e2 = toD(nP) % e1; double dc, ds; dirCS(di, dc, ds);
        Vec3 T = dc * e1 + ds * e2; T /= T.norm();
        const double L = 0.5 * Pi * S.rhoChar, sStar = 0.6 * L;
        const std::string desc = S.name + " vs=" + std::to_string(vs) + " start(i=" + std::to_string(pi) + ",j=" + std::to_string(pj) + ")=" + s3(P) + " dir=" + std::to_string(di) + " t=" + s3(T) +
                                 " L=" + sd(L) + " plane=" + (pl == 0 ? "normal-to-curve" : "tilted-towards-surface-normal");
        auto where = [&] { return desc; };
        std::unique_ptr<ContactGeometry> gScale = S.make();
        Checker ck(run, S, desc, gScale.get());
        std::unique_ptr<RefCurve> ref0 = S.curve(toL(P), toL(T), (LD)L);
        const bool refOK = (double)ref0->halving <= 1e-9 * S.rhoChar;
        run.evaluation(verif::hashStr(desc + "/history"), refOK);
        if (!refOK) { run.count("skipped:reference-step-halving-disagrees"); return; }
        const RefPt star = ref0->at(sStar);
        const L3 nrmL = pl == 0 ? star.t : unitl(star.t + 0.3L * star.n);
        const Vec3 pn = toD(nrmL); const double off = (double)dotl(nrmL, star.p);
        const Plane plane(pn, off);
        // first crossing of the plane along the reference curve
        bool early = false; { LD g0 = dotl(nrmL, ref0->at(0).p - star.p); if (!(g0 < -1e-6L * S.rhoChar)) early = true;
            for (int k = 1; k < 200 && !early; ++k) { LD g = dotl(nrmL, ref0->at(sStar * k / 200.0L * 0.999L).p - star.p); if (g >= -1e-9L * S.rhoChar) early = true; } }
        if (early) { run.count("unspecified:plane-crossed-before-the-target-point"); return; }
        GeodesicOptions opts;
        std::unique_ptr<ContactGeometry> gp = S.make(); const ContactGeometry& g = *gp;

        // ---- (a) numerical plane hit
        Geodesic gHit; bool haveHit = false;
        try { g.shootGeodesicInDirectionUntilPlaneHit(P, UnitVec3(T), plane, opts, gHit); haveHit = true; }
        catch (const std::exception& e) { run.violation("plane-hit-exception/" + S.kind, std::string(e.what()) + " at " + desc, run.replayHeader() + desc); }
        if (haveHit && run.expect(gHit.getNumPoints() >= 2 && gk::finite3(gHit.getPointQ()), "plane-hit-has-result/" + S.kind, [&] { return "no / non-finite result at " + desc; })) {
            // the event is localised by the time stepper to the integrator's accuracy (1e-6): bound calibrated
            run.residual("plane-hit-end-point-in-plane/" + S.kind, std::abs(plane.getDistance(gHit.getPointQ())) / S.rhoChar, 1e-6, where);
            run.residual("plane-hit-length-is-first-crossing/" + S.kind, std::abs(gHit.getLength() - sStar) / S.rhoChar, 4e-4, where);
            ck.checkGeodesic(gHit, "plane-hit", false, sStar, false, nullptr, false);
            if (run.verbose) fprintf(stderr, "  plane hit: length %.12g (target %.12g) distance to plane %.3g points %d\n", gHit.getLength(), sStar, plane.getDistance(gHit.getPointQ()), gHit.getNumPoints());
        }
        // ---- (b) call-history independence: the same object, now asked for a geodesic of length L (it crosses the plane of the earlier call at 0.6 L)
        {
            Geodesic gl; bool ok = false;
            try { g.shootGeodesicInDirectionUntilLengthReached(P, UnitVec3(T), L, opts, gl); ok = true; }
            catch (const std::exception& e) { run.violation("until-length-after-plane-hit-exception/" + S.kind, std::string(e.what()) + " at " + desc, run.replayHeader() + desc); }
            if (ok) {
                run.expect(gl.getNumPoints() >= 2 && gl.getLength() == L, "until-length-after-plane-hit/stops-at-the-stale-plane",
                           [&] { return "ContactGeometry::shootGeodesicInDirectionUntilLengthReached(length " + sd(L) + ") called after shootGeodesicInDirectionUntilPlaneHit on the same object returns length " + sd(gl.getLength()) +
                                        " (the earlier call's plane is crossed at " + sd(sStar) + ") at " + desc; });
                // the implementation-level entry point resets the handler: must be unaffected
                Geodesic gi; g.getImpl().shootGeodesicInDirectionUntilLengthReached(P, UnitVec3(T), L, opts, gi);
                run.expect(gi.getNumPoints() >= 2 && gi.getLength() == L, "impl-until-length-after-plane-hit-reaches-length/" + S.kind, [&] { return "Impl::shootGeodesicInDirectionUntilLengthReached returned length " + sd(gi.getLength()) + " at " + desc; });
            }
        }
        // ---- (c) analytical plane hit
        {
            std::unique_ptr<ContactGeometry> g2p = S.make(); const ContactGeometry& g2 = *g2p;
            Geodesic ga; bool ok = false;
            try { g2.shootGeodesicInDirectionUntilPlaneHitAnalytical(P, UnitVec3(T), plane, opts, ga); ok = true; }
            catch (const std::exception& e) { run.violation("plane-hit-analytical-exception/" + S.kind, std::string(e.what()) + " at " + desc, run.replayHeader() + desc); }
            if (ok) {
                if (S.kind == "Cylinder")
                    run.expect(ga.getNumPoints() >= 2, "unimplemented-silent/Cylinder.shootGeodesicInDirectionUntilPlaneHitAnalytical", [&] { return "empty stub: the Geodesic is returned untouched, no error, at " + desc; });
                else if (run.expect(ga.getNumPoints() >= 2 && gk::finite3(ga.getPointQ()), "plane-hit-analytical-has-result/" + S.kind, [&] { return "no / non-finite result at " + desc; })) {
                    const bool an = S.kind == "Sphere";
                    const std::string cls = an ? (pl == 0 ? "/plane-through-centre" : "/plane-off-centre") : "";
                    run.residual("plane-hit-analytical-end-point-in-plane/" + S.kind + cls, std::abs(plane.getDistance(ga.getPointQ())) / S.rhoChar, an ? 1e-12 : 1e-6, where);
                    run.residual("plane-hit-analytical-length-is-first-crossing/" + S.kind + cls, std::abs(ga.getLength() - sStar) / S.rhoChar, an ? 1e-12 : 4e-4, where);
                    if (an) ck.checkGeodesic(ga, "plane-hit-analytical", true, sStar, false, nullptr, true);
                }
            }
        }
        // ---- (d) split-shooting method calcGeodesic between P and the reference point at 0.6 L with exact tangent hints (plane digit 0 only)
        if (pl == 0) {
            std::unique_ptr<ContactGeometry> g3p = S.make(); const ContactGeometry& g3 = *g3p;
            const Vec3 Q = toD(star.p), tQ = toD(star.t);
            Geodesic gs; bool ok = false;
            try { g3.calcGeodesic(P, Q, T, tQ, gs); ok = true; }
            catch (const std::exception& e) { run.count("split:exception"); if (run.verbose) fprintf(stderr, "  calcGeodesic threw %s\n", e.what()); }
            if (ok) {
                const int n = gs.getNumPoints();
                bool fin = n >= 2 && (int)gs.getArcLengths().size() == n; for (int k = 0; fin && k < n; ++k) fin = gk::finite3(gs.getFrenetFrames()[k].p()) && std::isfinite(gs.getArcLengths()[k]);
                if (!fin) run.count("split:no-finite-result");
                else {
                    // no convergence flag: judged only where the two half geodesics meet (kink and gap small), otherwise counted
                    const Geodesic& hP = g3.getGeodP(); const Geodesic& hQ = g3.getGeodQ();
                    const double gap = (hP.getPointQ() - hQ.getPointQ()).norm(), kink = (Vec3(hP.getTangentQ()) + Vec3(hQ.getTangentQ())).norm();
                    const bool conv = gap <= 1e-4 * S.rhoChar && kink <= 1e-4;
                    run.count(conv ? "split:halves-meet" : "split:halves-do-not-meet");
                    if (run.verbose) fprintf(stderr, "  split: points %d length %.12g (reference %.12g) gap %.3g kink %.3g\n", n, gs.getLength(), sStar, gap, kink);
                    if (conv) {
                        run.residual("split-method-length/" + S.kind, std::abs(gs.getLength() - sStar) / S.rhoChar, 3e-4, where);
                        run.residual("split-method-starts-at-P/" + S.kind, (gs.getPointP() - P).norm() / S.rhoChar, 1e-9, where);
                        run.residual("split-method-ends-at-Q/" + S.kind, (gs.getPointQ() - Q).norm() / S.rhoChar, 1e-9, where);
                        double wS = 0, wP = 0; bool mono = true;
                        for (int k = 0; k < n; ++k) {
                            const Vec3& p = gs.getFrenetFrames()[k].p(); const double sk = gs.getArcLengths()[k];
                            wS = std::max(wS, (double)S.dist(toL(p)) / S.rhoChar); wP = std::max(wP, (double)norml(toL(p) - ref0->at(sk).p) / S.rhoChar);
                            if (k) mono = mono && sk >= gs.getArcLengths()[k - 1];
                        }
                        run.residual("split-method-points-on-surface/" + S.kind, wS, 1e-7, where);
                        run.residual("split-method-points-on-reference-geodesic/" + S.kind, wP, 4e-3, where);
                        run.expect(mono, "split-method-arclength-monotone/" + S.kind, [&] { return "merged arc lengths decrease at " + desc; });
                    }
                }
            }
        }
        run.outcome(gk::hashVec(haveHit && gHit.getNumPoints() ? gHit.getPointQ() : Vec3(0), idx));
        if (idx % 97 == 0) run.sample(desc + " -> plane hit at length " + (haveHit && gHit.getNumPoints() ? sd(gHit.getLength()) : std::string("n/a")) + " (reference first crossing " + sd(sStar) + ")");
    });
    mark("history");
    run.extraCoverage["section_wall_s"] = sectionWall + "}";
    return run.finish();
}
