// C09 -- Successful projection lands on the constraint manifold minimally.
// Engine E3.  Constraint sets (singletons, unordered pairs, duplicated pairs of the C08 instance tables over engine/consmodels.h)
// on the three host trees x COORD x prescribed-coordinate pattern x weight pattern; for each an *assembled* base state is
// perturbed (none / quaternion scaling / generic / every q basis direction / every u basis direction; sizes 1e-6,1e-3,1e-1)
// and projected with System::projectQ / projectU (ProjectOptions: forced, infinity norm, LocalOnly, projection limit,
// throwing or DontThrow) or System::project(), accuracies 1e-3, 1e-6, 1e-10, default.
// Oracles on every call (Q and U judged separately):
//   * reported success  =>  norm recomputed by the harness (long double) from getQErr/getUErr of the returned state,
//     max( norm(W_err .* err), norm(quaternion length errors) ), RMS or infinity as selected, <= required accuracy;
//     every quaternion recomputed from q has | |q|-1 | within that norm; state finite
//   * prescribed (locked) q / u not modified (bitwise), u untouched by projectQ, q untouched by projectU, time untouched
//   * already satisfied on entry and not forced  =>  state unchanged bitwise
//   * entry norm above a projection limit  =>  failure status and state unchanged
//   * throwing variant throws iff the DontThrow twin reports failure; same final state on success
//   * velocity constraints linear in u: the correction lies in the range of E^-2 A^T (weighted minimum norm, E as documented)
//   * section "linear": constraints linear in q on N=I mobilizers: the q correction lies in the range of Wq^-2 A^T
// Failure statuses are allowed outcomes and are counted.
#include "Simbody.h"
#include "verif.h"
#include "models.h"
#include "consmodels.h"
#include "refkit.h"

using namespace SimTK;
using ref::LD;

std::string mb::nodeTypeName(const mb::Model&, int) { return ""; }

// Poisoned allocator (see harness/C08.cpp): uninitialised heap reads inside the library become deterministic NaNs.
#include <new>
void* operator new(std::size_t n) { void* p = std::malloc(n ? n : 1); if (!p) throw std::bad_alloc(); std::memset(p, 0xFF, n); return p; }
void* operator new[](std::size_t n) { void* p = std::malloc(n ? n : 1); if (!p) throw std::bad_alloc(); std::memset(p, 0xFF, n); return p; }
void operator delete(void* p) noexcept { std::free(p); }
void operator delete[](void* p) noexcept { std::free(p); }
void operator delete(void* p, std::size_t) noexcept { std::free(p); }
void operator delete[](void* p, std::size_t) noexcept { std::free(p); }

// ---------------------------------------------------------------- tolerances (calibration: notes/C09.md)
static const double NORM_REL = 1e-9;      // recomputed norm may exceed the accuracy by this relative amount ...
static const double NORM_ABS = 1e-13;     // ... plus this absolute amount (round-off of re-evaluating perr after quaternion normalisation)
static const double BAND = 1e-9;          // relative half-width of the "unspecified" band around thresholds the library evaluates itself
static const double TOL_MINNORM = 1e-6;   // tangential part of the weighted correction relative to (|correction| + MINNORM_FLOOR)
static const double MINNORM_FLOOR = 1e-7;

// ---------------------------------------------------------------- instance tables (identical to harness/C08.cpp)
static const int NINST = 20;
static cons::ConsSpec instanceSpec(int i, int variantList) {
    using namespace cons;
    static const int tab[NINST][5] = {
        {CRod, ASiblings, 0, 0, 0}, {CBall, AGroundBody, 1, 1, 0}, {CWeld, AViaGround, 0, 2, 0}, {CPointInPlane, AAncDesc2, 0, 0, 0},
        {CPointOnLine, AParentChild, 1, 1, 0}, {CConstantAngle, ASiblings, 0, 2, 1}, {CConstantOrientation, AGroundBody, 0, 1, 0}, {CNoSlip1D, ASiblings, 0, 0, 2},
        {CConstantCoordinate, AAncDesc2, 0, 0, 0}, {CConstantSpeed, AParentChild, 0, 0, 0}, {CConstantAcceleration, ASiblings, 0, 0, 0}, {CCoordinateCoupler, AParentChild, 0, 0, 1},
        {CSpeedCoupler, AAncDesc2, 0, 0, 0}, {CPrescribedMotion, AViaGround, 0, 0, 1}, {CPointOnPlaneContact, AGroundBody, 0, 2, 0}, {CSphereOnPlaneContact, AViaGround, 1, 0, 1},
        {CSphereOnSphereContact, AParentChild, 0, 2, 1}, {CLineOnLineContact, ASiblings, 1, 1, 1}, {CCustomRod, ASiblings, 0, 0, 0}, {CCustomConstantSpeed, AParentChild, 0, 0, 0}};
    static const int tab2[NINST][5] = {
        {CRod, AAncDesc2, 1, 2, 0}, {CBall, ASiblings, 0, 0, 0}, {CWeld, AGroundBody, 1, 1, 0}, {CPointInPlane, AViaGround, 1, 1, 0},
        {CPointOnLine, ASiblings, 0, 2, 0}, {CConstantAngle, AAncDesc2, 1, 0, 0}, {CConstantOrientation, AViaGround, 1, 2, 0}, {CNoSlip1D, AGroundBody, 0, 1, 1},
        {CConstantCoordinate, AGroundBody, 0, 0, 0}, {CConstantSpeed, ASiblings, 0, 0, 0}, {CConstantAcceleration, AViaGround, 0, 0, 0}, {CCoordinateCoupler, ASiblings, 1, 0, 0},
        {CSpeedCoupler, AParentChild, 0, 0, 2}, {CPrescribedMotion, AAncDesc2, 0, 0, 0}, {CPointOnPlaneContact, ASiblings, 1, 0, 0}, {CSphereOnPlaneContact, AAncDesc2, 0, 2, 0},
        {CSphereOnSphereContact, AGroundBody, 1, 0, 1}, {CLineOnLineContact, AViaGround, 0, 2, 0}, {CCustomRod, AAncDesc2, 1, 2, 0}, {CCustomConstantSpeed, ASiblings, 0, 0, 0}};
    const int* t = variantList ? tab2[i] : tab[i];
    ConsSpec cs; cs.type = t[0]; cs.attach = t[1]; cs.swap = t[2]; cs.lat = t[3]; cs.var = t[4];
    return cs;
}

// ---------------------------------------------------------------- weight patterns
// 0: defaults (all 1).  1: non-uniform u weights, q-error weights and u-error weights.  2: non-uniform u weights only.
// Quaternion entries of the q-error weights stay 1 (the implementation documents that quaternion errors are not weighted).
static Real uWeightTab(int i) { static const Real t[8] = {1, 0.5, 2.5, 0.2, 4, 1.5, 0.8, 3}; return t[i % 8]; }
static Real qerrWeightTab(int i) { static const Real t[8] = {1, 7, 0.3, 2, 0.1, 10, 0.6, 4}; return t[i % 8]; }
static Real uerrWeightTab(int i) { static const Real t[8] = {3, 1, 0.2, 8, 0.5, 1.5, 6, 0.25}; return t[i % 8]; }
static void applyWeights(const mb::Model& M, State& s, int pattern) {   // s realized through Instance
    if (pattern == 0) return;
    Vector& uw = s.updUWeights(); for (int i = 0; i < uw.size(); ++i) uw[i] = uWeightTab(i);
    if (pattern == 2) return;
    const int mq = M.matter.getNumQuaternionsInUse(s), mh = s.getNQErr() - mq;
    Vector& qw = s.updQErrWeights(); for (int i = 0; i < mh; ++i) qw[i] = qerrWeightTab(i);
    Vector& vw = s.updUErrWeights(); for (int i = 0; i < vw.size(); ++i) vw[i] = uerrWeightTab(i);
}

// ---------------------------------------------------------------- option list
struct Opt { int api; bool forced, inf, local; double limit; };   // api 0: advanced + DontThrow, 1: System::project(), 2: advanced throwing (vs twin)
static std::string optName(const Opt& o) {
    if (o.api == 1) return "project()";
    std::string s = o.api == 2 ? "throwing" : "dontthrow";
    if (o.forced) s += "+forced"; if (o.inf) s += "+inf"; if (o.local) s += "+local"; if (std::isfinite(o.limit)) s += "+limit" + verif::str(o.limit);
    return s;
}
static std::vector<Opt> optList(bool full) {
    std::vector<Opt> v;
    if (full) {
        for (int lim = 0; lim < 2; ++lim) for (int loc = 0; loc < 2; ++loc) for (int inf = 0; inf < 2; ++inf) for (int f = 0; f < 2; ++f) v.push_back({0, f != 0, inf != 0, loc != 0, lim ? 1e-2 : (double)Infinity});
        for (int inf = 0; inf < 2; ++inf) for (int f = 0; f < 2; ++f) v.push_back({2, f != 0, inf != 0, false, (double)Infinity});
    } else {
        for (int inf = 0; inf < 2; ++inf) for (int f = 0; f < 2; ++f) v.push_back({0, f != 0, inf != 0, false, (double)Infinity});
        v.push_back({0, false, false, true, (double)Infinity}); v.push_back({0, true, true, true, (double)Infinity});
        v.push_back({0, false, false, false, 1e-2}); v.push_back({0, true, true, false, 1e-2});
        v.push_back({2, false, false, false, (double)Infinity});
    }
    v.push_back({1, false, false, false, (double)Infinity});
    return v;
}
static ProjectOptions makeOptions(const Opt& o, Real acc, bool dontThrow) {
    ProjectOptions po(acc);
    if (dontThrow) po.setOption(ProjectOptions::DontThrow);
    if (o.forced) po.setOption(ProjectOptions::ForceProjection);
    if (o.inf) po.setOption(ProjectOptions::UseInfinityNorm);
    if (o.local) po.setOption(ProjectOptions::LocalOnly);
    if (std::isfinite(o.limit)) po.setProjectionLimit(o.limit);
    return po;
}

// ---------------------------------------------------------------- harness-side norms
static LD normOf(const std::vector<LD>& v, bool inf) {
    if (v.empty()) return 0;
    LD m = 0, ss = 0;
    for (LD x : v) { if (!(fabsl(x) <= m)) m = fabsl(x); ss += x * x; }   // NaN propagates into m
    if (inf) return m;
    return std::isnan((double)m) ? m : sqrtl(ss / (LD)v.size());
}
static bool sameBits(Real a, Real b) { return std::memcmp(&a, &b, sizeof(Real)) == 0; }
static bool sameBits(const Vector& a, const Vector& b) { if (a.size() != b.size()) return false; for (int i = 0; i < a.size(); ++i) if (!sameBits(a[i], b[i])) return false; return true; }
static bool allFinite(const Vector& v) { for (int i = 0; i < v.size(); ++i) if (!std::isfinite(v[i])) return false; return true; }

// Gram-Schmidt range test: relative size of the part of y outside span(cols); cols are consumed.
static LD outsideSpan(std::vector<std::vector<LD> > cols, std::vector<LD> y, LD floorAbs) {
    LD yn = 0; for (LD x : y) yn += x * x; yn = sqrtl(yn);
    LD sc = 0; for (auto& c : cols) for (LD x : c) sc = std::max(sc, fabsl(x));
    std::vector<std::vector<LD> > Q;
    for (auto& c : cols) {
        for (int pass = 0; pass < 2; ++pass) for (auto& q : Q) { LD d = 0; for (size_t i = 0; i < c.size(); ++i) d += q[i] * c[i]; for (size_t i = 0; i < c.size(); ++i) c[i] -= d * q[i]; }
        LD n = 0; for (LD x : c) n += x * x; n = sqrtl(n);
        if (n > 1e-13L * sc && n > 0) { for (LD& x : c) x /= n; Q.push_back(c); }   // keeping a noisy direction only weakens the test
    }
    for (int pass = 0; pass < 2; ++pass) for (auto& q : Q) { LD d = 0; for (size_t i = 0; i < y.size(); ++i) d += q[i] * y[i]; for (size_t i = 0; i < y.size(); ++i) y[i] -= d * q[i]; }
    LD rn = 0; for (LD x : y) rn += x * x; rn = sqrtl(rn);
    return rn / (yn + floorAbs);
}

// ---------------------------------------------------------------- a system under test
struct Sut {
    std::unique_ptr<mb::Model> M;
    std::string name;
    std::vector<int> quatStart;        // first q index of every quaternion in use
    std::vector<int> prescQ, prescU;   // system q / u indices of prescribed (locked) coordinates
    Vector lockedQ, lockedU;           // their prescribed values (same order)
    bool touchesQuat = false;          // a coordinate-level position constraint acts directly on a quaternion component
    bool linearInU = true;             // every velocity-level equation is linear in u
    bool linearInQ = false;            // section "linear"
    bool usesPrescribedMotionCons = false;
};
struct Tally { int64_t n = 0; };

struct Norms { LD weighted = 0, quat = 0, all = 0; };
struct Snap { Vector q, u; Real t; const Vector& getQ() const { return q; } const Vector& getU() const { return u; } Real getTime() const { return t; } };
static Snap snap(const State& s) { Snap p; p.q = s.getQ(); p.u = s.getU(); p.t = s.getTime(); return p; }
static Norms qNorms(const Sut& S, const State& s, bool inf) {
    const Vector& e = s.getQErr(); const Vector& w = s.getQErrWeights();
    const int mq = S.M->matter.getNumQuaternionsInUse(s), mh = e.size() - mq;
    std::vector<LD> a(mh), b(mq);
    for (int i = 0; i < mh; ++i) a[i] = (LD)e[i] * (LD)w[i];
    for (int i = 0; i < mq; ++i) b[i] = e[mh + i];
    Norms n; n.weighted = normOf(a, inf); n.quat = normOf(b, inf); n.all = (n.weighted >= n.quat || std::isnan((double)n.weighted)) ? n.weighted : n.quat;
    if (std::isnan((double)n.quat)) n.all = n.quat;
    return n;
}
static LD quatLengthNorm(const Sut& S, const State& s, bool inf) {   // independent of getQErr: from the q's themselves
    std::vector<LD> e;
    for (int q0 : S.quatStart) { LD ss = 0; for (int k = 0; k < 4; ++k) ss += (LD)s.getQ()[q0 + k] * (LD)s.getQ()[q0 + k]; e.push_back(sqrtl(ss) - 1); }
    return normOf(e, inf);
}
static LD uNorm(const State& s, bool inf) {
    const Vector& e = s.getUErr(); const Vector& w = s.getUErrWeights();
    std::vector<LD> a(e.size()); for (int i = 0; i < e.size(); ++i) a[i] = (LD)e[i] * (LD)w[i];
    return normOf(a, inf);
}
// three-valued comparison with a threshold the library evaluates in double: -1 definitely <=, +1 definitely >, 0 unspecified
static int cmp3(LD v, LD thr) { if (std::isnan((double)v)) return 0; if (v <= thr * (1 - BAND)) return -1; if (v > thr * (1 + BAND)) return 1; return 0; }

// ---------------------------------------------------------------- the oracle for one projection call
struct CallCtx {
    verif::Run& run; const Sut& S; const std::string& desc; const Opt& opt; Real acc;   // acc: effective accuracy (> 0)
    std::function<std::string()> where, rp;
};
static const char* statusName(int st) { switch (st) { case 0: return "Succeeded"; case 1: return "FailedToAchieveAccuracy"; case 2: return "FailedToConverge"; default: return "Invalid"; } }

// A (rows = velocity-level equations, cols = u) by differencing uerr, exact for equations linear in u
static std::vector<std::vector<LD> > velocityRows(const Sut& S, const State& s) {
    State t = s; const int nu = t.getNU();
    t.updU() = 0; S.M->system.realize(t, Stage::Velocity);
    const Vector b = t.getUErr(); const int m = b.size();
    std::vector<std::vector<LD> > A(m, std::vector<LD>(nu));
    for (int j = 0; j < nu; ++j) {
        t.updU() = 0; t.updU()[j] = 1; S.M->system.realize(t, Stage::Velocity);
        const Vector& e = t.getUErr(); for (int i = 0; i < m; ++i) A[i][j] = (LD)e[i] - (LD)b[i];
    }
    return A;
}

// judge projectQ.  `before` is the state handed to the library (realized Position), `after` what came back.
static void judgeQ(CallCtx& c, const Snap& before, const Norms& entry, const Norms& entryOther, const State& after, const ProjectResults& res, bool threw, const std::string& what) {
    verif::Run& run = c.run; const Sut& S = c.S;
    const std::string sfx = S.touchesQuat ? "constraint-on-quaternion-component" : "";
    run.count(std::string("Q:status:") + (threw ? "threw" : statusName(res.getExitStatus())));
    // never: prescribed q modified, u modified, time modified
    bool presSame = true; for (int i : S.prescQ) presSame = presSame && sameBits(before.getQ()[i], after.getQ()[i]);
    run.expect(presSame, "projectQ-modified-prescribed-q", [&] { return "a prescribed q changed: " + c.desc; }, c.rp);
    run.expect(sameBits(before.getU(), after.getU()) && sameBits(before.getTime(), after.getTime()), "projectQ-modified-u-or-time", [&] { return "u or time changed: " + c.desc; }, c.rp);
    if (threw) return;
    const bool success = res.getExitStatus() == ProjectResults::Succeeded;
    const bool limited = std::isfinite(c.opt.limit);
    if (limited) {
        const int k = cmp3(entry.all, c.opt.limit);
        if (k > 0) {
            run.count("Q:limit-exceeded");
            run.expect(!success && res.getProjectionLimitExceeded() && res.getExitStatus() == ProjectResults::FailedToConverge, "projectQ-projection-limit-not-honoured", [&] { return "entry norm " + verif::fmtd((double)entry.all) + " > limit but status " + statusName(res.getExitStatus()) + ": " + c.desc; }, c.rp);
            run.expect(sameBits(before.getQ(), after.getQ()), "projectQ-projection-limit-state-changed", [&] { return "q changed although the projection limit was exceeded: " + c.desc; }, c.rp);
        } else if (k < 0) run.expect(!res.getProjectionLimitExceeded(), "projectQ-projection-limit-false-positive", [&] { return "limit reported exceeded for entry norm " + verif::fmtd((double)entry.all) + ": " + c.desc; }, c.rp);
    }
    if (!success) { run.count(std::string("Q:failed:") + what); return; }
    run.count("Q:success");
    const bool finite = allFinite(after.getQ());
    if (!run.expect(finite, "projectQ-success-with-non-finite-q", [&] { return "Succeeded but q contains NaN/Inf: " + c.desc; }, c.rp)) return;
    const Norms ex = qNorms(S, after, c.opt.inf);
    run.residual("Q:weighted-perr-norm/accuracy", (double)((ex.weighted - NORM_ABS) / c.acc), 1 + NORM_REL, c.where, c.rp, sfx);
    run.residual("Q:quaternion-qerr-norm/accuracy", (double)((ex.quat - NORM_ABS) / c.acc), 1 + NORM_REL, c.where, c.rp);
    run.residual("Q:quaternion-length-norm/accuracy", (double)((quatLengthNorm(S, after, c.opt.inf) - NORM_ABS) / c.acc), 1 + NORM_REL, c.where, c.rp);
    // reported norms describe the same numbers
    // (ProjectResults' norms are not part of the property: observations only)
    if (!(fabsl(res.getNormOnEntrance() - entry.all) <= 1e-9L * entry.all)) run.count("note:Q-reported-norm-on-entrance-differs-from-recomputed");
    if (!(fabsl(res.getNormOnExit() - ex.all) <= 1e-3L * c.acc)) run.count("note:Q-reported-norm-on-exit-differs-from-recomputed");
    // satisfied on entry and not forced => nothing changes
    const int sat = cmp3(entry.all, c.acc);
    const bool changed = !sameBits(before.getQ(), after.getQ());
    if (!c.opt.forced) {
        if (sat < 0) { run.count("Q:entry-satisfied-unforced"); run.expect(!changed && !res.getAnyChangeMade(), "projectQ-changed-a-satisfied-state", [&] { return "entry norm " + verif::fmtd((double)entry.all) + " <= accuracy, not forced, but q changed: " + c.desc; }, c.rp); }
        else if (sat == 0) run.count("unspecified:Q-entry-norm-at-threshold");
    } else if (sat < 0) run.count("Q:entry-satisfied-forced");
    if (!res.getAnyChangeMade()) run.expect(!changed, "projectQ-anyChangeMade-false-but-q-changed", [&] { return c.desc; }, c.rp);
    if (changed) run.count("Q:changed");
    // discriminating band for the choice of norm
    if (!c.opt.forced) {
        const Norms& eo = entryOther;
        if (c.opt.inf ? (eo.all <= c.acc && entry.all > c.acc) : (entry.all <= c.acc && eo.all > c.acc)) run.count("Q:entry-between-rms-and-inf");
    }
}

static void judgeU(CallCtx& c, const Snap& before, LD entry, LD entryOther, const State& after, const ProjectResults& res, bool threw, const std::string& what) {
    verif::Run& run = c.run; const Sut& S = c.S;
    run.count(std::string("U:status:") + (threw ? "threw" : statusName(res.getExitStatus())));
    bool presSame = true; for (int i : S.prescU) presSame = presSame && sameBits(before.getU()[i], after.getU()[i]);
    run.expect(presSame, "projectU-modified-prescribed-u", [&] { return "a prescribed u changed: " + c.desc; }, c.rp);
    run.expect(sameBits(before.getQ(), after.getQ()) && sameBits(before.getTime(), after.getTime()), "projectU-modified-q-or-time", [&] { return "q or time changed: " + c.desc; }, c.rp);
    if (threw) return;
    const bool success = res.getExitStatus() == ProjectResults::Succeeded;
    if (std::isfinite(c.opt.limit)) {
        const int k = cmp3(entry, c.opt.limit);
        if (k > 0) {
            run.count("U:limit-exceeded");
            run.expect(!success && res.getProjectionLimitExceeded() && res.getExitStatus() == ProjectResults::FailedToConverge, "projectU-projection-limit-not-honoured", [&] { return "entry norm " + verif::fmtd((double)entry) + " > limit but status " + statusName(res.getExitStatus()) + ": " + c.desc; }, c.rp);
            run.expect(sameBits(before.getU(), after.getU()), "projectU-projection-limit-state-changed", [&] { return c.desc; }, c.rp);
        } else if (k < 0) run.expect(!res.getProjectionLimitExceeded(), "projectU-projection-limit-false-positive", [&] { return c.desc; }, c.rp);
    }
    if (!success) { run.count(std::string("U:failed:") + what); return; }
    run.count("U:success");
    if (!run.expect(allFinite(after.getU()), "projectU-success-with-non-finite-u", [&] { return "Succeeded but u contains NaN/Inf: " + c.desc; }, c.rp)) return;
    const LD ex = uNorm(after, c.opt.inf);
    run.residual("U:weighted-verr-norm/accuracy", (double)((ex - NORM_ABS) / c.acc), 1 + NORM_REL, c.where, c.rp);
    if (!(fabsl(res.getNormOnEntrance() - entry) <= 1e-9L * entry)) run.count("note:U-reported-norm-on-entrance-differs-from-recomputed");
    if (!(fabsl(res.getNormOnExit() - ex) <= 1e-3L * c.acc)) run.count("note:U-reported-norm-on-exit-differs-from-recomputed");
    const int sat = cmp3(entry, c.acc);
    const bool changed = !sameBits(before.getU(), after.getU());
    if (!c.opt.forced) {
        if (sat < 0) { run.count("U:entry-satisfied-unforced"); run.expect(!changed && !res.getAnyChangeMade(), "projectU-changed-a-satisfied-state", [&] { return "entry norm " + verif::fmtd((double)entry) + " <= accuracy, not forced, but u changed: " + c.desc; }, c.rp); }
        else if (sat == 0) run.count("unspecified:U-entry-norm-at-threshold");
        const LD eo = entryOther;
        if (c.opt.inf ? (eo <= c.acc && entry > c.acc) : (entry <= c.acc && eo > c.acc)) run.count("U:entry-between-rms-and-inf");
    } else if (sat < 0) run.count("U:entry-satisfied-forced");
    if (!res.getAnyChangeMade()) run.expect(!changed, "projectU-anyChangeMade-false-but-u-changed", [&] { return c.desc; }, c.rp);
    if (!changed) return;
    run.count("U:changed");
}

// weighted minimum norm of a u correction: E du must lie in range(E^-1 A_free^T);  E^-1 = max(1/Wu, |u_entry|) (documented
// relative scaling) or 1/Wu (the documented alternative "otherwise") -- the better of the two readings is judged.
static void judgeMinNormU(CallCtx& c, const std::vector<std::vector<LD> >& A, const Vector& uEntry, const State& after) {
    const Sut& S = c.S; const int nu = uEntry.size();
    std::vector<char> pres(nu, 0); for (int i : S.prescU) pres[i] = 1;
    const Vector& w = after.getUWeights();
    LD best = INFINITY; int bestReading = -1;
    for (int reading = 0; reading < 2; ++reading) {
        std::vector<LD> einv, y; std::vector<int> idx;
        for (int i = 0; i < nu; ++i) if (!pres[i]) { idx.push_back(i); LD e = 1 / (LD)w[i]; if (reading == 0 && fabsl(uEntry[i]) * (LD)w[i] > 1) e = fabsl(uEntry[i]); einv.push_back(e); }
        for (size_t k = 0; k < idx.size(); ++k) y.push_back(((LD)uEntry[idx[k]] - (LD)after.getU()[idx[k]]) / einv[k]);
        std::vector<std::vector<LD> > cols;
        for (auto& row : A) { std::vector<LD> col(idx.size()); for (size_t k = 0; k < idx.size(); ++k) col[k] = einv[k] * row[idx[k]]; cols.push_back(col); }
        LD sc = 0; for (LD e : einv) sc = std::max(sc, 1 / e);
        LD r = outsideSpan(cols, y, MINNORM_FLOOR * sc * (1 + uEntry.normInf()));
        if (r < best) { best = r; bestReading = reading; }
    }
    c.run.count(bestReading == 0 ? "U:min-norm-matches-relative-scaling" : "U:min-norm-matches-absolute-scaling");
    c.run.residual("U:correction-outside-range(E^-2*A^T)", (double)best, TOL_MINNORM, c.where, c.rp);
}

// ---------------------------------------------------------------- perturbations
enum DirKind { DNone, DQuatScale, DGeneric, DQBasis, DUBasis };
struct Dir { int kind, index; };
static std::string dirName(const Dir& d) { switch (d.kind) { case DNone: return "none"; case DQuatScale: return "quat-scale"; case DGeneric: return "generic"; case DQBasis: return "q" + std::to_string(d.index); default: return "u" + std::to_string(d.index); } }
static void perturb(const Sut& S, State& s, const Dir& d, Real size, int vs) {
    switch (d.kind) {
        case DNone: break;
        case DQuatScale: { int k = 0; for (int q0 : S.quatStart) { const Real f = 1 + size * ((k++ % 2) ? -0.7 : 1.0); for (int i = 0; i < 4; ++i) s.updQ()[q0 + i] *= f; } break; }
        case DGeneric: for (int i = 0; i < s.getNQ(); ++i) s.updQ()[i] += size * mb::qv(vs + 1, i + 3); for (int i = 0; i < s.getNU(); ++i) s.updU()[i] += size * mb::uv(vs + 1, i + 5); break;
        case DQBasis: s.updQ()[d.index] += size; break;
        case DUBasis: s.updU()[d.index] += size; break;
    }
}

// ---------------------------------------------------------------- one (system, presc, weights) item: all perturbations x options x accuracies
struct Space { std::vector<Real> sizes; std::vector<Opt> opts; std::vector<Real> accs; bool basisDirs;
               std::vector<Real> basisSizes; std::vector<Opt> basisOpts; std::vector<Real> basisAccs; };   // the sub-lists used with the q/u basis directions

static void runItem(verif::Run& run, Sut& S, State& base, const Space& sp, int vs, const std::string& itemDesc) {
    mb::Model& M = *S.M;
    const int nq = base.getNQ(), nu = base.getNU();
    std::vector<Dir> dirs = {{DNone, 0}};
    if (!S.quatStart.empty()) dirs.push_back({DQuatScale, 0});
    dirs.push_back({DGeneric, 0});
    if (sp.basisDirs) { for (int i = 0; i < nq; ++i) dirs.push_back({DQBasis, i}); for (int j = 0; j < nu; ++j) dirs.push_back({DUBasis, j}); }
    std::map<uint64_t, std::vector<std::vector<LD> > > Acache;
    // for section "linear": constant position Jacobian by differencing qerr
    std::vector<std::vector<LD> > Aq;
    if (S.linearInQ) {
        State t = base; M.system.realize(t, Stage::Position); const Vector e0 = t.getQErr(); const int m = e0.size();
        Aq.assign(m, std::vector<LD>(nq));
        for (int j = 0; j < nq; ++j) { t.updQ() = base.getQ(); t.updQ()[j] += 1; M.system.realize(t, Stage::Position); for (int i = 0; i < m; ++i) Aq[i][j] = (LD)t.getQErr()[i] - (LD)e0[i]; }
        t.updQ() = base.getQ(); for (int j = 0; j < nq; ++j) t.updQ()[j] += mb::qv(vs, j + 1);
        M.system.realize(t, Stage::Position);
        LD worst = 0; for (int i = 0; i < m; ++i) { LD p = e0[i]; for (int j = 0; j < nq; ++j) p += Aq[i][j] * (LD)mb::qv(vs, j + 1); worst = std::max(worst, fabsl(p - (LD)t.getQErr()[i])); }
        if (!run.expect(worst <= 1e-12L, "harness-precondition:position-errors-linear-in-q", [&] { return "perr is not linear in q (" + verif::fmtd((double)worst) + "): " + itemDesc; })) return;
    }
    Vector noEst;
    int64_t combo = 0;
    for (const Dir& d : dirs) {
      const bool basis = d.kind >= DQBasis;
      const std::vector<Real>& sizes = basis ? sp.basisSizes : sp.sizes;
      const std::vector<Opt>& opts = basis ? sp.basisOpts : sp.opts;
      const std::vector<Real>& accs = basis ? sp.basisAccs : sp.accs;
      for (size_t zi = 0; zi < sizes.size(); ++zi) {
        if (d.kind == DNone && zi > 0) continue;
        const Real size = sizes[zi];
        for (size_t oi = 0; oi < opts.size(); ++oi) for (size_t ai = 0; ai < accs.size(); ++ai, ++combo) {
            const Opt& opt = opts[oi];
            const Real accArg = accs[ai], acc = accArg > 0 ? accArg : 1e-4;   // documented default accuracy
            const std::string desc = itemDesc + " dir=" + dirName(d) + " size=" + verif::str(size) + " opt=" + optName(opt) + " acc=" + verif::str(accArg) + " combo=" + std::to_string(combo);
            auto where = [&] { return desc; };
            auto rp = [&] { return run.replayHeader() + desc + "\n"; };
            CallCtx c{run, S, desc, opt, acc, where, rp};
            run.evaluationDistinct(d.kind != DNone || opt.forced);
            State s = base;
            perturb(S, s, d, size, vs);
            try {
                if (opt.api == 1) {
                    // ------------------------------------------------ System::project(state, accuracy)
                    M.system.realize(s, Stage::Time);
                    State probe = s; M.system.realize(probe, Stage::Time); M.system.prescribeQ(probe); M.system.realize(probe, Stage::Position);
                    const Norms entryQ = qNorms(S, probe, false);
                    const Vector q0 = probe.getQ();
                    bool threw = false; std::string msg;
                    try { M.system.project(s, accArg); } catch (const std::exception& e) { threw = true; msg = e.what(); }
                    run.count(threw ? "project():threw" : "project():returned");
                    if (threw) { if (run.verbose) printf("  %s: project() threw\n", desc.c_str()); continue; }
                    if (!run.expect(allFinite(s.getQ()) && allFinite(s.getU()), "project()-returned-non-finite-state", [&] { return desc; }, rp)) continue;
                    run.expect(s.getSystemStage() >= Stage::Velocity, "project()-result-not-realized-to-velocity", [&] { return desc; }, rp);
                    M.system.realize(s, Stage::Velocity);
                    const Norms ex = qNorms(S, s, false);
                    run.residual("project():weighted-perr-norm/accuracy", (double)((ex.weighted - NORM_ABS) / acc), 1 + NORM_REL, where, rp, S.touchesQuat ? "constraint-on-quaternion-component" : "");
                    run.residual("project():quaternion-length-norm/accuracy", (double)((std::max(ex.quat, quatLengthNorm(S, s, false)) - NORM_ABS) / acc), 1 + NORM_REL, where, rp);
                    run.residual("project():weighted-verr-norm/accuracy", (double)((uNorm(s, false) - NORM_ABS) / acc), 1 + NORM_REL, where, rp);
                    bool pres = true;
                    for (size_t k = 0; k < S.prescQ.size(); ++k) pres = pres && sameBits(s.getQ()[S.prescQ[k]], S.lockedQ[(int)k]);
                    for (size_t k = 0; k < S.prescU.size(); ++k) pres = pres && sameBits(s.getU()[S.prescU[k]], S.lockedU[(int)k]);
                    run.expect(pres, "project()-prescribed-values-not-kept", [&] { return "locked q/u differ from their prescribed values: " + desc; }, rp);
                    if (cmp3(entryQ.all, acc) < 0) run.expect(sameBits(q0, s.getQ()), "project()-changed-satisfied-q", [&] { return desc; }, rp);
                    run.outcome(verif::hashMix(7, verif::hashPod((float)ex.all)));
                    continue;
                }
                // ---------------------------------------------------- advanced projectQ / projectU
                M.system.realize(s, Stage::Position);
                const Snap beforeQ = snap(s);
                const Norms entryQ = qNorms(S, s, opt.inf), entryQOther = qNorms(S, s, !opt.inf);
                ProjectResults rq, ru; bool threwQ = false, threwU = false;
                if (opt.api == 2) {
                    // twin with DontThrow decides what the throwing call has to do
                    State tw = s; M.system.realize(tw, Stage::Position); ProjectResults rt; M.system.projectQ(tw, noEst, makeOptions(opt, accArg, true), rt);
                    try { M.system.projectQ(s, noEst, makeOptions(opt, accArg, false), rq); } catch (const std::exception&) { threwQ = true; }
                    run.expect(threwQ == (rt.getExitStatus() != ProjectResults::Succeeded), "projectQ-throws-iff-DontThrow-twin-fails", [&] { return std::string("threw=") + (threwQ ? "1" : "0") + " twin status " + statusName(rt.getExitStatus()) + ": " + desc; }, rp);
                    if (!threwQ) run.expect(sameBits(tw.getQ(), s.getQ()), "projectQ-throwing-and-DontThrow-results-differ", [&] { return desc; }, rp);
                    run.count(threwQ ? "Q:threw" : "Q:throwing-variant-returned");
                    if (threwQ) { s = tw; M.system.realize(s, Stage::Position); }   // continue the velocity stage from the twin's (failed) result
                } else {
                    try { M.system.projectQ(s, noEst, makeOptions(opt, accArg, true), rq); } catch (const std::exception& e) { threwQ = true; run.count("unspecified:exception-with-DontThrow(Q)"); if (run.verbose) printf("  %s: projectQ threw %s\n", desc.c_str(), e.what()); }
                    judgeQ(c, beforeQ, entryQ, entryQOther, s, rq, threwQ, dirName(d).substr(0, 1) + "/size" + verif::str(size));
                    if (!threwQ && run.verbose && rq.getExitStatus() != ProjectResults::Succeeded) printf("  %s: Q status %s entry %.3g exit %.3g its %d\n", desc.c_str(), statusName(rq.getExitStatus()), (double)entryQ.all, rq.getNormOnExit(), rq.getNumIterations());
                    // linear-in-q: weighted minimum norm of the q correction
                    if (S.linearInQ && !threwQ && rq.getExitStatus() == ProjectResults::Succeeded && !sameBits(beforeQ.getQ(), s.getQ())) {
                        std::vector<char> pres(nq, 0); for (int i : S.prescQ) pres[i] = 1;
                        std::vector<int> idx; for (int i = 0; i < nq; ++i) if (!pres[i]) idx.push_back(i);
                        const Vector& w = s.getUWeights();   // N = I in this section: Wq = Wu
                        std::vector<LD> y; for (int i : idx) y.push_back(((LD)beforeQ.getQ()[i] - (LD)s.getQ()[i]) * (LD)w[i]);
                        std::vector<std::vector<LD> > cols; for (auto& row : Aq) { std::vector<LD> col; for (int i : idx) col.push_back(row[i] / (LD)w[i]); cols.push_back(col); }
                        LD wmax = 0; for (int i : idx) wmax = std::max<LD>(wmax, w[i]);
                        run.residual("Q:linear:correction-outside-range(Wq^-2*A^T)", (double)outsideSpan(cols, y, MINNORM_FLOOR * wmax * (1 + beforeQ.getQ().normInf())), TOL_MINNORM, where, rp);
                        // and the correction accounts exactly for the change of the errors (linearity, harness self-check)
                        run.count("Q:linear:min-norm-checked");
                    }
                }
                bool velOk = true;
                try { M.system.realize(s, Stage::Velocity); } catch (const std::exception&) { velOk = false; run.count("unspecified:realize-velocity-threw-after-projectQ"); }
                if (!velOk) continue;
                const Snap beforeU = snap(s);
                const LD entryU = uNorm(s, opt.inf), entryUOther = uNorm(s, !opt.inf);
                if (opt.api == 2) {
                    State tw = s; M.system.realize(tw, Stage::Velocity); ProjectResults rt; M.system.projectU(tw, noEst, makeOptions(opt, accArg, true), rt);
                    try { M.system.projectU(s, noEst, makeOptions(opt, accArg, false), ru); } catch (const std::exception&) { threwU = true; }
                    run.expect(threwU == (rt.getExitStatus() != ProjectResults::Succeeded), "projectU-throws-iff-DontThrow-twin-fails", [&] { return std::string("threw=") + (threwU ? "1" : "0") + " twin status " + statusName(rt.getExitStatus()) + ": " + desc; }, rp);
                    if (!threwU) run.expect(sameBits(tw.getU(), s.getU()), "projectU-throwing-and-DontThrow-results-differ", [&] { return desc; }, rp);
                    run.count(threwU ? "U:threw" : "U:throwing-variant-returned");
                } else {
                    try { M.system.projectU(s, noEst, makeOptions(opt, accArg, true), ru); } catch (const std::exception& e) { threwU = true; run.count("unspecified:exception-with-DontThrow(U)"); if (run.verbose) printf("  %s: projectU threw %s\n", desc.c_str(), e.what()); }
                    judgeU(c, beforeU, entryU, entryUOther, s, ru, threwU, dirName(d).substr(0, 1) + "/size" + verif::str(size));
                    if (!threwU && run.verbose && ru.getExitStatus() != ProjectResults::Succeeded) printf("  %s: U status %s entry %.3g exit %.3g its %d\n", desc.c_str(), statusName(ru.getExitStatus()), (double)entryU, ru.getNormOnExit(), ru.getNumIterations());
                    if (!threwU && ru.getExitStatus() == ProjectResults::Succeeded && !sameBits(beforeU.getU(), s.getU())) {
                        if (!S.linearInU) run.count("U:min-norm-not-judged(nonlinear-in-u)");
                        else {
                            uint64_t h = 1469598103934665603ULL; for (int i = 0; i < nq; ++i) h = verif::hashPod(beforeU.getQ()[i], h);
                            auto it = Acache.find(h);
                            if (it == Acache.end()) it = Acache.emplace(h, velocityRows(S, s)).first; else run.count("U:velocity-rows-cache-hit");
                            judgeMinNormU(c, it->second, beforeU.getU(), s);
                        }
                    }
                }
                run.outcome(verif::hashMix(verif::hashMix((uint64_t)(threwQ ? 9 : rq.getExitStatus()) * 16 + (threwU ? 9 : ru.getExitStatus()), (uint64_t)(threwQ ? 0 : rq.getNumIterations()) * 32 + (threwU ? 0 : ru.getNumIterations())), verif::hashPod((float)entryQ.all)));
            } catch (const std::exception& e) {
                run.count("unspecified:exception-outside-projection"); if (run.verbose) printf("  %s: exception %s\n", desc.c_str(), e.what());
            }
        }
      }
    }
}

// ---------------------------------------------------------------- building a system + base state
// presc: 0 none, 1 body `pb` locked at Position level (q prescribed, u = 0 prescribed), 2 body `vb` locked at Velocity level (u prescribed)
static bool prepareBase(verif::Run& run, Sut& S, int presc, int lockBodyP, int lockBodyV, int weights, int vs, State& base, std::string& err) {
    mb::Model& M = *S.M;
    State s = mb::makeState(M, 1, vs);
    s.setTime(0.3);
    S.quatStart.clear(); S.prescQ.clear(); S.prescU.clear();
    for (size_t b = 0; b < M.bodies.size(); ++b) if (!M.euler && (M.specs[b].kind == mb::KBall || M.specs[b].kind == mb::KFree)) S.quatStart.push_back((int)M.bodies[b].getFirstQIndex(s));
    if (presc == 1) {
        const MobilizedBody& b = M.bodies[lockBodyP]; b.lock(s, Motion::Position);
        for (int i = 0; i < b.getNumQ(s); ++i) S.prescQ.push_back((int)b.getFirstQIndex(s) + i);
        for (int i = 0; i < b.getNumU(s); ++i) S.prescU.push_back((int)b.getFirstUIndex(s) + i);
    } else if (presc == 2) {
        const MobilizedBody& b = M.bodies[lockBodyV]; b.lock(s, Motion::Velocity);
        for (int i = 0; i < b.getNumU(s); ++i) S.prescU.push_back((int)b.getFirstUIndex(s) + i);
    }
    M.system.realize(s, Stage::Instance);
    applyWeights(M, s, weights);
    S.lockedQ.resize((int)S.prescQ.size()); S.lockedU.resize((int)S.prescU.size());
    for (size_t k = 0; k < S.prescQ.size(); ++k) S.lockedQ[(int)k] = s.getQ()[S.prescQ[k]];
    for (size_t k = 0; k < S.prescU.size(); ++k) S.lockedU[(int)k] = presc == 1 ? 0 : s.getU()[S.prescU[k]];   // Position-level lock prescribes u = 0
    // The assembly of the base state is itself a judged case: System::projectQ / projectU (accuracy 1e-10, RMS, throwing) from a generic state.
    const Real tol = 1e-10;
    const std::string sfx = S.touchesQuat ? "constraint-on-quaternion-component" : "";
    auto where = [&] { return "assembly of the base state from the generic state: " + S.name; };
    const Vector qGeneric = s.getQ(), uGeneric = s.getU();
    run.evaluationDistinct(true);
    try { M.system.realize(s, Stage::Time); M.system.projectQ(s, tol); } catch (const std::exception& e) { err = std::string("projectQ threw: ") + e.what(); run.count("assemble:projectQ-threw"); return false; }
    run.count("assemble:projectQ-returned");
    if (!run.expect(allFinite(s.getQ()), "assemble:projectQ()-returned-non-finite-q", where)) { err = "non-finite q after projection"; return false; }
    M.system.realize(s, Stage::Position);
    {
        const Norms n = qNorms(S, s, false);
        bool good = run.residual("assemble:Q:weighted-perr-norm/accuracy", (double)((n.weighted - NORM_ABS) / tol), 1 + NORM_REL, where, nullptr, sfx);
        good = run.residual("assemble:Q:quaternion-length-norm/accuracy", (double)((std::max(n.quat, quatLengthNorm(S, s, false)) - NORM_ABS) / tol), 1 + NORM_REL, where) && good;
        bool pres = true; for (size_t k = 0; k < S.prescQ.size(); ++k) pres = pres && sameBits(s.getQ()[S.prescQ[k]], S.lockedQ[(int)k]);
        run.expect(pres, "assemble:projectQ()-prescribed-q-not-kept", where);
        if (!good) { err = "position manifold not reached"; return false; }
    }
    try { M.system.projectU(s, tol); } catch (const std::exception& e) { err = std::string("projectU threw: ") + e.what(); run.count("assemble:projectU-threw"); return false; }
    run.count("assemble:projectU-returned");
    if (!run.expect(allFinite(s.getU()), "assemble:projectU()-returned-non-finite-u", where)) { err = "non-finite u after projection"; return false; }
    M.system.realize(s, Stage::Velocity);
    {
        bool good = run.residual("assemble:U:weighted-verr-norm/accuracy", (double)((uNorm(s, false) - NORM_ABS) / tol), 1 + NORM_REL, where);
        bool pres = true; for (size_t k = 0; k < S.prescU.size(); ++k) pres = pres && sameBits(s.getU()[S.prescU[k]], S.lockedU[(int)k]);
        run.expect(pres, "assemble:projectU()-prescribed-u-not-kept", where);
        if (!good) { err = "velocity manifold not reached"; return false; }
    }
    // a base far from the generic start (numerically rank-deficient Jacobians make the library take steps of 1e14 and still
    // land on the manifold) is legal but useless as an "assembled state near the start": skipped and counted
    if (!((s.getQ() - qGeneric).normInf() <= 3) || !((s.getU() - uGeneric).normInf() <= 10)) { err = "assembly moved the state unreasonably far"; return false; }
    // vacuity / self-check: the free index lists of the library agree with the harness's idea of what is prescribed
    int nqUsed = 0; for (auto& b : M.bodies) nqUsed += b.getNumQ(s);   // with Euler angles the 4th quaternion slot stays allocated but unused
    run.expect((int)M.matter.getFreeQIndex(s).size() == nqUsed - (int)S.prescQ.size() && (int)M.matter.getFreeUIndex(s).size() == s.getNU() - (int)S.prescU.size(), "harness-precondition:lock-makes-coordinates-prescribed", [&] { return S.name; });
    base = s;
    return true;
}

int main(int argc, char** argv) {
    verif::Run run("C09", argc, argv);
    run.setDeadline(900, 3600);
    if (const char* mv = getenv("C09_MAXV")) run.maxViolsPerKey = atoi(mv);
    const bool th = run.thorough();
    const int vs = (int)(((run.seed % 3) + 3) % 3);
    run.rule = "E3. systems: constraint sets over the 20 canonical instances of each of 2 instance tables (as C08) on 3 host trees x quaternion/Euler x prescribed pattern {none, R1 locked at Position level, R0 locked at Velocity level} x weight pattern {unit, non-uniform u/qerr/uerr weights (, non-uniform u weights only)}; base = generic state (value set seed%3, t=0.3) assembled with the library's own projection to 1e-10 (unsatisfiable ones skipped and counted). "
               "section singles: every singleton x perturbation {none, all quaternions scaled, generic q+u, every q basis direction, every u basis direction} x size {1e-6,1e-3,1e-1} x option list x accuracy {1e-3,1e-6,1e-10,default}. section pairs: every unordered pair and duplicated pair x {none, quaternion scaling, generic} x sizes x options x accuracies. "
               "section linear: 8 constraints linear in q (ConstantCoordinate, linear CoordinateCoupler, PointInPlane on translation-only paths, PrescribedMotion) as singletons, pairs and duplicated pairs on two trees of Translation/Slider/Pin/Cylinder mobilizers x 3 prescribed patterns x 3 weight patterns x {none, generic, every q basis direction} x sizes x options x accuracies. "
               "option list quick: DontThrow x {forced} x {inf}; LocalOnly; LocalOnly+forced+inf; projection limit 1e-2 (plain / forced+inf); throwing twin; System::project(). thorough: full product forced x inf x LocalOnly x limit, throwing twins forced x inf, System::project(); all 3 value sets. each case = one projectQ followed by one projectU (or one project()); distinct by construction; non-trivial = perturbed or forced.";
    run.assumptions = {"continuous values only from the fixed tables of engine/models.h, engine/consmodels.h and this harness", "base states are assembled by the library's own projection (tolerance 1e-10) and verified by cons::projectState",
        "norm = max(norm(W_err.*err), norm(quaternion length errors)), RMS or infinity; recomputed in long double; accepted if <= accuracy*(1+1e-9)+1e-13",
        "thresholds the library evaluates itself (already satisfied, projection limit) are judged three-valued with a relative band of 1e-9",
        "u relative scaling: the better of the two documented readings (max(1/Wu,|u|) for every u / 1/Wu) is judged", "quaternion entries of the q-error weights are left at 1",
        "failure statuses and documented exceptions are allowed outcomes (counted)"};
    std::vector<int> valueSets = {vs};
    const std::vector<Real> sizes = {1e-6, 1e-3, 1e-1};
    const std::vector<Real> accs = {1e-3, 1e-6, 1e-10, -1};
    int64_t onlyLo = 0, onlyHi = INT64_MAX;
    if (const char* o = getenv("C09_ONLY")) { sscanf(o, "%ld:%ld", &onlyLo, &onlyHi); run.exhaustive = false; }
    const bool skipSingles = getenv("C09_SKIP_SINGLES"), skipPairs = getenv("C09_SKIP_PAIRS"), skipLinear = getenv("C09_SKIP_LINEAR");

    struct SetDef { std::vector<int> inst; };
    auto runSection = [&](const std::string& name, const std::vector<SetDef>& sets, const std::vector<int>& lists, const std::vector<int>& prescs, const std::vector<int>& weightPats, const Space& sp) {
        verif::Odometer od;
        od.dim("presc", (int64_t)prescs.size()); od.dim("weights", (int64_t)weightPats.size()); od.dim("coord", 2); od.dim("host", 3); od.dim("set", (int64_t)sets.size()); od.dim("list", (int64_t)lists.size()); od.dim("valueset", (int64_t)valueSets.size());
        run.parallel(name, od.size(), [&](int64_t idx) {
            if (idx < onlyLo || idx >= onlyHi) return;
            auto d = od.digits(idx);
            const int presc = prescs[d[0]], wp = weightPats[d[1]], euler = d[2], host = d[3], list = lists[d[5]], vset = valueSets[d[6]];
            Sut S; S.M = mb::build(cons::hostSpecs(host), euler != 0);
            std::string setName;
            for (int i : sets[d[4]].inst) {
                cons::ConsSpec cs = instanceSpec(i, list);
                if (!cons::legalCombination(cs, host, euler != 0)) { run.count("skipped:illegal-instance"); return; }
                cons::Added a = cons::addConstraint(*S.M, cs, host);
                S.touchesQuat = S.touchesQuat || a.touchesQuaternionCoordinate;
                if (cs.type == cons::CSpeedCoupler && cs.var != 0) S.linearInU = false;
                setName += (setName.empty() ? "" : ",") + cs.str();
            }
            S.name = "host=" + std::to_string(host) + (euler ? " euler" : " quat") + " list=" + std::to_string(list) + " set={" + setName + "} presc=" + std::to_string(presc) + " weights=" + std::to_string(wp) + " vs=" + std::to_string(vset) + " [" + od.describe(idx) + "]";
            State base; std::string err;
            bool ok = false;
            try { ok = prepareBase(run, S, presc, 1, 0, wp, vset, base, err); } catch (const std::exception& e) { err = e.what(); }
            if (!ok) { run.count("skipped:base-state-not-assemblable"); run.count("skipped:base:presc" + std::to_string(presc) + ":" + err.substr(0, 60)); if (getenv("C09_SHOWSKIP") && err.find("Exception") == std::string::npos) fprintf(stderr, "SKIP %s : %s\n", S.name.c_str(), err.c_str()); if (run.verbose) printf("base state failed: %s\n", err.c_str()); return; }
            run.count("items-run:" + name);
            if (S.touchesQuat) run.count("items:constraint-on-quaternion-component");
            runItem(run, S, base, sp, vset, S.name);
            if (idx % 211 == 0) run.sample(S.name);
        });
    };

    std::vector<SetDef> singles, pairs;
    for (int i = 0; i < NINST; ++i) singles.push_back({{i}});
    for (int i = 0; i < NINST; ++i) for (int j = i; j < NINST; ++j) pairs.push_back({{i, j}});
    const std::vector<Opt> opts = optList(th);
    std::vector<Opt> core; for (int inf = 0; inf < 2; ++inf) for (int f = 0; f < 2; ++f) core.push_back({0, f != 0, inf != 0, false, (double)Infinity});
    const std::vector<Real> accs3 = {1e-3, 1e-6, 1e-10};
    if (!skipSingles) runSection("singles", singles, {0, 1}, {0, 1, 2}, th ? std::vector<int>{0, 1, 2} : std::vector<int>{0, 1},
                                 th ? Space{sizes, opts, accs, true, sizes, opts, accs} : Space{sizes, opts, accs, true, sizes, core, accs3});
    if (!skipPairs) runSection("pairs", pairs, th ? std::vector<int>{0, 1} : std::vector<int>{0}, th ? std::vector<int>{0, 1, 2} : std::vector<int>{0, 1}, {0, 1}, Space{sizes, opts, accs, false, {}, {}, {}});

    // ------------------------------------------------------------ section "linear"
    if (!skipLinear) {
        const int NL = 8;
        std::vector<SetDef> lsets; for (int i = 0; i < NL; ++i) lsets.push_back({{i}}); for (int i = 0; i < NL; ++i) for (int j = i; j < NL; ++j) lsets.push_back({{i, j}});
        verif::Odometer od;
        od.dim("presc", 3); od.dim("weights", 3); od.dim("variant", 2); od.dim("set", (int64_t)lsets.size()); od.dim("valueset", (int64_t)valueSets.size());
        std::vector<Opt> lopts;
        for (int inf = 0; inf < 2; ++inf) for (int f = 0; f < 2; ++f) lopts.push_back({0, f != 0, inf != 0, false, (double)Infinity});
        lopts.push_back({0, true, false, true, (double)Infinity});
        Space sp{sizes, lopts, accs3, true, sizes, lopts, accs3};
        run.parallel("linear", od.size(), [&](int64_t idx) {
            if (idx < onlyLo || idx >= onlyHi) return;
            auto d = od.digits(idx);
            const int presc = d[0], wp = d[1], variant = d[2], vset = valueSets[d[4]];
            std::vector<mb::BodySpec> v(5);
            v[0].kind = mb::KTranslation; v[0].frames = variant ? 2 : 3; v[0].mass = 0; v[0].parent = -1;
            v[1].kind = mb::KSlider; v[1].frames = 1; v[1].mass = 1; v[1].parent = 0;
            v[2].kind = mb::KPin; v[2].frames = 2; v[2].mass = 2; v[2].parent = -1;
            v[3].kind = mb::KCylinder; v[3].frames = 3; v[3].mass = 0; v[3].parent = 2;
            v[4].kind = mb::KTranslation; v[4].frames = 2; v[4].mass = 1; v[4].parent = 1; v[4].dir = variant;
            Sut S; S.M = mb::build(v, false); S.linearInQ = true;
            mb::Model& M = *S.M;
            std::string setName;
            for (int i : lsets[d[3]].inst) {
                switch (i) {
                    case 0: Constraint::ConstantCoordinate(M.bodies[0], MobilizerQIndex(1), 0.25); break;
                    case 1: Constraint::ConstantCoordinate(M.bodies[3], MobilizerQIndex(0), -0.3); break;
                    case 2: { Array_<MobilizedBodyIndex> b; Array_<MobilizerQIndex> q; b.push_back(M.bodies[0].getMobilizedBodyIndex()); q.push_back(MobilizerQIndex(0)); b.push_back(M.bodies[2].getMobilizedBodyIndex()); q.push_back(MobilizerQIndex(0)); b.push_back(M.bodies[4].getMobilizedBodyIndex()); q.push_back(MobilizerQIndex(2));
                        Constraint::CoordinateCoupler(M.matter, cons::makeCouplerFunction(3, 0, false), b, q); break; }
                    case 3: { Array_<MobilizedBodyIndex> b; Array_<MobilizerQIndex> q; b.push_back(M.bodies[1].getMobilizedBodyIndex()); q.push_back(MobilizerQIndex(0)); b.push_back(M.bodies[3].getMobilizedBodyIndex()); q.push_back(MobilizerQIndex(1));
                        Constraint::CoordinateCoupler(M.matter, cons::makeCouplerFunction(2, 0, false), b, q); break; }
                    case 4: Constraint::PointInPlane(M.matter.updGround(), cons::axis1(2), 0.15, M.bodies[0], cons::station2(0)); break;
                    case 5: Constraint::PointInPlane(M.matter.updGround(), cons::axis2(1), -0.1, M.bodies[4], cons::station2(2)); break;
                    case 6: Constraint::PointInPlane(M.bodies[0], cons::axis1(2), 0.2, M.bodies[4], cons::station1(1)); break;
                    default: { Vector cf(2); cf[0] = 0.35; cf[1] = -0.1; Constraint::PrescribedMotion(M.matter, new Function::Linear(cf), M.bodies[2].getMobilizedBodyIndex(), MobilizerQIndex(0)); break; }
                }
                setName += (setName.empty() ? "L" : ",L") + std::to_string(i);
            }
            S.name = "linear variant=" + std::to_string(variant) + " set={" + setName + "} presc=" + std::to_string(presc) + " weights=" + std::to_string(wp) + " vs=" + std::to_string(vset) + " [" + od.describe(idx) + "]";
            State base; std::string err; bool ok = false;
            try { ok = prepareBase(run, S, presc ? 1 : 0, presc == 1 ? 1 : 0, 0, wp, vset, base, err); } catch (const std::exception& e) { err = e.what(); }
            if (!ok) { run.count("skipped:base-state-not-assemblable"); if (run.verbose) printf("base state failed: %s\n", err.c_str()); return; }
            run.count("items-run:linear");
            runItem(run, S, base, sp, vset, S.name);
            if (idx % 97 == 0) run.sample(S.name);
        });
    }
    return run.finish();
}
