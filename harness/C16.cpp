// C16 -- Realization results depend only on current state values.
// Engine E2: all operation histories (state-taking parameter setters, q/u/t changes, enable/disable,
// lock/unlock, realize(stage), lazy queries) up to a depth are replayed on a State of a real system;
// after every history the full observation vector at Stage::Acceleration must equal, bitwise, that of
// (a) a fresh default State given the same values through the same setters and (b) a copy of the history's State.
#include "Simbody.h"
#include "verif.h"
#include <dirent.h>

using namespace SimTK;

// ---------------------------------------------------------------- fixture
struct Fixture {
    MultibodySystem sys; SimbodyMatterSubsystem matter; GeneralForceSubsystem forces;
    MobilizedBody::Pin b1; MobilizedBody::Slider b2; MobilizedBody::Pin b3;
    Force::Gravity gravity; Force::MobilityLinearSpring spring; Force::MobilityLinearDamper damper;
    Force::MobilityConstantForce constF; Force::MobilityLinearStop stop; Force::LinearBushing bushing;
    Force::DiscreteForces discrete; Force::MobilityDiscreteForce mobDiscrete; Force::TwoPointLinearSpring tpSpring;
    Constraint::ConstantSpeed cspeed; Constraint::Rod rod;
    int variant; State base;
    explicit Fixture(int variant) : matter(sys), forces(sys), variant(variant) {
        Body::Rigid body(MassProperties(1.5, Vec3(0.1, -0.2, 0.05), Inertia(0.4, 0.5, 0.6, 0.01, -0.02, 0.03).shiftFromMassCenter(Vec3(0.1, -0.2, 0.05), 1.5)));
        b1 = MobilizedBody::Pin(matter.Ground(), Transform(Vec3(0, 0, 0)), body, Transform(Vec3(0, 0.7, 0)));
        b2 = MobilizedBody::Slider(b1, Transform(Rotation(0.3, ZAxis), Vec3(0.2, 0, 0)), body, Transform(Vec3(0, 0.4, 0)));
        b3 = MobilizedBody::Pin(matter.Ground(), Transform(Vec3(1, 0, 0)), body, Transform(Vec3(0, 0.5, 0)));
        gravity = Force::Gravity(forces, matter, UnitVec3(0, -1, 0), 9.8);
        spring = Force::MobilityLinearSpring(forces, b1, MobilizerQIndex(0), 10, 0.1);
        damper = Force::MobilityLinearDamper(forces, b2, MobilizerUIndex(0), 2);
        constF = Force::MobilityConstantForce(forces, b1, MobilizerUIndex(0), 1.5);
        stop = Force::MobilityLinearStop(forces, b2, MobilizerQIndex(0), 100, 0.5, -0.2, 0.3);
        bushing = Force::LinearBushing(forces, b1, Transform(Vec3(0.1, 0, 0)), b3, Transform(Vec3(0, 0.1, 0)), Vec6(5, 6, 7, 50, 60, 70), Vec6(0.5, 0.6, 0.7, 1, 2, 3));
        discrete = Force::DiscreteForces(forces, matter);
        mobDiscrete = Force::MobilityDiscreteForce(forces, b3, MobilizerUIndex(0), 0.25);
        tpSpring = Force::TwoPointLinearSpring(forces, matter.Ground(), Vec3(0.5, 1, 0), b2, Vec3(0.1, 0, 0), 30, 0.8);
        cspeed = Constraint::ConstantSpeed(b3, MobilizerUIndex(0), 0.4);
        if (variant == 1) forces.setNumberOfThreads(1);
        if (variant == 2) { rod = Constraint::Rod(b1, Vec3(0.3, 0, 0), b3, Vec3(0, 0.2, 0), 1.1); }   // enabled by default: [realize ; set u] reaches its lazy caches at depth 2
        sys.realizeTopology();
        base = sys.getDefaultState();
        sys.realizeModel(base);     // modelling choices are not part of the histories; all states start here
    }
};

// ---------------------------------------------------------------- operations
struct Op { std::string name; bool isSetter; std::function<void(Fixture&, State&)> f; };
static std::vector<Op> makeOps(int variant) {
    std::vector<Op> ops;
    auto add = [&](const std::string& n, bool setter, std::function<void(Fixture&, State&)> f) { ops.push_back({n, setter, f}); };
    // realization and lazy queries (not setters)
    add("realize(Position)", false, [](Fixture& F, State& s) { F.sys.realize(s, Stage::Position); });
    add("realize(Velocity)", false, [](Fixture& F, State& s) { F.sys.realize(s, Stage::Velocity); });
    add("realize(Dynamics)", false, [](Fixture& F, State& s) { F.sys.realize(s, Stage::Dynamics); });
    add("realize(Acceleration)", false, [](Fixture& F, State& s) { F.sys.realize(s, Stage::Acceleration); });
    add("query.calcM", false, [](Fixture& F, State& s) { F.sys.realize(s, Stage::Position); Matrix M; F.matter.calcM(s, M); });
    add("query.ABI+CBI", false, [](Fixture& F, State& s) { F.sys.realize(s, Stage::Position); F.matter.realizeCompositeBodyInertias(s); F.matter.realizeArticulatedBodyInertias(s); });
    add("query.gravityForces+PE", false, [](Fixture& F, State& s) { F.sys.realize(s, Stage::Position); (void)F.gravity.getBodyForces(s); (void)F.sys.calcPotentialEnergy(s); });
    add("query.calcAccelerationIgnoringConstraints(other forces)", false, [](Fixture& F, State& s) {
        F.sys.realize(s, Stage::Dynamics);
        Vector f(s.getNU()); for (int i = 0; i < s.getNU(); ++i) f[i] = 3 + i;
        Vector_<SpatialVec> Fb(F.matter.getNumBodies(), SpatialVec(Vec3(1, -2, 0.5), Vec3(2, 1, -1)));
        Vector udot; Vector_<SpatialVec> A;
        F.matter.calcAccelerationIgnoringConstraints(s, f, Fb, udot, A);      // a const operator: must leave no trace in the State
    });
    add("query.calcMInv+multiplyByMInv", false, [](Fixture& F, State& s) {
        F.sys.realize(s, Stage::Position); Matrix MI; F.matter.calcMInv(s, MI);
        Vector v(s.getNU()), r; for (int i = 0; i < s.getNU(); ++i) v[i] = 1 - i; F.matter.multiplyByMInv(s, v, r);
    });
    // continuous variables, two values each
    for (int v = 0; v < 2; ++v) {
        std::string sv = std::to_string(v);
        add("setTime#" + sv, true, [v](Fixture&, State& s) { s.setTime(v ? 0.75 : 0.25); });
        add("b1.setQ#" + sv, true, [v](Fixture& F, State& s) { F.b1.setOneQ(s, 0, v ? 0.6 : -0.4); });
        add("b2.setQ#" + sv, true, [v](Fixture& F, State& s) { F.b2.setOneQ(s, 0, v ? 0.35 : 0.1); });   // 0.35 is beyond the stop's upper bound
        add("b1.setU#" + sv, true, [v](Fixture& F, State& s) { F.b1.setOneU(s, 0, v ? 1.5 : -0.5); });
        add("b2.setU#" + sv, true, [v](Fixture& F, State& s) { F.b2.setOneU(s, 0, v ? -0.8 : 0.3); });
        // state-resident force parameters
        add("MobilityLinearSpring.setStiffness#" + sv, true, [v](Fixture& F, State& s) { F.spring.setStiffness(s, v ? 100 : 25); });
        add("MobilityLinearSpring.setQZero#" + sv, true, [v](Fixture& F, State& s) { F.spring.setQZero(s, v ? -0.3 : 0.2); });
        add("MobilityLinearDamper.setDamping#" + sv, true, [v](Fixture& F, State& s) { F.damper.setDamping(s, v ? 7 : 0.5); });
        add("MobilityConstantForce.setForce#" + sv, true, [v](Fixture& F, State& s) { F.constF.setForce(s, v ? -3 : 4); });
        add("MobilityLinearStop.setBounds#" + sv, true, [v](Fixture& F, State& s) { if (v) F.stop.setBounds(s, -0.05, 0.05); else F.stop.setBounds(s, -1, 1); });
        add("Gravity.setMagnitude#" + sv, true, [v](Fixture& F, State& s) { F.gravity.setMagnitude(s, v ? 3.7 : 0); });
        add("Gravity.setDownDirection#" + sv, true, [v](Fixture& F, State& s) { F.gravity.setDownDirection(s, v ? UnitVec3(1, 0, 0) : UnitVec3(0, 0, -1)); });
        add("Gravity.setZeroHeight#" + sv, true, [v](Fixture& F, State& s) { F.gravity.setZeroHeight(s, v ? 2 : -1); });
        add("Gravity.setBodyIsExcluded(b2)#" + sv, true, [v](Fixture& F, State& s) { F.gravity.setBodyIsExcluded(s, F.b2, v != 0); });
        add("Gravity.setGravityVector#" + sv, true, [v](Fixture& F, State& s) { F.gravity.setGravityVector(s, v ? Vec3(0, -1.6, 0) : Vec3(2, 0, 2)); });
        add("LinearBushing.setStiffness#" + sv, true, [v](Fixture& F, State& s) { F.bushing.setStiffness(s, v ? Vec6(1, 2, 3, 4, 5, 6) : Vec6(0)); });
        add("LinearBushing.setDamping#" + sv, true, [v](Fixture& F, State& s) { F.bushing.setDamping(s, v ? Vec6(3, 2, 1, 3, 2, 1) : Vec6(0)); });
        add("DiscreteForces.setOneMobilityForce#" + sv, true, [v](Fixture& F, State& s) { F.discrete.setOneMobilityForce(s, F.b2, MobilizerUIndex(0), v ? 2.5 : -1.25); });
        add("DiscreteForces.setOneBodyForce#" + sv, true, [v](Fixture& F, State& s) { F.discrete.setOneBodyForce(s, F.b1, v ? SpatialVec(Vec3(1, 2, 3), Vec3(-1, 0, 2)) : SpatialVec(Vec3(0), Vec3(0, 5, 0))); });
        add("MobilityDiscreteForce.setMobilityForce#" + sv, true, [v](Fixture& F, State& s) { F.mobDiscrete.setMobilityForce(s, v ? 1.75 : -2); });
        add("ConstantSpeed.setSpeed#" + sv, true, [v](Fixture& F, State& s) { F.cspeed.setSpeed(s, v ? 1.2 : -0.6); });
        // enable flags
        add("setForceIsDisabled(spring)#" + sv, true, [v](Fixture& F, State& s) { F.forces.setForceIsDisabled(s, F.spring.getForceIndex(), v != 0); });
        add("setForceIsDisabled(tpSpring)#" + sv, true, [v](Fixture& F, State& s) { F.forces.setForceIsDisabled(s, F.tpSpring.getForceIndex(), v != 0); });
        add("setForceIsDisabled(gravity)#" + sv, true, [v](Fixture& F, State& s) { F.forces.setForceIsDisabled(s, F.gravity.getForceIndex(), v != 0); });
        add("ConstantSpeed.disable/enable#" + sv, true, [v](Fixture& F, State& s) { if (v) F.cspeed.disable(s); else F.cspeed.enable(s); });
        if (variant == 2) add("Rod.disable/enable#" + sv, true, [v](Fixture& F, State& s) { if (v) F.rod.disable(s); else F.rod.enable(s); });
    }
    add("DiscreteForces.clearAllForces", true, [](Fixture& F, State& s) { F.discrete.clearAllForces(s); });
    add("b2.lock(Position)", true, [](Fixture& F, State& s) { F.b2.lock(s, Motion::Position); });
    add("b1.lock(Velocity)", true, [](Fixture& F, State& s) { F.b1.lock(s, Motion::Velocity); });
    add("b2.lockAt(0.15)", true, [](Fixture& F, State& s) { F.b2.lockAt(s, 0.15, Motion::Position); });
    add("b2.unlock", true, [](Fixture& F, State& s) { F.b2.unlock(s); });
    add("b1.unlock", true, [](Fixture& F, State& s) { F.b1.unlock(s); });
    return ops;
}

// ---------------------------------------------------------------- observation
static void push(std::vector<double>& o, const Vec3& v) { for (int i = 0; i < 3; ++i) o.push_back(v[i]); }
static std::vector<double> observe(Fixture& F, State& s, std::vector<std::string>* labels = nullptr) {
    std::vector<double> o;
    auto mark = [&](const std::string& l) { if (labels) labels->resize(o.size(), labels->empty() ? l : labels->back()), labels->push_back(l); };
    F.sys.prescribe(s);          // locks/prescribed motion are part of "current variable values -> results"
    F.sys.realize(s, Stage::Acceleration);
    mark("time"); o.push_back(s.getTime());
    mark("q"); for (int i = 0; i < s.getNQ(); ++i) o.push_back(s.getQ()[i]);
    mark("u"); for (int i = 0; i < s.getNU(); ++i) o.push_back(s.getU()[i]);
    mark("z"); for (int i = 0; i < s.getNZ(); ++i) o.push_back(s.getZ()[i]);
    for (MobilizedBodyIndex b(1); b < F.matter.getNumBodies(); ++b) {
        const MobilizedBody& m = F.matter.getMobilizedBody(b);
        mark("pose"); push(o, m.getBodyOriginLocation(s)); for (int i = 0; i < 3; ++i) for (int j = 0; j < 3; ++j) o.push_back(m.getBodyRotation(s)[i][j]);
        mark("velocity"); push(o, m.getBodyVelocity(s)[0]); push(o, m.getBodyVelocity(s)[1]);
        mark("acceleration"); push(o, m.getBodyAcceleration(s)[0]); push(o, m.getBodyAcceleration(s)[1]);
    }
    mark("rigidBodyForces"); { const Vector_<SpatialVec>& f = F.sys.getRigidBodyForces(s, Stage::Dynamics); for (int i = 0; i < f.size(); ++i) { push(o, f[i][0]); push(o, f[i][1]); } }
    mark("mobilityForces"); { const Vector& f = F.sys.getMobilityForces(s, Stage::Dynamics); for (int i = 0; i < f.size(); ++i) o.push_back(f[i]); }
    mark("PE"); o.push_back(F.sys.calcPotentialEnergy(s));
    mark("KE"); o.push_back(F.sys.calcKineticEnergy(s));
    mark("udot"); for (int i = 0; i < s.getNU(); ++i) o.push_back(s.getUDot()[i]);
    mark("zdot"); for (int i = 0; i < s.getNZ(); ++i) o.push_back(s.getZDot()[i]);
    mark("multipliers"); for (int i = 0; i < s.getNMultipliers(); ++i) o.push_back(s.getMultipliers()[i]);
    mark("qerr"); for (int i = 0; i < s.getNQErr(); ++i) o.push_back(s.getQErr()[i]);
    mark("uerr"); for (int i = 0; i < s.getNUErr(); ++i) o.push_back(s.getUErr()[i]);
    mark("udoterr"); for (int i = 0; i < s.getNUDotErr(); ++i) o.push_back(s.getUDotErr()[i]);
    mark("mobilizerReactions"); { Vector_<SpatialVec> R; F.matter.calcMobilizerReactionForces(s, R); for (int i = 0; i < R.size(); ++i) { push(o, R[i][0]); push(o, R[i][1]); } }
    mark("gravityBodyForces"); { const Vector_<SpatialVec>& g = F.gravity.getBodyForces(s); for (int i = 0; i < g.size(); ++i) { push(o, g[i][0]); push(o, g[i][1]); } }
    mark("bushing"); { for (int i = 0; i < 6; ++i) o.push_back(F.bushing.getF(s)[i]); o.push_back(F.bushing.getPowerDissipation(s)); }
    if (labels) labels->resize(o.size(), labels->back());
    return o;
}
static bool sameBits(const std::vector<double>& a, const std::vector<double>& b, int* where = nullptr) {
    if (a.size() != b.size()) { if (where) *where = -1; return false; }
    for (size_t i = 0; i < a.size(); ++i) if (memcmp(&a[i], &b[i], sizeof(double)) != 0) { if (where) *where = (int)i; return false; }
    return true;
}

// fresh default State given the same variable values in a canonical order
static State freshWithSameValues(Fixture& F, const State& s) {
    State f = F.base;
    f.setTime(s.getTime());
    f.updQ() = s.getQ(); f.updU() = s.getU(); f.updZ() = s.getZ();
    for (SubsystemIndex sx(0); sx < s.getNumSubsystems(); ++sx) {
        const int nd = (int)s.getImpl().subsystems[sx].discreteInfo.size();
        if (getenv("C16_DEBUG")) fprintf(stderr, "subsys %d: hist %d vars, fresh %d vars\n", (int)sx, nd, (int)f.getImpl().subsystems[sx].discreteInfo.size());
        for (DiscreteVariableIndex dx(0); dx < nd; ++dx) {
            // modelling variables (invalidate Model or earlier) are never touched by the histories, and writing
            // one would back the fresh state up to Topology and discard the variables allocated in realizeModel
            if (s.getImpl().subsystems[sx].discreteInfo[dx].getInvalidatedStage() <= Stage::Model) continue;
            f.updDiscreteVariable(sx, dx) = s.getDiscreteVariable(sx, dx);
        }
    }
    return f;
}

// canonical key of the history's State for BFS merging: variable bytes + stages + cache validity relations
static uint64_t canonKey(Fixture& F, const State& s) {
    uint64_t h = 99;
    auto mixd = [&](double d) { h = verif::hashPod(d, h); };
    mixd(s.getTime());
    for (int i = 0; i < s.getNQ(); ++i) mixd(s.getQ()[i]);
    for (int i = 0; i < s.getNU(); ++i) mixd(s.getU()[i]);
    for (int i = 0; i < s.getNZ(); ++i) mixd(s.getZ()[i]);
    h = verif::hashPod((int)s.getSystemStage(), h);
    for (SubsystemIndex sx(0); sx < s.getNumSubsystems(); ++sx) {
        const PerSubsystemInfo& ss = s.getImpl().subsystems[sx];
        h = verif::hashPod((int)s.getSubsystemStage(sx), h);
        for (int d = 0; d < (int)ss.discreteInfo.size(); ++d) {
            // value: hash of its printed form (all parameter types used here are printable)
            std::ostringstream o; o.precision(17);
            const AbstractValue& v = ss.discreteInfo[d].getValue();
            if (Value<Real>::isA(v)) o << Value<Real>::downcast(v).get();
            else if (Value<bool>::isA(v)) o << Value<bool>::downcast(v).get();
            else if (Value<int>::isA(v)) o << Value<int>::downcast(v).get();
            else if (Value<Vec3>::isA(v)) o << Value<Vec3>::downcast(v).get();
            else if (Value<Vector>::isA(v)) o << Value<Vector>::downcast(v).get();
            else if (Value<Array_<bool> >::isA(v)) o << Value<Array_<bool> >::downcast(v).get();
            else if (Value<Vector_<SpatialVec> >::isA(v)) o << Value<Vector_<SpatialVec> >::downcast(v).get();
            else o << "v" << ss.discreteInfo[d].getValueVersion();   // unknown type: fall back to the version (never merges wrongly, only less)
            h = verif::hashStr(o.str(), h);
        }
        for (int c = 0; c < (int)ss.cacheInfo.size(); ++c) {
            bool up = ss.cacheInfo[c].isUpToDate(s.getImpl());
            h = verif::hashPod(up, h);
            const AbstractValue& v = ss.cacheInfo[c].getValue();
            if (Value<bool>::isA(v)) h = verif::hashPod(Value<bool>::downcast(v).get(), h);   // e.g. cachedForcesAreValid
        }
    }
    return h;
}

struct Outcome { bool ok = true; std::string key, what; uint64_t key64 = 0, obsHash = 0; };

static Outcome runHistoryOnce(verif::Run& run, Fixture& F, const std::vector<Op>& ops, const std::vector<int>& hist, bool wantKey) {
    Outcome out;
    State s = F.base;
    std::string lastSetter = "none";
    try {
        for (int o : hist) { ops[o].f(F, s); if (ops[o].isSetter) lastSetter = ops[o].name.substr(0, ops[o].name.find('#')); }
    } catch (const std::exception& e) {
        // an operation refused by the library (e.g. a stage requirement): not a state we can reach; counted
        run.count("history-rejected-by-library");
        out.ok = true; out.key = "rejected";
        return out;
    }
    if (wantKey) out.key64 = canonKey(F, s);
    State c(s);                               // copy: keeps variables, drops cache above Instance
    // fresh reference: a new default State given the same values through the same public setters, in the same
    // order, with every realization and query of the history removed
    State f = F.base;
    for (int o : hist) if (ops[o].isSetter) ops[o].f(F, f);
    // informational third reference: fresh State whose variables were copied raw (bypassing the setters)
    State r = freshWithSameValues(F, s);
    std::vector<double> os, oc, of, orr;
    std::string exS, exC, exF;
    try { os = observe(F, s); } catch (const std::exception& e) { exS = "threw"; }
    try { oc = observe(F, c); } catch (const std::exception& e) { exC = "threw"; }
    try { of = observe(F, f); } catch (const std::exception& e) { exF = "threw"; }
    try { orr = observe(F, r); if (exS.empty() && !sameBits(os, orr)) run.count("unspecified:raw-variable-copy-differs-after/" + lastSetter); } catch (const std::exception& e) { run.count("unspecified:raw-variable-copy-throws"); }
    run.transition(2);
    if (!exS.empty() || !exC.empty() || !exF.empty()) {
        if (exS == exC && exC == exF) { run.count("all-three-throw-at-realize"); return out; }
        out.ok = false; out.key = "throws-differ/" + lastSetter;
        out.what = "realization throws for " + std::string(exS.empty() ? "" : "history-state ") + (exC.empty() ? "" : "copy ") + (exF.empty() ? "" : "fresh-state ") + "only";
        return out;
    }
    out.obsHash = verif::fnv1a(os.data(), os.size() * sizeof(double));
    // every variable value of the alphabet is finite, so every result must be finite too: a NaN/Inf can only come
    // from cache content that some earlier operation left behind (or failed to refresh)
    for (size_t i = 0; i < os.size(); ++i) if (!std::isfinite(os[i])) {
        std::vector<std::string> labels; { State t = F.base; observe(F, t, &labels); }
        out.ok = false; out.key = "non-finite-result/" + lastSetter;
        out.what = "result component " + (i < labels.size() ? labels[i] : std::string("?")) + " is " + verif::fmtd(os[i]) + " although all state variables are finite";
        return out;
    }
    int w1 = 0, w2 = 0;
    bool sf = sameBits(os, of, &w1), sc = sameBits(os, oc, &w2), cf = sameBits(oc, of);
    if (sf && sc) return out;
    out.ok = false;
    std::vector<std::string> labels; { State t = F.base; observe(F, t, &labels); }
    int w = !sf ? w1 : w2;
    std::string comp = (w >= 0 && w < (int)labels.size()) ? labels[w] : "size";
    if (!sf && cf) { out.key = "stale-in-history-state/" + lastSetter; out.what = "history state differs from fresh AND copy (which agree): stale cache in the original; first differing component " + comp; }
    else if (sf && !sc) { out.key = "copy-differs/" + lastSetter; out.what = "copy of the state differs from original and fresh; first differing component " + comp; }
    else { out.key = "fresh-differs/" + lastSetter; out.what = "fresh state differs (copy agrees with history state or all differ); first differing component " + comp; }
    if (w >= 0 && w < (int)os.size()) out.what += " history=" + verif::fmtd(os[w]) + " fresh=" + (w < (int)of.size() ? verif::fmtd(of[w]) : "?") + " copy=" + (w < (int)oc.size() ? verif::fmtd(oc[w]) : "?");
    return out;
}

// On a disagreement attribute it to the operation that first makes a prefix of the history disagree
// (that prefix is itself an enumerated history, so keys name the culprit, not whatever came last).
static Outcome runHistory(verif::Run& run, Fixture& F, const std::vector<Op>& ops, const std::vector<int>& hist, bool wantKey) {
    Outcome o = runHistoryOnce(run, F, ops, hist, wantKey);
    if (o.ok || o.key == "rejected") return o;
    for (size_t k = 1; k < hist.size(); ++k) {
        std::vector<int> pre(hist.begin(), hist.begin() + k);
        Outcome p = runHistoryOnce(run, F, ops, pre, false);
        if (!p.ok && p.key != "rejected") { p.key64 = o.key64; p.what += " (first failing prefix has length " + std::to_string(k) + ")"; return p; }
    }
    return o;
}

static std::string histStr(const std::vector<Op>& ops, const std::vector<int>& h) { std::string s; for (int o : h) s += ops[o].name + " ; "; return s; }
static std::string histIdx(const std::vector<int>& h) { std::string s; for (size_t i = 0; i < h.size(); ++i) s += (i ? "," : "") + std::to_string(h[i]); return s; }
static std::vector<int> parseIdx(const std::string& s) { std::vector<int> v; std::stringstream ss(s); std::string t; while (std::getline(ss, t, ',')) if (!t.empty()) v.push_back(atoi(t.c_str())); return v; }

int main(int argc, char** argv) {
    verif::Run run("C16", argc, argv);
    run.setDeadline(300, 3000);
    const bool th = run.thorough();
    auto plainDepthOf = [&](int variant) { return th ? (variant == 0 ? 4 : 3) : (variant == 0 ? 3 : 2); };
    const int plainDepth = plainDepthOf(0);
    const int bfsDepth = th ? 5 : 3;
    const int nVariants = 3;
    run.rule = "E2: a case = an operation history replayed on a fresh default State of a real system (3 bodies, 9 force elements with state-resident parameters, 1-2 constraints; 3 fixture variants); plain enumeration of ALL histories of depth <= d over the operation alphabet (no merging) plus BFS to a deeper bound with canonical-state merging (variable values, stages, per-cache-entry validity); after every history: observation vector at Acceleration bitwise equal to fresh-state and copied-state references. non-trivial = history contains at least one setter";
    run.assumptions = {"parameter values from a 2-value alphabet per setter", "the fresh-state reference copies time,q,u,z and every discrete variable of every subsystem", "BFS merging trusts the canonical key; the plain enumeration does not"};

    if (run.replaying()) {
        int variant = atoi(run.replayField("variant").c_str());
        Fixture F(variant); auto ops = makeOps(variant);
        auto h = parseIdx(run.replayField("history"));
        printf("variant %d history: %s\n", variant, histStr(ops, h).c_str());
        Outcome o = runHistory(run, F, ops, h, false);
        if (o.ok) { printf("agrees with fresh-state and copy references\n"); return 0; }
        printf("DISAGREES: key=%s %s\nVIOLATION property=C16 replay=%s\n", o.key.c_str(), o.what.c_str(), run.replayPath.c_str());
        return 1;
    }

    // ---- plain enumeration, sharded over (variant, first two ops)
    {
        std::vector<int> nops(nVariants);
        for (int v = 0; v < nVariants; ++v) nops[v] = (int)makeOps(v).size();
        struct Unit { int variant, a, b; };
        std::vector<Unit> units;
        for (int v = 0; v < nVariants; ++v) for (int a = 0; a < nops[v]; ++a) for (int b = 0; b < nops[v]; ++b) units.push_back({v, a, b});
        run.parallel("plain", (int64_t)units.size(), [&](int64_t i) {
            Unit u = units[i];
            static int builtVariant = -1; static std::unique_ptr<Fixture> F; static std::vector<Op> ops;
            if (builtVariant != u.variant) { F.reset(new Fixture(u.variant)); ops = makeOps(u.variant); builtVariant = u.variant; }
            const int n = (int)ops.size();
            std::vector<std::vector<int>> hs;
            if (u.b == 0) hs.push_back({u.a});          // depth-1 histories once per a
            hs.push_back({u.a, u.b});
            std::function<void(std::vector<int>&)> ext = [&](std::vector<int>& h) {
                if ((int)h.size() >= plainDepthOf(u.variant)) return;
                for (int o = 0; o < n; ++o) { h.push_back(o); hs.push_back(h); ext(h); h.pop_back(); }
            };
            { std::vector<int> h = {u.a, u.b}; ext(h); }
            for (auto& h : hs) {
                bool nontrivial = false; for (int o : h) nontrivial |= ops[o].isSetter;
                run.evaluationDistinct(nontrivial);
                Outcome o = runHistory(run, *F, ops, h, false);
                run.outcome(o.obsHash);
                if (!o.ok) run.violation(o.key, "variant " + std::to_string(u.variant) + " history [" + histStr(ops, h) + "]: " + o.what,
                                         "section=plain\nitem=" + std::to_string(i) + "\nvariant=" + std::to_string(u.variant) + "\nhistory=" + histIdx(h) + "\n");
            }
            if (i % 977 == 0 && !hs.empty()) run.sample("variant " + std::to_string(u.variant) + ": " + histStr(ops, hs.back()));
        });
    }

    // ---- BFS with canonical-state merging, level-synchronous, variant 0 (thorough: all variants)
    int64_t bfsStates = 0, bfsTransitions = 0;
    for (int variant = 0; variant < (run.hasFlag("--no-bfs") ? 0 : (th ? nVariants : 1)); ++variant) {
        auto ops = makeOps(variant);
        const int n = (int)ops.size();
        std::set<uint64_t> seen;
        std::vector<std::vector<int>> frontier = {{}};
        { Fixture F(variant); State s = F.base; seen.insert(canonKey(F, s)); }
        for (int depth = 1; depth <= bfsDepth && !frontier.empty(); ++depth) {
            if (run.expired()) break;
            std::string prefix = run.buildDir + "/tmp/C16.bfs." + std::to_string(getpid()) + ".";
            run.parallel("bfs-v" + std::to_string(variant) + "-d" + std::to_string(depth), (int64_t)frontier.size(), [&](int64_t i) {
                static int builtVariant = -1; static std::unique_ptr<Fixture> F;
                if (builtVariant != variant) { F.reset(new Fixture(variant)); builtVariant = variant; }
                static FILE* out = nullptr; static std::string outName;
                std::string want = prefix + std::to_string(getpid());
                if (outName != want) { if (out) fclose(out); out = fopen(want.c_str(), "a"); outName = want; }
                for (int o = 0; o < n; ++o) {
                    std::vector<int> h = frontier[i]; h.push_back(o);
                    bool nontrivial = false; for (int x : h) nontrivial |= ops[x].isSetter;
                    run.evaluationDistinct(nontrivial);
                    Outcome oc = runHistory(run, *F, ops, h, true);
                    if (!oc.ok) run.violation(oc.key, "variant " + std::to_string(variant) + " history [" + histStr(ops, h) + "]: " + oc.what,
                                              "section=bfs\nvariant=" + std::to_string(variant) + "\nhistory=" + histIdx(h) + "\n");
                    if (oc.key != "rejected") { fprintf(out, "%llx %s\n", (unsigned long long)oc.key64, histIdx(h).c_str()); }
                }
                fflush(out);
            });
            // collect candidate successors, merge by canonical key (deterministic: sort by history)
            std::vector<std::pair<std::string, uint64_t>> cands;
            std::string dir = run.buildDir + "/tmp";
            if (DIR* d = opendir(dir.c_str())) {
                std::string base = "C16.bfs." + std::to_string(getpid()) + ".";
                while (dirent* e = readdir(d)) {
                    std::string nm = e->d_name;
                    if (nm.rfind(base, 0) != 0) continue;
                    std::ifstream in(dir + "/" + nm); std::string l;
                    while (std::getline(in, l)) { size_t sp = l.find(' '); if (sp == std::string::npos) continue; cands.push_back({l.substr(sp + 1), strtoull(l.substr(0, sp).c_str(), nullptr, 16)}); }
                    unlink((dir + "/" + nm).c_str());
                }
                closedir(d);
            }
            std::sort(cands.begin(), cands.end(), [](auto& a, auto& b) { return a.first.size() != b.first.size() ? a.first.size() < b.first.size() : a.first < b.first; });
            bfsTransitions += (int64_t)cands.size();
            std::vector<std::vector<int>> next;
            for (auto& c : cands) if (seen.insert(c.second).second) next.push_back(parseIdx(c.first));
            run.count("bfs-v" + std::to_string(variant) + "-depth" + std::to_string(depth) + "-new-states", (int64_t)next.size());
            frontier.swap(next);
            // cap the frontier deterministically if it explodes (reported; not called exhaustive then)
            const size_t cap = th ? 40000 : 12000;
            if (depth < bfsDepth && frontier.size() > cap) { run.count("bfs-frontier-capped-at-depth-" + std::to_string(depth)); frontier.resize(cap); run.exhaustive = false; }
        }
        bfsStates += (int64_t)seen.size();
    }
    run.extraCoverage["bfs"] = "{\"canonical_states\": " + std::to_string(bfsStates) + ", \"transitions\": " + std::to_string(bfsTransitions) + ", \"depth\": " + std::to_string(bfsDepth) + "}";
    run.extraCoverage["plain_depth"] = std::to_string(plainDepth);
    return run.finish();
}
