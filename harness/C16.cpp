// C16 -- Realization results depend only on current state values.
// Engine E2: all operation histories (state-taking parameter setters, q/u/t changes, enable/disable,
// lock/unlock, realize(stage), lazy queries) up to a depth are replayed on a State of a real system;
// after every history the full observation vector at Stage::Acceleration must equal, bitwise, that of
// (a) a fresh default State given the same values through the same setters and (b) a copy of the history's State.
// Variants 0-2: the original Pin/Slider/Pin system (69/71-operation alphabet).  Variants 3-9 (added after the coverage audit): one small
// system per element family the property quantifies over, each with its own sub-alphabet (only the operations of the
// elements it contains): 3 Euler/quaternion option (Ball+Free), 4 z / event witnesses / Thermostat / custom element,
// 5 CablePath+CableSpring, 6 constraints with state-resident parameters, 7 prescribed motions, 8 contact constraints,
// 9 ExponentialSpringForce / CompliantContactSubsystem / LinearBushing frames / DiscreteForces / Force::disable.
#include "Simbody.h"
#include "verif.h"
#include <dirent.h>
#include <fcntl.h>
#include <unistd.h>

using namespace SimTK;

// continuous values of the added variants come from fixed tables scaled by a factor selected by VERIF_SEED
static double gSeedScale = 1.0;
static double SV(double x) { return x * gSeedScale; }
static const int kNumVariants = 10;
static const int kQuickDepthAdded[kNumVariants] = {0, 0, 0, 3, 3, 3, 3, 3, 3, 3};     // plain depth of the quick tier for variants 3-9
static const char* kVariantTag[kNumVariants] = {"", "", "", "euler", "zev", "cable", "cons", "motion", "contact", "misc"};

// ---------------------------------------------------------------- custom element of variant 4: allocates z, a state-resident
// gain, and one event witness per stage (Time, Position, Velocity, Dynamics, Acceleration); its force depends on z and time
class ZForce : public Force::Custom::Implementation {
public:
    ZForce(const GeneralForceSubsystem& fs, const SimbodyMatterSubsystem& m, MobilizedBodyIndex b1, MobilizedBodyIndex b2) : fs(fs), m(m), b1(b1), b2(b2) {}
    const GeneralForceSubsystem& fs; const SimbodyMatterSubsystem& m; MobilizedBodyIndex b1, b2;
    mutable ZIndex z0; mutable DiscreteVariableIndex gainIx;
    mutable EventTriggerByStageIndex tT, tP, tV, tD, tA;
    Real gain(const State& s) const { return Value<Real>::downcast(fs.getDiscreteVariable(s, gainIx)).get(); }
    void realizeTopology(State& s) const override {
        z0 = fs.allocateZ(s, Vector(Vec2(0.1, -0.2)));
        gainIx = fs.allocateDiscreteVariable(s, Stage::Dynamics, new Value<Real>(2.0));
        tT = fs.allocateEventTriggersByStage(s, Stage::Time, 1);
        tP = fs.allocateEventTriggersByStage(s, Stage::Position, 1);
        tV = fs.allocateEventTriggersByStage(s, Stage::Velocity, 1);
        tD = fs.allocateEventTriggersByStage(s, Stage::Dynamics, 1);
        tA = fs.allocateEventTriggersByStage(s, Stage::Acceleration, 1);
    }
    void calcForce(const State& s, Vector_<SpatialVec>& bodyForces, Vector_<Vec3>&, Vector& mobilityForces) const override {
        const Vector& z = fs.getZ(s);
        m.getMobilizedBody(b1).applyOneMobilityForce(s, 0, gain(s) * z[z0] * std::cos(s.getTime()), mobilityForces);
        m.getMobilizedBody(b2).applyBodyForce(s, SpatialVec(Vec3(0, 0, z[z0 + 1]), Vec3(z[z0] * z[z0 + 1], 0, 0)), bodyForces);
    }
    Real calcPotentialEnergy(const State& s) const override { const Vector& z = fs.getZ(s); return 0.5 * z[z0] * z[z0]; }
    void realizeTime(const State& s) const override { fs.updEventTriggersByStage(s, Stage::Time)[tT] = s.getTime() - 0.5; }
    void realizePosition(const State& s) const override { fs.updEventTriggersByStage(s, Stage::Position)[tP] = m.getMobilizedBody(b2).getOneQ(s, 0) - 0.2 + 0.1 * s.getTime(); }
    void realizeVelocity(const State& s) const override { fs.updEventTriggersByStage(s, Stage::Velocity)[tV] = m.getMobilizedBody(b1).getOneU(s, 0) * m.getMobilizedBody(b2).getOneQ(s, 0) + 0.3 * s.getTime(); }      // z may only be read from Dynamics on
    void realizeDynamics(const State& s) const override { fs.updEventTriggersByStage(s, Stage::Dynamics)[tD] = gain(s) * fs.getZ(s)[z0] - 1 + fs.getZ(s)[z0 + 1] * m.getMobilizedBody(b2).getOneU(s, 0); }
    void realizeAcceleration(const State& s) const override {
        const Vector& z = fs.getZ(s); Vector& zd = fs.updZDot(s);
        zd[z0] = -z[z0] + m.getMobilizedBody(b1).getOneQ(s, 0) * m.getMobilizedBody(b2).getOneU(s, 0);
        zd[z0 + 1] = gain(s) * z[z0] - s.getTime();
        fs.updEventTriggersByStage(s, Stage::Acceleration)[tA] = m.getUDot(s)[0] + zd[z0];
    }
};

// ---------------------------------------------------------------- fixture
struct Fixture {
    MultibodySystem sys; SimbodyMatterSubsystem matter; GeneralForceSubsystem forces;
    MobilizedBody::Pin b1; MobilizedBody::Slider b2; MobilizedBody::Pin b3;
    Force::Gravity gravity; Force::MobilityLinearSpring spring; Force::MobilityLinearDamper damper;
    Force::MobilityConstantForce constF; Force::MobilityLinearStop stop; Force::LinearBushing bushing;
    Force::DiscreteForces discrete; Force::MobilityDiscreteForce mobDiscrete; Force::TwoPointLinearSpring tpSpring;
    Constraint::ConstantSpeed cspeed; Constraint::Rod rod;
    // ---- members of the added variants (empty handles elsewhere)
    MobilizedBody::Ball ball; MobilizedBody::Free freeB, freeC; MobilizedBody::FunctionBased fbased;
    Force::Thermostat thermo; Force::Custom custom; ZForce* zforce = nullptr;
    std::unique_ptr<CableTrackerSubsystem> tracker; std::unique_ptr<CablePath> path; CableSpring cspring;
    Constraint::Ball cball; Constraint::NoSlip1D noslip; Constraint::ConstantCoordinate ccoord; Constraint::ConstantAcceleration cacc;
    Motion::Steady steady; Motion::Sinusoid sinus; Motion::Steady steadyFree;
    Constraint::SphereOnPlaneContact sop; Constraint::SphereOnSphereContact sos; Constraint::LineOnLineContact lol;
    std::unique_ptr<ContactTrackerSubsystem> ctracker; std::unique_ptr<CompliantContactSubsystem> ccs;
    std::unique_ptr<ExponentialSpringForce> expspring;
    int variant; State base;
    static Body::Rigid stdBody() { return Body::Rigid(MassProperties(1.5, Vec3(0.1, -0.2, 0.05), Inertia(0.4, 0.5, 0.6, 0.01, -0.02, 0.03).shiftFromMassCenter(Vec3(0.1, -0.2, 0.05), 1.5))); }
    void buildAdded();
    explicit Fixture(int variant) : matter(sys), forces(sys), variant(variant) {
        if (variant >= 3) { buildAdded(); sys.realizeTopology(); base = sys.getDefaultState(); sys.realizeModel(base); return; }
        Body::Rigid body(MassProperties(1.5, Vec3(0.1, -0.2, 0.05), Inertia(0.4, 0.5, 0.6, 0.01, -0.02, 0.03).shiftFromMassCenter(Vec3(0.1, -0.2, 0.05), 1.5)));
        b1 = MobilizedBody::Pin(matter.Ground(), Transform(Vec3(0, 0, 0)), body, Transform(Vec3(0, 0.7, 0)));
        b2 = MobilizedBody::Slider(b1, Transform(Rotation(0.3, ZAxis), Vec3(0.2, 0, 0)), body, Transform(Vec3(0, 0.4, 0)));
        b3 = MobilizedBody::Pin(matter.Ground(), Transform(Vec3(1, 0, 0)), body, Transform(Vec3(0, 0.5, 0)));
        gravity = Force::Gravity(forces, matter, UnitVec3(0, -1, 0), 9.8);
        spring = Force::MobilityLinearSpring(forces, b1, MobilizerQIndex(0), 10, 0.1);
        damper = Force::MobilityLinearDamper(forces, b2, MobilizerUIndex(0), 2);
        constF = Force::MobilityConstantForce(forces, b1, MobilizerUIndex(0), 1.5);
        stop = Force::MobilityLinearStop(forces, b2, MobilizerQIndex(0), 100, 0.5, -0.2, 0.3);
        bushing = Force::LinearBushing(forces, b1, Transform(Vec3(0.1, 0, 0)), b3, Transform(Vec3(0, 0.1, 0)), Vec6(5, 6, 7, 50, 60, 70), Vec6(0.5, 0.6, 0.7, 1, 2, 3));
        discrete = Force::DiscreteForces(forces, matter);
        mobDiscrete = Force::MobilityDiscreteForce(forces, b3, MobilizerUIndex(0), 0.25);
        tpSpring = Force::TwoPointLinearSpring(forces, matter.Ground(), Vec3(0.5, 1, 0), b2, Vec3(0.1, 0, 0), 30, 0.8);
        cspeed = Constraint::ConstantSpeed(b3, MobilizerUIndex(0), 0.4);
        if (variant == 1) forces.setNumberOfThreads(1);
        if (variant == 2) { rod = Constraint::Rod(b1, Vec3(0.3, 0, 0), b3, Vec3(0, 0.2, 0), 1.1); }   // enabled by default: [realize ; set u] reaches its lazy caches at depth 2
        sys.realizeTopology();
        base = sys.getDefaultState();
        sys.realizeModel(base);     // modelling choices are not part of the histories; all states start here
    }
};

// The added fixtures. Each is as small as its element family allows; constants that are not varied by operations are fixed.
void Fixture::buildAdded() {
    Body::Rigid body = stdBody();
    const Transform Xb1P(Vec3(0, 0, 0)), Xb1B(Vec3(0, 0.7, 0)), Xb2P(Rotation(0.3, ZAxis), Vec3(0.2, 0, 0)), Xb2B(Vec3(0, 0.4, 0));
    switch (variant) {
    case 3: {   // Euler-angle / quaternion modelling option: Ball (4/3 q), Pin child, Free (7/6 q); bushing reads both orientations; Rod gives qerr
        ball = MobilizedBody::Ball(matter.Ground(), Xb1P, body, Xb1B);
        b1 = MobilizedBody::Pin(ball, Xb2P, body, Xb2B);
        freeB = MobilizedBody::Free(matter.Ground(), Transform(Vec3(1, 0, 0)), body, Transform(Vec3(0, 0.5, 0)));
        gravity = Force::Gravity(forces, matter, UnitVec3(0, -1, 0), 9.8);
        spring = Force::MobilityLinearSpring(forces, b1, MobilizerQIndex(0), 10, 0.1);
        bushing = Force::LinearBushing(forces, ball, Transform(Vec3(0.1, 0, 0)), freeB, Transform(Vec3(0, 0.1, 0)), Vec6(5, 6, 7, 50, 60, 70), Vec6(0.5, 0.6, 0.7, 1, 2, 3));
        rod = Constraint::Rod(b1, Vec3(0.3, 0, 0), freeB, Vec3(0, 0.2, 0), 1.1);
        break; }
    case 4: {   // z, event witnesses, Thermostat, custom element, LinearBushing dissipated-energy z
        b1 = MobilizedBody::Pin(matter.Ground(), Xb1P, body, Xb1B);
        b2 = MobilizedBody::Slider(b1, Xb2P, body, Xb2B);
        gravity = Force::Gravity(forces, matter, UnitVec3(0, -1, 0), 9.8);
        thermo = Force::Thermostat(forces, matter, 0.5, 3.0, 0.4, 0);
        thermo.setDefaultNumChains(2);
        zforce = new ZForce(forces, matter, b1.getMobilizedBodyIndex(), b2.getMobilizedBodyIndex());
        custom = Force::Custom(forces, zforce);
        bushing = Force::LinearBushing(forces, b2, Transform(Vec3(0.1, 0, 0)), matter.Ground(), Transform(Vec3(0.3, 0.9, 0)), Vec6(5, 6, 7, 50, 60, 70), Vec6(0.5, 0.6, 0.7, 1, 2, 3));
        cspeed = Constraint::ConstantSpeed(b2, MobilizerUIndex(0), 0.4);
        break; }
    case 5: {   // CablePath (origin on Ground, via point on b1, termination on b2) + CableSpring.  No wrapping surface: its path solver is documented to
                // continue from the previous solution (kept in the cache), so its results are history dependent by design (tried: differences up to 0.15)
        b1 = MobilizedBody::Pin(matter.Ground(), Xb1P, body, Xb1B);
        b2 = MobilizedBody::Slider(b1, Xb2P, body, Xb2B);
        gravity = Force::Gravity(forces, matter, UnitVec3(0, -1, 0), 9.8);
        tracker.reset(new CableTrackerSubsystem(sys));
        path.reset(new CablePath(*tracker, matter.Ground(), Vec3(-1, 0.5, 0), b2, Vec3(0.1, 0, 0.05)));
        CableObstacle::ViaPoint(*path, b1, Vec3(0.2, -0.3, 0.1));
        cspring = CableSpring(forces, *path, 50, 1.5, 0.1);
        break; }
    case 6: {   // constraints whose parameters live in the State
        b1 = MobilizedBody::Pin(matter.Ground(), Xb1P, body, Xb1B);
        b2 = MobilizedBody::Slider(b1, Xb2P, body, Xb2B);
        b3 = MobilizedBody::Pin(matter.Ground(), Transform(Vec3(1, 0, 0)), body, Transform(Vec3(0, 0.5, 0)));
        freeB = MobilizedBody::Free(matter.Ground(), Transform(Vec3(0.5, 1, 0.3)), body, Transform(Vec3(0)));
        gravity = Force::Gravity(forces, matter, UnitVec3(0, -1, 0), 9.8);
        cball = Constraint::Ball(b2, Vec3(0.1, 0, 0), freeB, Vec3(0, -0.2, 0));
        noslip = Constraint::NoSlip1D(matter.Ground(), Vec3(0.2, 0.1, 0), UnitVec3(1, 0, 0), b1, freeB);
        ccoord = Constraint::ConstantCoordinate(b3, MobilizerQIndex(0), 0.2);
        cacc = Constraint::ConstantAcceleration(b1, MobilizerUIndex(0), 0.7);
        rod = Constraint::Rod(b1, Vec3(0.3, 0, 0), b3, Vec3(0, 0.2, 0), 1.1);
        break; }
    case 7: {   // prescribed motions: Steady on a Pin, Sinusoid (time dependent) on its Slider child, Steady with per-axis rates on a Free body
        b1 = MobilizedBody::Pin(matter.Ground(), Xb1P, body, Xb1B);
        b2 = MobilizedBody::Slider(b1, Xb2P, body, Xb2B);
        b3 = MobilizedBody::Pin(b2, Transform(Vec3(0.1, 0.2, 0)), body, Transform(Vec3(0, 0.5, 0)));    // free child: feels the prescribed parents
        freeB = MobilizedBody::Free(matter.Ground(), Transform(Vec3(1, 0, 0)), body, Transform(Vec3(0)));
        gravity = Force::Gravity(forces, matter, UnitVec3(0, -1, 0), 9.8);
        steady = Motion::Steady(b1, 0.5);
        sinus = Motion::Sinusoid(b2, Motion::Position, 0.3, 2.0, 0.4);
        steadyFree = Motion::Steady(freeB, Vec6(0.1, 0.2, 0.3, -0.1, -0.2, -0.3));
        damper = Force::MobilityLinearDamper(forces, b3, MobilizerUIndex(0), 2);
        {   // FunctionBased mobilizer with 5 mobilities: its H matrix is cached by the mobilizer itself and must be refreshed after every q change
            std::vector<const Function*> fn(6); std::vector<std::vector<int> > ci(6);
            for (int i = 0; i < 5; ++i) { fn[i] = new Function::Linear(Vector(Vec2(1, 0))); ci[i] = {i}; }
            fn[5] = new Function::Sinusoid(0.3, 1.5, 0.2); ci[5] = {3};
            fbased = MobilizedBody::FunctionBased(matter.Ground(), Transform(Vec3(-1, 0, 0.5)), body, Transform(Vec3(0, 0.3, 0)), 5, fn, ci);
        }
        break; }
    case 8: {   // contact constraints (rolling enforced: 3 equations each) on two Free bodies
        freeB = MobilizedBody::Free(matter.Ground(), Transform(Vec3(0, 0.5, 0)), body, Transform(Vec3(0)));
        freeC = MobilizedBody::Free(matter.Ground(), Transform(Vec3(0.9, 0.5, 0)), body, Transform(Vec3(0)));
        gravity = Force::Gravity(forces, matter, UnitVec3(0, -1, 0), 9.8);
        sop = Constraint::SphereOnPlaneContact(matter.Ground(), Transform(Rotation(-Pi / 2, XAxis), Vec3(0)), freeB, Vec3(0.05, 0, 0), 0.5, true);   // plane normal (z of the frame) = +y
        sos = Constraint::SphereOnSphereContact(freeB, Vec3(0.05, 0, 0), 0.5, freeC, Vec3(0, 0.02, 0), 0.4, true);
        lol = Constraint::LineOnLineContact(matter.Ground(), Transform(Rotation(), Vec3(0.9, 1.2, 0)), 1.0, freeC, Transform(Rotation(Pi / 2, YAxis), Vec3(0, 0.6, 0)), 1.0, true);
        break; }
    case 9: {   // remaining force-side families
        b1 = MobilizedBody::Pin(matter.Ground(), Xb1P, body, Xb1B);
        Body::Rigid ballBody = stdBody();
        ballBody.addContactSurface(Transform(), ContactSurface(ContactGeometry::Sphere(0.3), ContactMaterial(1e5, 0.3, 0.8, 0.6, 0.1)));
        matter.Ground().updBody().addContactSurface(Transform(Rotation(-Pi / 2, ZAxis), Vec3(0)), ContactSurface(ContactGeometry::HalfSpace(), ContactMaterial(2e5, 0.2, 0.7, 0.5, 0.2)));   // half space y<0
        freeB = MobilizedBody::Free(matter.Ground(), Transform(Vec3(0.4, 0.28, 0.1)), ballBody, Transform(Vec3(0)));
        ctracker.reset(new ContactTrackerSubsystem(sys));
        ccs.reset(new CompliantContactSubsystem(sys, *ctracker)); ccs->setTrackDissipatedEnergy(true);
        gravity = Force::Gravity(forces, matter, UnitVec3(0, -1, 0), 9.8);
        expspring.reset(new ExponentialSpringForce(forces, Transform(Rotation(-Pi / 2, XAxis), Vec3(0)), freeB, Vec3(0.1, -0.28, 0)));
        bushing = Force::LinearBushing(forces, b1, Transform(Vec3(0.1, 0, 0)), freeB, Transform(Vec3(0, 0.1, 0)), Vec6(5, 6, 7, 50, 60, 70), Vec6(0.5, 0.6, 0.7, 1, 2, 3));
        discrete = Force::DiscreteForces(forces, matter);
        break; }
    }
}

// ---------------------------------------------------------------- operations
struct Op { std::string name; bool isSetter; std::function<void(Fixture&, State&)> f; };

// Added variants: every realization that passes Stage::Dynamics first fills the zdot cache with a sentinel (like a memory-checker fill), so that a
// zdot slot which no element writes shows the sentinel deterministically instead of whatever the heap or an earlier realization left there.
static const double kZdotSentinel = -98765.4321;
static void rz(Fixture& F, State& s, Stage g) {
    if (s.getSystemStage() < Stage::Dynamics && g >= Stage::Dynamics) {
        F.sys.realize(s, Stage::Velocity);
        Vector& zd = s.updZDot(); for (int i = 0; i < zd.size(); ++i) zd[i] = kZdotSentinel;
    }
    F.sys.realize(s, g);
}

// Sub-alphabets of the added variants: every operation name carries the variant tag, so violation keys name variant + element + setter.
static std::vector<Op> makeOpsAdded(int variant) {
    std::vector<Op> ops;
    const std::string T = std::string(kVariantTag[variant]) + ":";
    auto add = [&](const std::string& n, bool setter, std::function<void(Fixture&, State&)> f) { ops.push_back({T + n, setter, f}); };
    // realization to every stage above Model and lazy queries (not setters)
    add("realize(Instance)", false, [](Fixture& F, State& s) { F.sys.realize(s, Stage::Instance); });
    add("realize(Time)", false, [](Fixture& F, State& s) { F.sys.realize(s, Stage::Time); });
    add("realize(Position)", false, [](Fixture& F, State& s) { F.sys.realize(s, Stage::Position); });
    add("realize(Velocity)", false, [](Fixture& F, State& s) { F.sys.realize(s, Stage::Velocity); });
    add("realize(Dynamics)", false, [](Fixture& F, State& s) { rz(F, s, Stage::Dynamics); });
    add("realize(Acceleration)", false, [](Fixture& F, State& s) { rz(F, s, Stage::Acceleration); });
    add("realize(Report)", false, [](Fixture& F, State& s) { rz(F, s, Stage::Report); });
    add("query.calcM+ABI+CBI", false, [](Fixture& F, State& s) { F.sys.realize(s, Stage::Position); Matrix M; F.matter.calcM(s, M); F.matter.realizeCompositeBodyInertias(s); F.matter.realizeArticulatedBodyInertias(s); });
    add("query.PE", false, [](Fixture& F, State& s) { rz(F, s, Stage::Dynamics); (void)F.sys.calcPotentialEnergy(s); });      // documented: Dynamics stage or later
    add("prescribe", true, [](Fixture& F, State& s) { F.sys.prescribe(s); });      // writes the q/u of locked / prescribed mobilizers: a state modification
    auto pinSlider = [&](bool withTime) {
        for (int v = 0; v < 2; ++v) {
            std::string sv = std::to_string(v);
            if (withTime) add("setTime#" + sv, true, [v](Fixture&, State& s) { s.setTime(v ? SV(0.75) : SV(0.25)); });
            add("b1.setQ#" + sv, true, [v](Fixture& F, State& s) { F.b1.setOneQ(s, 0, v ? SV(0.6) : SV(-0.4)); });
            add("b2.setQ#" + sv, true, [v](Fixture& F, State& s) { F.b2.setOneQ(s, 0, v ? SV(0.35) : SV(0.1)); });
            add("b1.setU#" + sv, true, [v](Fixture& F, State& s) { F.b1.setOneU(s, 0, v ? SV(1.5) : SV(-0.5)); });
            add("b2.setU#" + sv, true, [v](Fixture& F, State& s) { F.b2.setOneU(s, 0, v ? SV(-0.8) : SV(0.3)); });
        }
    };
    auto rotA = [](int v) { return v ? Rotation(BodyRotationSequence, SV(0.4), XAxis, SV(-0.3), YAxis, SV(0.5), ZAxis) : Rotation(BodyRotationSequence, SV(-0.6), XAxis, SV(0.2), YAxis, SV(-0.35), ZAxis); };
    auto rotB = [](int v) { return v ? Rotation(BodyRotationSequence, SV(-0.25), XAxis, SV(0.45), YAxis, SV(0.15), ZAxis) : Rotation(BodyRotationSequence, SV(0.3), XAxis, SV(0.1), YAxis, SV(-0.2), ZAxis); };
    switch (variant) {
    case 3: {
        // the modelling option is a Model-stage variable: changing it and realizing Model re-allocates q (defaults), so the
        // histories continue by writing q/u through the mobilizer API (representation-independent "fit" setters)
        for (int v = 0; v < 2; ++v) {
            std::string sv = std::to_string(v);
            add("setUseEulerAngles+realizeModel#" + sv, true, [v](Fixture& F, State& s) { F.matter.setUseEulerAngles(s, v != 0); F.sys.realizeModel(s); });
            add("setTime#" + sv, true, [v](Fixture&, State& s) { s.setTime(v ? SV(0.75) : SV(0.25)); });
            add("ball.setQToFitRotation#" + sv, true, [v, rotA](Fixture& F, State& s) { F.ball.setQToFitRotation(s, rotA(v)); });
            add("free.setQToFitTransform#" + sv, true, [v, rotB](Fixture& F, State& s) { F.freeB.setQToFitTransform(s, Transform(rotB(v), v ? Vec3(SV(0.1), SV(-0.2), SV(0.3)) : Vec3(SV(-0.15), SV(0.25), SV(0.05)))); });
            add("pin.setQ#" + sv, true, [v](Fixture& F, State& s) { F.b1.setOneQ(s, 0, v ? SV(0.6) : SV(-0.4)); });
            add("ball.setUToFitAngularVelocity#" + sv, true, [v](Fixture& F, State& s) { F.ball.setUToFitAngularVelocity(s, v ? Vec3(SV(0.5), SV(-1), SV(0.25)) : Vec3(SV(-0.3), SV(0.2), SV(0.7))); });
            add("free.setUToFitVelocity#" + sv, true, [v](Fixture& F, State& s) { F.freeB.setUToFitVelocity(s, v ? SpatialVec(Vec3(SV(0.2), SV(0.1), SV(-0.4)), Vec3(SV(1), SV(0), SV(-0.5))) : SpatialVec(Vec3(SV(-0.1), SV(0.3), SV(0.2)), Vec3(SV(-0.6), SV(0.4), SV(0.1)))); });
            add("pin.setU#" + sv, true, [v](Fixture& F, State& s) { F.b1.setOneU(s, 0, v ? SV(1.5) : SV(-0.5)); });
            add("updQ[2]#" + sv, true, [v](Fixture&, State& s) { s.updQ()[2] = v ? SV(0.3) : SV(-0.2); });      // quaternion mode: leaves the Ball's quaternion un-normalized
            add("Gravity.setMagnitude#" + sv, true, [v](Fixture& F, State& s) { F.gravity.setMagnitude(s, v ? 3.7 : 0); });
            add("LinearBushing.setStiffness#" + sv, true, [v](Fixture& F, State& s) { F.bushing.setStiffness(s, v ? Vec6(1, 2, 3, 4, 5, 6) : Vec6(0)); });
            add("Rod.setRodLength#" + sv, true, [v](Fixture& F, State& s) { F.rod.setRodLength(s, v ? SV(1.4) : SV(0.8)); });
            add("Rod.disable/enable#" + sv, true, [v](Fixture& F, State& s) { if (v) F.rod.disable(s); else F.rod.enable(s); });
        }
        add("convertToEulerAngles", true, [](Fixture& F, State& s) { State o; F.matter.convertToEulerAngles(s, o); s = o; });
        add("convertToQuaternions", true, [](Fixture& F, State& s) { State o; F.matter.convertToQuaternions(s, o); s = o; });
        add("normalizeQuaternions", true, [](Fixture& F, State& s) { F.sys.realize(s, Stage::Time); F.matter.normalizeQuaternions(s); });   // realizes the matter subsystem to Position itself, which needs Stage::Time
        add("ball.lock(Position)", true, [](Fixture& F, State& s) { F.ball.lock(s, Motion::Position); });
        add("free.lock(Velocity)", true, [](Fixture& F, State& s) { F.freeB.lock(s, Motion::Velocity); });
        add("ball.unlock", true, [](Fixture& F, State& s) { F.ball.unlock(s); });
        add("free.unlock", true, [](Fixture& F, State& s) { F.freeB.unlock(s); });
        add("query.N-operators", false, [](Fixture& F, State& s) {
            F.sys.realize(s, Stage::Velocity);
            Vector u(s.getNU()), q(s.getNQ()), o; for (int i = 0; i < u.size(); ++i) u[i] = 1 + 0.5 * i; for (int i = 0; i < q.size(); ++i) q[i] = 0.5 - 0.25 * i;
            F.matter.multiplyByN(s, false, u, o); F.matter.multiplyByNInv(s, false, q, o); F.matter.multiplyByNDot(s, false, u, o); F.matter.multiplyByN(s, true, q, o);
        });
        break; }
    case 4: {
        pinSlider(true);
        for (int v = 0; v < 2; ++v) {
            std::string sv = std::to_string(v);
            add("custom.updZ[0]#" + sv, true, [v](Fixture& F, State& s) { F.forces.updZ(s)[F.zforce->z0] = v ? SV(0.7) : SV(-0.3); });
            add("custom.updZ[1]#" + sv, true, [v](Fixture& F, State& s) { F.forces.updZ(s)[F.zforce->z0 + 1] = v ? SV(-1.1) : SV(0.45); });
            add("custom.setGain#" + sv, true, [v](Fixture& F, State& s) { Value<Real>::updDowncast(F.forces.updDiscreteVariable(s, F.zforce->gainIx)) = v ? SV(5) : SV(-1.5); });
            add("Thermostat.setChainState#" + sv, true, [v](Fixture& F, State& s) { const int n = 2 * F.thermo.getNumChains(s); Vector z(n); for (int i = 0; i < n; ++i) z[i] = (v ? SV(0.3) : SV(-0.2)) * (i + 1); F.thermo.setChainState(s, z); });
            add("Thermostat.setBathTemperature#" + sv, true, [v](Fixture& F, State& s) { F.thermo.setBathTemperature(s, v ? SV(10) : SV(0.5)); });
            add("Thermostat.setRelaxationTime#" + sv, true, [v](Fixture& F, State& s) { F.thermo.setRelaxationTime(s, v ? SV(2) : SV(0.1)); });
            add("Thermostat.setExternalWork#" + sv, true, [v](Fixture& F, State& s) { F.thermo.setExternalWork(s, v ? SV(3) : SV(-1)); });
            add("Thermostat.setNumChains+realizeModel#" + sv, true, [v](Fixture& F, State& s) { F.thermo.setNumChains(s, v ? 3 : 1); F.sys.realizeModel(s); });
            add("Thermostat.setNumExcludedDofs+realizeModel#" + sv, true, [v](Fixture& F, State& s) { F.thermo.setNumExcludedDofs(s, v ? 1 : 0); F.sys.realizeModel(s); });
            add("LinearBushing.setDissipatedEnergy#" + sv, true, [v](Fixture& F, State& s) { F.bushing.setDissipatedEnergy(s, v ? SV(2.5) : SV(0)); });
            add("LinearBushing.setDamping#" + sv, true, [v](Fixture& F, State& s) { F.bushing.setDamping(s, v ? Vec6(3, 2, 1, 3, 2, 1) : Vec6(0)); });
            add("setForceIsDisabled(thermostat)#" + sv, true, [v](Fixture& F, State& s) { F.forces.setForceIsDisabled(s, F.thermo.getForceIndex(), v != 0); });
            add("setForceIsDisabled(bushing)#" + sv, true, [v](Fixture& F, State& s) { F.forces.setForceIsDisabled(s, F.bushing.getForceIndex(), v != 0); });
            add("ConstantSpeed.disable/enable#" + sv, true, [v](Fixture& F, State& s) { if (v) F.cspeed.disable(s); else F.cspeed.enable(s); });
        }
        add("Thermostat.initializeChainState", true, [](Fixture& F, State& s) { F.thermo.initializeChainState(s); });
        break; }
    case 5: {
        pinSlider(false);
        for (int v = 0; v < 2; ++v) {
            std::string sv = std::to_string(v);
            add("CableSpring.setStiffness#" + sv, true, [v](Fixture& F, State& s) { F.cspring.setStiffness(s, v ? SV(200) : SV(5)); });
            add("CableSpring.setSlackLength#" + sv, true, [v](Fixture& F, State& s) { F.cspring.setSlackLength(s, v ? SV(4) : SV(0.5)); });     // 4: slack (no tension)
            add("CableSpring.setDissipationCoef#" + sv, true, [v](Fixture& F, State& s) { F.cspring.setDissipationCoef(s, v ? SV(0.8) : 0); });
            add("CableSpring.setDissipatedEnergy#" + sv, true, [v](Fixture& F, State& s) { F.cspring.setDissipatedEnergy(s, v ? SV(1.25) : 0); });
            add("CablePath.setIntegratedCableLengthDot#" + sv, true, [v](Fixture& F, State& s) { F.path->setIntegratedCableLengthDot(s, v ? SV(2.2) : SV(-0.3)); });
            add("setForceIsDisabled(cableSpring)#" + sv, true, [v](Fixture& F, State& s) { F.forces.setForceIsDisabled(s, F.cspring.getForceIndex(), v != 0); });
            add("Gravity.setMagnitude#" + sv, true, [v](Fixture& F, State& s) { F.gravity.setMagnitude(s, v ? 3.7 : 0); });
        }
        add("b2.lock(Position)", true, [](Fixture& F, State& s) { F.b2.lock(s, Motion::Position); });
        add("b2.unlock", true, [](Fixture& F, State& s) { F.b2.unlock(s); });
        add("query.cableTension+power", false, [](Fixture& F, State& s) { F.sys.realize(s, Stage::Velocity); (void)F.cspring.getTension(s); (void)F.cspring.getPowerDissipation(s); (void)F.path->getCableLengthDot(s); });
        break; }
    case 6: {
        pinSlider(false);
        for (int v = 0; v < 2; ++v) {
            std::string sv = std::to_string(v);
            add("free.setQToFitTransform#" + sv, true, [v, rotB](Fixture& F, State& s) { F.freeB.setQToFitTransform(s, Transform(rotB(v), v ? Vec3(SV(0.1), SV(-0.2), SV(0.3)) : Vec3(SV(-0.15), SV(0.25), SV(0.05)))); });
            add("free.setUToFitVelocity#" + sv, true, [v](Fixture& F, State& s) { F.freeB.setUToFitVelocity(s, v ? SpatialVec(Vec3(SV(0.2), SV(0.1), SV(-0.4)), Vec3(SV(1), SV(0), SV(-0.5))) : SpatialVec(Vec3(SV(-0.1), SV(0.3), SV(0.2)), Vec3(SV(-0.6), SV(0.4), SV(0.1)))); });
            add("Ball.setPointOnBody1#" + sv, true, [v](Fixture& F, State& s) { F.cball.setPointOnBody1(s, v ? Vec3(SV(0.3), SV(0.1), 0) : Vec3(0, SV(-0.1), SV(0.2))); });
            add("Ball.setPointOnBody2#" + sv, true, [v](Fixture& F, State& s) { F.cball.setPointOnBody2(s, v ? Vec3(SV(-0.2), 0, SV(0.1)) : Vec3(SV(0.15), SV(0.15), 0)); });
            add("NoSlip1D.setContactPoint#" + sv, true, [v](Fixture& F, State& s) { F.noslip.setContactPoint(s, v ? Vec3(SV(0.5), SV(0.2), SV(0.1)) : Vec3(SV(-0.1), 0, SV(0.3))); });
            add("NoSlip1D.setDirection#" + sv, true, [v](Fixture& F, State& s) { F.noslip.setDirection(s, v ? UnitVec3(0, 1, 0) : UnitVec3(1, 1, 1)); });
            add("ConstantCoordinate.setPosition#" + sv, true, [v](Fixture& F, State& s) { F.ccoord.setPosition(s, v ? SV(0.9) : SV(-0.3)); });
            add("ConstantAcceleration.setAcceleration#" + sv, true, [v](Fixture& F, State& s) { F.cacc.setAcceleration(s, v ? SV(-2) : SV(0.25)); });
            add("Rod.setPointOnBody1#" + sv, true, [v](Fixture& F, State& s) { F.rod.setPointOnBody1(s, v ? Vec3(SV(0.1), SV(0.2), 0) : Vec3(0, 0, SV(0.3))); });
            add("Rod.setPointOnBody2#" + sv, true, [v](Fixture& F, State& s) { F.rod.setPointOnBody2(s, v ? Vec3(SV(0.2), 0, SV(-0.1)) : Vec3(0, SV(0.4), 0)); });
            add("Rod.setRodLength#" + sv, true, [v](Fixture& F, State& s) { F.rod.setRodLength(s, v ? SV(1.4) : SV(0.8)); });
            add("Ball.disable/enable#" + sv, true, [v](Fixture& F, State& s) { if (v) F.cball.disable(s); else F.cball.enable(s); });
            add("NoSlip1D.disable/enable#" + sv, true, [v](Fixture& F, State& s) { if (v) F.noslip.disable(s); else F.noslip.enable(s); });
            add("ConstantCoordinate.disable/enable#" + sv, true, [v](Fixture& F, State& s) { if (v) F.ccoord.disable(s); else F.ccoord.enable(s); });
            add("ConstantAcceleration.disable/enable#" + sv, true, [v](Fixture& F, State& s) { F.matter.setConstraintIsDisabled(s, F.cacc.getConstraintIndex(), v != 0); });
            add("Rod.disable/enable#" + sv, true, [v](Fixture& F, State& s) { if (v) F.rod.disable(s); else F.rod.enable(s); });
        }
        break; }
    case 7: {
        pinSlider(true);
        for (int v = 0; v < 2; ++v) {
            std::string sv = std::to_string(v);
            add("b3.setQ#" + sv, true, [v](Fixture& F, State& s) { F.b3.setOneQ(s, 0, v ? SV(0.5) : SV(-0.7)); });
            add("b3.setU#" + sv, true, [v](Fixture& F, State& s) { F.b3.setOneU(s, 0, v ? SV(-1.2) : SV(0.4)); });
            add("free.setQToFitTransform#" + sv, true, [v, rotB](Fixture& F, State& s) { F.freeB.setQToFitTransform(s, Transform(rotB(v), v ? Vec3(SV(0.1), SV(-0.2), SV(0.3)) : Vec3(SV(-0.15), SV(0.25), SV(0.05)))); });
            add("fbased.setQ#" + sv, true, [v](Fixture& F, State& s) { Vector q(5); for (int i = 0; i < 5; ++i) q[i] = (v ? SV(0.3) : SV(-0.2)) * (i + 1) * (i % 2 ? -1 : 1); F.fbased.setQFromVector(s, q); });
            add("fbased.setU#" + sv, true, [v](Fixture& F, State& s) { Vector u(5); for (int i = 0; i < 5; ++i) u[i] = (v ? SV(-0.5) : SV(0.8)) / (i + 1); F.fbased.setUFromVector(s, u); });
            add("Steady.setRate#" + sv, true, [v](Fixture& F, State& s) { F.steady.setRate(s, v ? SV(-1.25) : SV(2)); });
            add("SteadyFree.setOneRate(2)#" + sv, true, [v](Fixture& F, State& s) { F.steadyFree.setOneRate(s, MobilizerUIndex(2), v ? SV(0.9) : SV(-0.6)); });
            add("SteadyFree.setRate#" + sv, true, [v](Fixture& F, State& s) { F.steadyFree.setRate(s, v ? SV(0.35) : 0); });
            add("Steady.disable/enable#" + sv, true, [v](Fixture& F, State& s) { if (v) F.steady.disable(s); else F.steady.enable(s); });
            add("Sinusoid.disable/enable#" + sv, true, [v](Fixture& F, State& s) { if (v) F.sinus.disable(s); else F.sinus.enable(s); });
            add("SteadyFree.disable/enable#" + sv, true, [v](Fixture& F, State& s) { if (v) F.steadyFree.disable(s); else F.steadyFree.enable(s); });
            add("MobilityLinearDamper.setDamping#" + sv, true, [v](Fixture& F, State& s) { F.damper.setDamping(s, v ? 7 : 0.5); });
        }
        add("b1.lock(Velocity)", true, [](Fixture& F, State& s) { F.b1.lock(s, Motion::Velocity); });       // a lock overrides the Motion
        add("b2.lockAt(0.15)", true, [](Fixture& F, State& s) { F.b2.lockAt(s, SV(0.15), Motion::Position); });
        add("b1.unlock", true, [](Fixture& F, State& s) { F.b1.unlock(s); });
        add("b2.unlock", true, [](Fixture& F, State& s) { F.b2.unlock(s); });
        break; }
    case 8: {
        for (int v = 0; v < 2; ++v) {
            std::string sv = std::to_string(v);
            add("freeB.setQToFitTransform#" + sv, true, [v, rotA](Fixture& F, State& s) { F.freeB.setQToFitTransform(s, Transform(rotA(v), v ? Vec3(SV(0.1), SV(0.02), SV(0.3)) : Vec3(SV(-0.15), SV(-0.01), SV(0.05)))); });
            add("freeC.setQToFitTransform#" + sv, true, [v, rotB](Fixture& F, State& s) { F.freeC.setQToFitTransform(s, Transform(rotB(v), v ? Vec3(SV(0.05), SV(0.1), SV(-0.2)) : Vec3(SV(-0.1), SV(0.05), SV(0.15)))); });
            add("freeB.setUToFitVelocity#" + sv, true, [v](Fixture& F, State& s) { F.freeB.setUToFitVelocity(s, v ? SpatialVec(Vec3(SV(0.2), SV(0.1), SV(-0.4)), Vec3(SV(1), SV(0), SV(-0.5))) : SpatialVec(Vec3(SV(-0.1), SV(0.3), SV(0.2)), Vec3(SV(-0.6), SV(0.4), SV(0.1)))); });
            add("freeC.setUToFitVelocity#" + sv, true, [v](Fixture& F, State& s) { F.freeC.setUToFitVelocity(s, v ? SpatialVec(Vec3(SV(-0.3), SV(0.2), SV(0.1)), Vec3(SV(0.2), SV(-0.7), SV(0.3))) : SpatialVec(Vec3(SV(0.4), SV(-0.1), SV(0.25)), Vec3(SV(0.5), SV(0.1), SV(-0.2)))); });
            add("SphereOnPlane.setPlaneFrame#" + sv, true, [v](Fixture& F, State& s) { F.sop.setPlaneFrame(s, v ? Transform(Rotation(-Pi / 2 + SV(0.1), XAxis), Vec3(0, SV(0.05), 0)) : Transform(Rotation(BodyRotationSequence, -Pi / 2, XAxis, SV(0.2), YAxis), Vec3(SV(0.1), SV(-0.05), 0))); });
            add("SphereOnPlane.setSphereCenter#" + sv, true, [v](Fixture& F, State& s) { F.sop.setSphereCenter(s, v ? Vec3(0, SV(0.1), SV(0.05)) : Vec3(SV(-0.1), 0, 0)); });
            add("SphereOnPlane.setSphereRadius#" + sv, true, [v](Fixture& F, State& s) { F.sop.setSphereRadius(s, v ? SV(0.7) : SV(0.3)); });
            add("SphereOnSphere.setCenterOnF#" + sv, true, [v](Fixture& F, State& s) { F.sos.setCenterOnF(s, v ? Vec3(0, SV(0.1), SV(0.05)) : Vec3(SV(-0.1), 0, 0)); });
            add("SphereOnSphere.setRadiusOnF#" + sv, true, [v](Fixture& F, State& s) { F.sos.setRadiusOnF(s, v ? SV(0.6) : SV(0.35)); });
            add("SphereOnSphere.setCenterOnB#" + sv, true, [v](Fixture& F, State& s) { F.sos.setCenterOnB(s, v ? Vec3(SV(0.08), 0, SV(-0.04)) : Vec3(0, SV(-0.06), 0)); });
            add("SphereOnSphere.setRadiusOnB#" + sv, true, [v](Fixture& F, State& s) { F.sos.setRadiusOnB(s, v ? SV(0.55) : SV(0.25)); });
            add("LineOnLine.setEdgeFrameF#" + sv, true, [v](Fixture& F, State& s) { F.lol.setEdgeFrameF(s, v ? Transform(Rotation(SV(0.2), ZAxis), Vec3(SV(0.8), SV(1.25), 0)) : Transform(Rotation(SV(-0.15), YAxis), Vec3(SV(1), SV(1.1), SV(0.1)))); });
            add("LineOnLine.setHalfLengthF#" + sv, true, [v](Fixture& F, State& s) { F.lol.setHalfLengthF(s, v ? SV(2) : SV(0.5)); });
            add("LineOnLine.setEdgeFrameB#" + sv, true, [v](Fixture& F, State& s) { F.lol.setEdgeFrameB(s, v ? Transform(Rotation(Pi / 2 + SV(0.1), YAxis), Vec3(0, SV(0.55), 0)) : Transform(Rotation(BodyRotationSequence, Pi / 2, YAxis, SV(0.2), XAxis), Vec3(SV(0.05), SV(0.65), 0))); });
            add("LineOnLine.setHalfLengthB#" + sv, true, [v](Fixture& F, State& s) { F.lol.setHalfLengthB(s, v ? SV(1.5) : SV(0.75)); });
            add("SphereOnPlane.disable/enable#" + sv, true, [v](Fixture& F, State& s) { if (v) F.sop.disable(s); else F.sop.enable(s); });
            add("SphereOnSphere.disable/enable#" + sv, true, [v](Fixture& F, State& s) { if (v) F.sos.disable(s); else F.sos.enable(s); });
            add("LineOnLine.disable/enable#" + sv, true, [v](Fixture& F, State& s) { if (v) F.lol.disable(s); else F.lol.enable(s); });
        }
        break; }
    case 9: {
        for (int v = 0; v < 2; ++v) {
            std::string sv = std::to_string(v);
            add("b1.setQ#" + sv, true, [v](Fixture& F, State& s) { F.b1.setOneQ(s, 0, v ? SV(0.6) : SV(-0.4)); });
            add("b1.setU#" + sv, true, [v](Fixture& F, State& s) { F.b1.setOneU(s, 0, v ? SV(1.5) : SV(-0.5)); });
            add("free.setQToFitTransform#" + sv, true, [v, rotB](Fixture& F, State& s) { F.freeB.setQToFitTransform(s, Transform(rotB(v), v ? Vec3(SV(0.1), SV(-0.03), SV(0.3)) : Vec3(SV(-0.15), SV(0.2), SV(0.05)))); });   // #1 deeper in contact, #0 out of contact
            add("free.setUToFitVelocity#" + sv, true, [v](Fixture& F, State& s) { F.freeB.setUToFitVelocity(s, v ? SpatialVec(Vec3(SV(0.2), SV(0.1), SV(-0.4)), Vec3(SV(1), SV(-0.2), SV(-0.5))) : SpatialVec(Vec3(SV(-0.1), SV(0.3), SV(0.2)), Vec3(SV(-0.6), SV(0.4), SV(0.1)))); });
            add("ExponentialSpring.setMuStatic#" + sv, true, [v](Fixture& F, State& s) { F.expspring->setMuStatic(s, v ? SV(1.2) : SV(0.1)); });
            add("ExponentialSpring.setMuKinetic#" + sv, true, [v](Fixture& F, State& s) { F.expspring->setMuKinetic(s, v ? SV(0.9) : SV(0.05)); });
            add("CompliantContact.setDissipatedEnergy#" + sv, true, [v](Fixture& F, State& s) { F.ccs->setDissipatedEnergy(s, v ? SV(1.75) : 0); });
            add("LinearBushing.setFrameOnBody1#" + sv, true, [v](Fixture& F, State& s) { F.bushing.setFrameOnBody1(s, v ? Transform(Rotation(SV(0.3), XAxis), Vec3(0, SV(0.2), 0)) : Transform(Vec3(SV(0.25), 0, SV(0.1)))); });
            add("LinearBushing.setFrameOnBody2#" + sv, true, [v](Fixture& F, State& s) { F.bushing.setFrameOnBody2(s, v ? Transform(Rotation(SV(-0.2), YAxis), Vec3(SV(0.1), 0, 0)) : Transform(Vec3(0, SV(-0.15), 0))); });
            add("LinearBushing.setDissipatedEnergy#" + sv, true, [v](Fixture& F, State& s) { F.bushing.setDissipatedEnergy(s, v ? SV(2.5) : 0); });
            add("DiscreteForces.setAllMobilityForces#" + sv, true, [v](Fixture& F, State& s) { Vector f(v ? s.getNU() : 0); for (int i = 0; i < f.size(); ++i) f[i] = SV(0.5) * (i - 2); F.discrete.setAllMobilityForces(s, f); });
            add("DiscreteForces.setAllBodyForces#" + sv, true, [v](Fixture& F, State& s) { Vector_<SpatialVec> f(v ? F.matter.getNumBodies() : 0); for (int i = 0; i < f.size(); ++i) f[i] = SpatialVec(Vec3(SV(0.1) * i, 0, SV(-0.2)), Vec3(0, SV(1.5) * i, SV(0.3))); F.discrete.setAllBodyForces(s, f); });
            add("DiscreteForces.addForceToBodyPoint#" + sv, true, [v](Fixture& F, State& s) { F.sys.realize(s, Stage::Position); F.discrete.addForceToBodyPoint(s, F.freeB, v ? Vec3(SV(0.1), SV(0.2), 0) : Vec3(0, 0, SV(-0.3)), v ? Vec3(0, SV(4), 0) : Vec3(SV(1), 0, SV(2))); });
            add("Force::disable/enable(expSpring)#" + sv, true, [v](Fixture& F, State& s) { if (v) F.expspring->disable(s); else F.expspring->enable(s); });
            add("Force::disable/enable(bushing)#" + sv, true, [v](Fixture& F, State& s) { if (v) F.bushing.disable(s); else F.bushing.enable(s); });
            add("Force::disable/enable(discrete)#" + sv, true, [v](Fixture& F, State& s) { if (v) F.discrete.disable(s); else F.discrete.enable(s); });
        }
        add("ExponentialSpring.resetAnchorPoint", true, [](Fixture& F, State& s) { F.expspring->resetAnchorPoint(s); });
        add("DiscreteForces.clearAllMobilityForces", true, [](Fixture& F, State& s) { F.discrete.clearAllMobilityForces(s); });
        add("DiscreteForces.clearAllBodyForces", true, [](Fixture& F, State& s) { F.discrete.clearAllBodyForces(s); });
        break; }
    }
    return ops;
}

static std::vector<Op> makeOps(int variant) {
    if (variant >= 3) return makeOpsAdded(variant);
    std::vector<Op> ops;
    auto add = [&](const std::string& n, bool setter, std::function<void(Fixture&, State&)> f) { ops.push_back({n, setter, f}); };
    // realization and lazy queries (not setters)
    add("realize(Position)", false, [](Fixture& F, State& s) { F.sys.realize(s, Stage::Position); });
    add("realize(Velocity)", false, [](Fixture& F, State& s) { F.sys.realize(s, Stage::Velocity); });
    add("realize(Dynamics)", false, [](Fixture& F, State& s) { F.sys.realize(s, Stage::Dynamics); });
    add("realize(Acceleration)", false, [](Fixture& F, State& s) { F.sys.realize(s, Stage::Acceleration); });
    add("query.calcM", false, [](Fixture& F, State& s) { F.sys.realize(s, Stage::Position); Matrix M; F.matter.calcM(s, M); });
    add("query.ABI+CBI", false, [](Fixture& F, State& s) { F.sys.realize(s, Stage::Position); F.matter.realizeCompositeBodyInertias(s); F.matter.realizeArticulatedBodyInertias(s); });
    add("query.gravityForces+PE", false, [](Fixture& F, State& s) { F.sys.realize(s, Stage::Position); (void)F.gravity.getBodyForces(s); (void)F.sys.calcPotentialEnergy(s); });
    add("query.calcAccelerationIgnoringConstraints(other forces)", false, [](Fixture& F, State& s) {
        F.sys.realize(s, Stage::Dynamics);
        Vector f(s.getNU()); for (int i = 0; i < s.getNU(); ++i) f[i] = 3 + i;
        Vector_<SpatialVec> Fb(F.matter.getNumBodies(), SpatialVec(Vec3(1, -2, 0.5), Vec3(2, 1, -1)));
        Vector udot; Vector_<SpatialVec> A;
        F.matter.calcAccelerationIgnoringConstraints(s, f, Fb, udot, A);      // a const operator: must leave no trace in the State
    });
    add("query.calcMInv+multiplyByMInv", false, [](Fixture& F, State& s) {
        F.sys.realize(s, Stage::Position); Matrix MI; F.matter.calcMInv(s, MI);
        Vector v(s.getNU()), r; for (int i = 0; i < s.getNU(); ++i) v[i] = 1 - i; F.matter.multiplyByMInv(s, v, r);
    });
    // continuous variables, two values each
    for (int v = 0; v < 2; ++v) {
        std::string sv = std::to_string(v);
        add("setTime#" + sv, true, [v](Fixture&, State& s) { s.setTime(v ? 0.75 : 0.25); });
        add("b1.setQ#" + sv, true, [v](Fixture& F, State& s) { F.b1.setOneQ(s, 0, v ? 0.6 : -0.4); });
        add("b2.setQ#" + sv, true, [v](Fixture& F, State& s) { F.b2.setOneQ(s, 0, v ? 0.35 : 0.1); });   // 0.35 is beyond the stop's upper bound
        add("b1.setU#" + sv, true, [v](Fixture& F, State& s) { F.b1.setOneU(s, 0, v ? 1.5 : -0.5); });
        add("b2.setU#" + sv, true, [v](Fixture& F, State& s) { F.b2.setOneU(s, 0, v ? -0.8 : 0.3); });
        // state-resident force parameters
        add("MobilityLinearSpring.setStiffness#" + sv, true, [v](Fixture& F, State& s) { F.spring.setStiffness(s, v ? 100 : 25); });
        add("MobilityLinearSpring.setQZero#" + sv, true, [v](Fixture& F, State& s) { F.spring.setQZero(s, v ? -0.3 : 0.2); });
        add("MobilityLinearDamper.setDamping#" + sv, true, [v](Fixture& F, State& s) { F.damper.setDamping(s, v ? 7 : 0.5); });
        add("MobilityConstantForce.setForce#" + sv, true, [v](Fixture& F, State& s) { F.constF.setForce(s, v ? -3 : 4); });
        add("MobilityLinearStop.setBounds#" + sv, true, [v](Fixture& F, State& s) { if (v) F.stop.setBounds(s, -0.05, 0.05); else F.stop.setBounds(s, -1, 1); });
        add("Gravity.setMagnitude#" + sv, true, [v](Fixture& F, State& s) { F.gravity.setMagnitude(s, v ? 3.7 : 0); });
        add("Gravity.setDownDirection#" + sv, true, [v](Fixture& F, State& s) { F.gravity.setDownDirection(s, v ? UnitVec3(1, 0, 0) : UnitVec3(0, 0, -1)); });
        add("Gravity.setZeroHeight#" + sv, true, [v](Fixture& F, State& s) { F.gravity.setZeroHeight(s, v ? 2 : -1); });
        add("Gravity.setBodyIsExcluded(b2)#" + sv, true, [v](Fixture& F, State& s) { F.gravity.setBodyIsExcluded(s, F.b2, v != 0); });
        add("Gravity.setGravityVector#" + sv, true, [v](Fixture& F, State& s) { F.gravity.setGravityVector(s, v ? Vec3(0, -1.6, 0) : Vec3(2, 0, 2)); });
        add("LinearBushing.setStiffness#" + sv, true, [v](Fixture& F, State& s) { F.bushing.setStiffness(s, v ? Vec6(1, 2, 3, 4, 5, 6) : Vec6(0)); });
        add("LinearBushing.setDamping#" + sv, true, [v](Fixture& F, State& s) { F.bushing.setDamping(s, v ? Vec6(3, 2, 1, 3, 2, 1) : Vec6(0)); });
        add("DiscreteForces.setOneMobilityForce#" + sv, true, [v](Fixture& F, State& s) { F.discrete.setOneMobilityForce(s, F.b2, MobilizerUIndex(0), v ? 2.5 : -1.25); });
        add("DiscreteForces.setOneBodyForce#" + sv, true, [v](Fixture& F, State& s) { F.discrete.setOneBodyForce(s, F.b1, v ? SpatialVec(Vec3(1, 2, 3), Vec3(-1, 0, 2)) : SpatialVec(Vec3(0), Vec3(0, 5, 0))); });
        add("MobilityDiscreteForce.setMobilityForce#" + sv, true, [v](Fixture& F, State& s) { F.mobDiscrete.setMobilityForce(s, v ? 1.75 : -2); });
        add("ConstantSpeed.setSpeed#" + sv, true, [v](Fixture& F, State& s) { F.cspeed.setSpeed(s, v ? 1.2 : -0.6); });
        // enable flags
        add("setForceIsDisabled(spring)#" + sv, true, [v](Fixture& F, State& s) { F.forces.setForceIsDisabled(s, F.spring.getForceIndex(), v != 0); });
        add("setForceIsDisabled(tpSpring)#" + sv, true, [v](Fixture& F, State& s) { F.forces.setForceIsDisabled(s, F.tpSpring.getForceIndex(), v != 0); });
        add("setForceIsDisabled(gravity)#" + sv, true, [v](Fixture& F, State& s) { F.forces.setForceIsDisabled(s, F.gravity.getForceIndex(), v != 0); });
        add("ConstantSpeed.disable/enable#" + sv, true, [v](Fixture& F, State& s) { if (v) F.cspeed.disable(s); else F.cspeed.enable(s); });
        if (variant == 2) add("Rod.disable/enable#" + sv, true, [v](Fixture& F, State& s) { if (v) F.rod.disable(s); else F.rod.enable(s); });
    }
    add("DiscreteForces.clearAllForces", true, [](Fixture& F, State& s) { F.discrete.clearAllForces(s); });
    add("b2.lock(Position)", true, [](Fixture& F, State& s) { F.b2.lock(s, Motion::Position); });
    add("b1.lock(Velocity)", true, [](Fixture& F, State& s) { F.b1.lock(s, Motion::Velocity); });
    add("b2.lockAt(0.15)", true, [](Fixture& F, State& s) { F.b2.lockAt(s, 0.15, Motion::Position); });
    add("b2.unlock", true, [](Fixture& F, State& s) { F.b2.unlock(s); });
    add("b1.unlock", true, [](Fixture& F, State& s) { F.b1.unlock(s); });
    return ops;
}

// ---------------------------------------------------------------- observation
static void push(std::vector<double>& o, const Vec3& v) { for (int i = 0; i < 3; ++i) o.push_back(v[i]); }
static bool gZdotUnwritten = false;     // set by observe(): some zdot slot still held the sentinel after realize(Acceleration)
static void push(std::vector<double>& o, const Transform& X) { push(o, X.p()); for (int i = 0; i < 3; ++i) for (int j = 0; j < 3; ++j) o.push_back(X.R()[i][j]); }
// additional observation of the added variants: everything downstream of the families they contain
static void observeAdded(Fixture& F, State& s, std::vector<double>& o, const std::function<void(const std::string&)>& mark) {
    mark("qdot"); for (int i = 0; i < s.getNQ(); ++i) o.push_back(s.getQDot()[i]);
    mark("qdotdot"); for (int i = 0; i < s.getNQ(); ++i) o.push_back(s.getQDotDot()[i]);
    mark("eventTriggers"); { const Vector& t = s.getEventTriggers(); o.push_back(t.size()); for (int i = 0; i < t.size(); ++i) o.push_back(t[i]); }
    for (Stage g = Stage::Time; g <= Stage::Acceleration; ++g) { mark(std::string("eventTriggersByStage.") + g.getName()); const Vector& t = s.getEventTriggersByStage(g); for (int i = 0; i < t.size(); ++i) o.push_back(t[i]); }
    mark("modelling"); o.push_back(F.matter.getUseEulerAngles(s)); o.push_back(F.matter.getNumQuaternionsInUse(s)); o.push_back(s.getNQ()); o.push_back(s.getNZ()); o.push_back(s.getNMultipliers());
    mark("motionForces"); { Vector f; F.matter.findMotionForces(s, f); for (int i = 0; i < f.size(); ++i) o.push_back(f[i]); o.push_back(F.matter.calcMotionPower(s)); }
    mark("constraintPower"); o.push_back(F.matter.calcConstraintPower(s));
    auto dis = [&](const Constraint& c) { return c.isDisabled(s); };
    if (!F.rod.isEmptyHandle() && F.variant >= 3) { mark("Rod"); o.push_back(dis(F.rod)); if (!dis(F.rod)) { o.push_back(F.rod.getRodLength(s)); o.push_back(F.rod.getPositionError(s)); o.push_back(F.rod.getVelocityError(s)); o.push_back(F.rod.getAccelerationError(s)); o.push_back(F.rod.getRodTension(s)); push(o, Vec3(F.rod.findRodOrientationInG(s))); o.push_back(F.rod.findLengthViolation(s)); } }
    switch (F.variant) {
    case 4: {
        const bool on = !F.forces.isForceDisabled(s, F.thermo.getForceIndex());
        mark("Thermostat"); o.push_back(on); o.push_back(F.thermo.getNumChains(s)); o.push_back(F.thermo.getNumThermalDofs(s)); o.push_back(F.thermo.getBathTemperature(s)); o.push_back(F.thermo.getRelaxationTime(s));
        o.push_back(F.thermo.calcBathEnergy(s)); o.push_back(F.thermo.getExternalWork(s)); { Vector z = F.thermo.getChainState(s); for (int i = 0; i < z.size(); ++i) o.push_back(z[i]); }
        if (on) { o.push_back(F.thermo.getCurrentTemperature(s)); o.push_back(F.thermo.getExternalPower(s)); }
        break; }
    case 5: {
        mark("CablePath"); o.push_back(F.path->getCableLength(s)); o.push_back(F.path->getCableLengthDot(s)); o.push_back(F.path->getIntegratedCableLengthDot(s)); o.push_back(F.path->calcCablePower(s, 2.5));
        const bool on = !F.forces.isForceDisabled(s, F.cspring.getForceIndex());
        mark("CableSpring"); o.push_back(on); o.push_back(F.cspring.getStiffness(s)); o.push_back(F.cspring.getSlackLength(s)); o.push_back(F.cspring.getDissipationCoef(s)); o.push_back(F.cspring.getDissipatedEnergy(s));
        o.push_back(F.cspring.getLength(s)); o.push_back(F.cspring.getLengthDot(s)); o.push_back(F.cspring.getTension(s)); o.push_back(F.cspring.getPotentialEnergy(s)); o.push_back(F.cspring.getPowerDissipation(s));
        break; }
    case 6: {
        mark("Ball"); o.push_back(dis(F.cball)); if (!dis(F.cball)) { push(o, F.cball.getPositionErrors(s)); push(o, F.cball.getVelocityErrors(s)); push(o, F.cball.getAccelerationErrors(s)); push(o, F.cball.getMultipliers(s)); push(o, F.cball.getBallReactionForceOnBody1(s)); push(o, F.cball.getBallReactionForceOnBody2(s)); }
        mark("ConstantCoordinate"); o.push_back(dis(F.ccoord)); if (!dis(F.ccoord)) { o.push_back(F.ccoord.getPosition(s)); o.push_back(F.ccoord.getPositionError(s)); o.push_back(F.ccoord.getVelocityError(s)); o.push_back(F.ccoord.getAccelerationError(s)); o.push_back(F.ccoord.getMultiplier(s)); }
        mark("ConstantAcceleration"); o.push_back(dis(F.cacc)); if (!dis(F.cacc)) { o.push_back(F.cacc.getAcceleration(s)); o.push_back(F.cacc.getAccelerationError(s)); o.push_back(F.cacc.getMultiplier(s)); }
        mark("NoSlip1D"); o.push_back(dis(F.noslip)); if (!dis(F.noslip)) { o.push_back(F.noslip.getVelocityError(s)); o.push_back(F.noslip.getAccelerationError(s)); o.push_back(F.noslip.getMultiplier(s)); o.push_back(F.noslip.getForceAtContactPoint(s)); }
        break; }
    case 7: {
        mark("Motions"); o.push_back(F.steady.isDisabled(s)); o.push_back(F.sinus.isDisabled(s)); o.push_back(F.steadyFree.isDisabled(s)); o.push_back(F.steady.getOneRate(s, MobilizerUIndex(0))); for (int i = 0; i < 6; ++i) o.push_back(F.steadyFree.getOneRate(s, MobilizerUIndex(i)));
        o.push_back((int)F.steady.getLevel(s)); o.push_back((int)F.sinus.getLevel(s)); o.push_back((int)F.b1.getLockLevel(s)); o.push_back((int)F.b2.getLockLevel(s));
        break; }
    case 8: {
        mark("SphereOnPlane"); o.push_back(dis(F.sop)); if (!dis(F.sop)) { o.push_back(F.sop.getSphereRadius(s)); o.push_back(F.sop.getPositionError(s)); push(o, F.sop.getVelocityErrors(s)); push(o, F.sop.getAccelerationErrors(s)); push(o, F.sop.getMultipliers(s)); push(o, F.sop.findForceOnSphereInG(s)); push(o, F.sop.findContactPointInG(s)); o.push_back(F.sop.findSeparation(s)); }
        mark("SphereOnSphere"); o.push_back(dis(F.sos)); if (!dis(F.sos)) { o.push_back(F.sos.getRadiusOnF(s)); o.push_back(F.sos.getRadiusOnB(s)); o.push_back(F.sos.getPositionError(s)); push(o, F.sos.getVelocityErrors(s)); push(o, F.sos.getAccelerationErrors(s)); push(o, F.sos.getMultipliers(s)); push(o, F.sos.findForceOnSphereBInG(s)); push(o, F.sos.findContactFrameInG(s)); o.push_back(F.sos.findSeparation(s)); }
        mark("LineOnLine"); o.push_back(dis(F.lol)); if (!dis(F.lol)) { o.push_back(F.lol.getHalfLengthF(s)); o.push_back(F.lol.getHalfLengthB(s)); o.push_back(F.lol.getPositionError(s)); push(o, F.lol.getVelocityErrors(s)); push(o, F.lol.getAccelerationErrors(s)); push(o, F.lol.getMultipliers(s)); push(o, F.lol.findForceOnBodyBInG(s)); push(o, F.lol.findContactFrameInG(s)); o.push_back(F.lol.findSeparation(s)); }
        break; }
    case 9: {
        const bool on = !F.expspring->isDisabled(s);
        mark("ExponentialSpring"); o.push_back(on); o.push_back(F.expspring->getMuStatic(s)); o.push_back(F.expspring->getMuKinetic(s));
        if (on) { o.push_back(F.expspring->getSliding(s)); push(o, F.expspring->getAnchorPointPosition(s)); push(o, F.expspring->getNormalForce(s)); push(o, F.expspring->getFrictionForce(s)); push(o, F.expspring->getForce(s)); push(o, F.expspring->getStationPosition(s)); push(o, F.expspring->getStationVelocity(s)); }
        mark("CompliantContact"); o.push_back(F.ccs->getDissipatedEnergy(s)); { const int n = F.ccs->getNumContactForces(s); o.push_back(n); for (int i = 0; i < n; ++i) { const ContactForce& f = F.ccs->getContactForce(s, i); push(o, f.getContactPoint()); push(o, f.getForceOnSurface2()[0]); push(o, f.getForceOnSurface2()[1]); o.push_back(f.getPotentialEnergy()); o.push_back(f.getPowerDissipation()); } }
        mark("DiscreteForces"); { const Vector& mf = F.discrete.getAllMobilityForces(s); o.push_back(mf.size()); for (int i = 0; i < mf.size(); ++i) o.push_back(mf[i]); const Vector_<SpatialVec>& bf = F.discrete.getAllBodyForces(s); o.push_back(bf.size()); for (int i = 0; i < bf.size(); ++i) { push(o, bf[i][0]); push(o, bf[i][1]); } }
        break; }
    }
}
static std::vector<double> observe(Fixture& F, State& s, std::vector<std::string>* labels = nullptr) {
    std::vector<double> o;
    auto mark = [&](const std::string& l) { if (labels) labels->resize(o.size(), labels->empty() ? l : labels->back()), labels->push_back(l); };
    F.sys.prescribe(s);          // locks/prescribed motion are part of "current variable values -> results"
    if (F.variant >= 3) rz(F, s, Stage::Acceleration); else
    F.sys.realize(s, Stage::Acceleration);
    mark("time"); o.push_back(s.getTime());
    mark("q"); for (int i = 0; i < s.getNQ(); ++i) o.push_back(s.getQ()[i]);
    mark("u"); for (int i = 0; i < s.getNU(); ++i) o.push_back(s.getU()[i]);
    mark("z"); for (int i = 0; i < s.getNZ(); ++i) o.push_back(s.getZ()[i]);
    for (MobilizedBodyIndex b(1); b < F.matter.getNumBodies(); ++b) {
        const MobilizedBody& m = F.matter.getMobilizedBody(b);
        mark("pose"); push(o, m.getBodyOriginLocation(s)); for (int i = 0; i < 3; ++i) for (int j = 0; j < 3; ++j) o.push_back(m.getBodyRotation(s)[i][j]);
        mark("velocity"); push(o, m.getBodyVelocity(s)[0]); push(o, m.getBodyVelocity(s)[1]);
        mark("acceleration"); push(o, m.getBodyAcceleration(s)[0]); push(o, m.getBodyAcceleration(s)[1]);
    }
    mark("rigidBodyForces"); { const Vector_<SpatialVec>& f = F.sys.getRigidBodyForces(s, Stage::Dynamics); for (int i = 0; i < f.size(); ++i) { push(o, f[i][0]); push(o, f[i][1]); } }
    mark("mobilityForces"); { const Vector& f = F.sys.getMobilityForces(s, Stage::Dynamics); for (int i = 0; i < f.size(); ++i) o.push_back(f[i]); }
    mark("PE"); o.push_back(F.sys.calcPotentialEnergy(s));
    mark("KE"); o.push_back(F.sys.calcKineticEnergy(s));
    mark("udot"); for (int i = 0; i < s.getNU(); ++i) o.push_back(s.getUDot()[i]);
    mark("zdot"); for (int i = 0; i < s.getNZ(); ++i) {
        double zd = s.getZDot()[i];
        if (F.variant >= 3 && zd == kZdotSentinel) { gZdotUnwritten = true; zd = 0; }      // judged by its own oracle (runHistoryOnce), masked here
        o.push_back(zd);
    }
    mark("multipliers"); for (int i = 0; i < s.getNMultipliers(); ++i) o.push_back(s.getMultipliers()[i]);
    mark("qerr"); for (int i = 0; i < s.getNQErr(); ++i) o.push_back(s.getQErr()[i]);
    mark("uerr"); for (int i = 0; i < s.getNUErr(); ++i) o.push_back(s.getUErr()[i]);
    mark("udoterr"); for (int i = 0; i < s.getNUDotErr(); ++i) o.push_back(s.getUDotErr()[i]);
    mark("mobilizerReactions"); { Vector_<SpatialVec> R; F.matter.calcMobilizerReactionForces(s, R); for (int i = 0; i < R.size(); ++i) { push(o, R[i][0]); push(o, R[i][1]); } }
    if (!F.gravity.isEmptyHandle()) { mark("gravityBodyForces"); const Vector_<SpatialVec>& g = F.gravity.getBodyForces(s); for (int i = 0; i < g.size(); ++i) { push(o, g[i][0]); push(o, g[i][1]); } }
    if (!F.bushing.isEmptyHandle() && !(F.variant >= 3 && F.forces.isForceDisabled(s, F.bushing.getForceIndex()))) {
        mark("bushing"); for (int i = 0; i < 6; ++i) o.push_back(F.bushing.getF(s)[i]); o.push_back(F.bushing.getPowerDissipation(s));
        if (F.variant >= 3) { for (int i = 0; i < 6; ++i) o.push_back(F.bushing.getQ(s)[i]); o.push_back(F.bushing.getPotentialEnergy(s)); o.push_back(F.bushing.getDissipatedEnergy(s)); }
    }
    if (F.variant >= 3) observeAdded(F, s, o, mark);
    if (labels) labels->resize(o.size(), labels->back());
    return o;
}
static bool sameBits(const std::vector<double>& a, const std::vector<double>& b, int* where = nullptr) {
    if (a.size() != b.size()) { if (where) *where = -1; return false; }
    for (size_t i = 0; i < a.size(); ++i) if (memcmp(&a[i], &b[i], sizeof(double)) != 0) { if (where) *where = (int)i; return false; }
    return true;
}

// fresh default State given the same variable values in a canonical order
static State freshWithSameValues(Fixture& F, const State& s) {
    State f = F.base;
    f.setTime(s.getTime());
    if (f.getNQ() != s.getNQ() || f.getNU() != s.getNU() || f.getNZ() != s.getNZ()) throw std::runtime_error("modelling differs");   // a Model-stage variable was changed: no raw copy possible
    f.updQ() = s.getQ(); f.updU() = s.getU(); f.updZ() = s.getZ();
    for (SubsystemIndex sx(0); sx < s.getNumSubsystems(); ++sx) {
        const int nd = (int)s.getImpl().subsystems[sx].discreteInfo.size();
        if (getenv("C16_DEBUG")) fprintf(stderr, "subsys %d: hist %d vars, fresh %d vars\n", (int)sx, nd, (int)f.getImpl().subsystems[sx].discreteInfo.size());
        for (DiscreteVariableIndex dx(0); dx < nd; ++dx) {
            // modelling variables (invalidate Model or earlier) are never touched by the histories, and writing
            // one would back the fresh state up to Topology and discard the variables allocated in realizeModel
            if (s.getImpl().subsystems[sx].discreteInfo[dx].getInvalidatedStage() <= Stage::Model) continue;
            f.updDiscreteVariable(sx, dx) = s.getDiscreteVariable(sx, dx);
        }
    }
    return f;
}

// canonical key of the history's State for BFS merging: variable bytes + stages + cache validity relations
static uint64_t canonKey(Fixture& F, const State& s) {
    uint64_t h = 99;
    auto mixd = [&](double d) { h = verif::hashPod(d, h); };
    mixd(s.getTime());
    for (int i = 0; i < s.getNQ(); ++i) mixd(s.getQ()[i]);
    for (int i = 0; i < s.getNU(); ++i) mixd(s.getU()[i]);
    for (int i = 0; i < s.getNZ(); ++i) mixd(s.getZ()[i]);
    h = verif::hashPod((int)s.getSystemStage(), h);
    for (SubsystemIndex sx(0); sx < s.getNumSubsystems(); ++sx) {
        const PerSubsystemInfo& ss = s.getImpl().subsystems[sx];
        h = verif::hashPod((int)s.getSubsystemStage(sx), h);
        for (int d = 0; d < (int)ss.discreteInfo.size(); ++d) {
            // value: hash of its printed form (all parameter types used here are printable)
            std::ostringstream o; o.precision(17);
            const AbstractValue& v = ss.discreteInfo[d].getValue();
            if (Value<Real>::isA(v)) o << Value<Real>::downcast(v).get();
            else if (Value<bool>::isA(v)) o << Value<bool>::downcast(v).get();
            else if (Value<int>::isA(v)) o << Value<int>::downcast(v).get();
            else if (Value<Vec3>::isA(v)) o << Value<Vec3>::downcast(v).get();
            else if (Value<Vector>::isA(v)) o << Value<Vector>::downcast(v).get();
            else if (Value<Array_<bool> >::isA(v)) o << Value<Array_<bool> >::downcast(v).get();
            else if (Value<Vector_<SpatialVec> >::isA(v)) o << Value<Vector_<SpatialVec> >::downcast(v).get();
            else o << "v" << ss.discreteInfo[d].getValueVersion();   // unknown type: fall back to the version (never merges wrongly, only less)
            h = verif::hashStr(o.str(), h);
        }
        for (int c = 0; c < (int)ss.cacheInfo.size(); ++c) {
            bool up = ss.cacheInfo[c].isUpToDate(s.getImpl());
            h = verif::hashPod(up, h);
            const AbstractValue& v = ss.cacheInfo[c].getValue();
            if (Value<bool>::isA(v)) h = verif::hashPod(Value<bool>::downcast(v).get(), h);   // e.g. cachedForcesAreValid
        }
    }
    // values held in variables whose type cannot be printed here, read back through the public API
    for (MobilizedBodyIndex b(1); b < F.matter.getNumBodies(); ++b) {
        const MobilizedBody& m = F.matter.getMobilizedBody(b);
        h = verif::hashPod((int)m.getLockLevel(s), h);
        if (m.isLocked(s)) { Vector lv = m.getLockValueAsVector(s); for (int i = 0; i < lv.size(); ++i) mixd(lv[i]); }
        if (m.hasMotion()) h = verif::hashPod(m.getMotion().isDisabled(s), h);
    }
    for (ConstraintIndex cx(0); cx < F.matter.getNumConstraints(); ++cx) h = verif::hashPod(F.matter.isConstraintDisabled(s, cx), h);
    return h;
}
// Parameter variables of unprintable types (Gravity::Parameters, LinearBushing::InstanceVars, ...) only contribute their version number
// to canonKey, which does not tell the two values of a setter apart.  The key therefore also carries, per setter family (operation
// name before '#'), the last operation of that family in the history: two histories merge only if every family was last set by the same operation.
static uint64_t shadowKey(const std::vector<Op>& ops, const std::vector<int>& hist, uint64_t h) {
    std::map<std::string, int> last;
    for (int o : hist) if (ops[o].isSetter) last[ops[o].name.substr(0, ops[o].name.find('#'))] = o;
    for (auto& kv : last) h = verif::hashPod(kv.second, h);
    return h;
}

struct Outcome { bool ok = true, reported = false; std::string key, what; uint64_t key64 = 0, obsHash = 0; };
static std::string histStr(const std::vector<Op>& ops, const std::vector<int>& h);
static std::string histIdx(const std::vector<int>& h);

// Variant 3 only: the same State expressed in the other orientation representation (convertToEulerAngles / convertToQuaternions)
// must give the same representation-independent results.  Different arithmetic on the two sides: tolerance, calibrated in notes/C16.md.
static const double kCrossBound = 1e-9;
static void crossRepresentation(verif::Run& run, Fixture& F, const State& s, const std::vector<Op>& ops, const std::vector<int>& hist, Outcome& out) {
    static const std::set<std::string> physical = {"time", "u", "z", "pose", "velocity", "acceleration", "rigidBodyForces", "mobilityForces", "PE", "KE", "udot", "zdot", "multipliers",
                                                   "uerr", "udoterr", "mobilizerReactions", "gravityBodyForces", "bushing", "motionForces", "constraintPower", "Rod"};
    State a, b(s);
    if (F.matter.getUseEulerAngles(s)) F.matter.convertToQuaternions(s, a); else F.matter.convertToEulerAngles(s, a);
    std::vector<std::string> la, lb; std::vector<double> oa, ob;
    try { ob = observe(F, b, &lb); oa = observe(F, a, &la); } catch (const std::exception& e) { run.count("cross-representation:observe-threw"); return; }
    auto segs = [](const std::vector<double>& o, const std::vector<std::string>& l) { std::map<std::string, std::vector<double>> m; for (size_t i = 0; i < o.size() && i < l.size(); ++i) m[l[i]].push_back(o[i]); return m; };
    auto ma = segs(oa, la), mb = segs(ob, lb);
    for (auto& kv : mb) {
        if (!physical.count(kv.first)) continue;
        const std::vector<double>& x = kv.second; const std::vector<double>& y = ma[kv.first];
        double err = 0, scale = 1;
        if (x.size() != y.size()) err = INFINITY;
        else { for (size_t i = 0; i < x.size(); ++i) scale = std::max(scale, std::max(std::abs(x[i]), std::abs(y[i]))); for (size_t i = 0; i < x.size(); ++i) err = std::max(err, std::abs(x[i] - y[i]) / scale); }
        bool ok = run.residual("cross-representation-results", err, kCrossBound, [&] { return "variant 3 history [" + histStr(ops, hist) + "] component " + kv.first; },
                               [&] { return "section=plain\nvariant=3\nhistory=" + histIdx(hist) + "\n"; }, kv.first);
        if (!ok) { out.ok = false; out.reported = true; out.key = "cross-representation-results/" + kv.first; out.what = "results differ between quaternion and Euler-angle form of the same state, component " + kv.first + " rel.err " + verif::fmtd(err); return; }
    }
}

static Outcome runHistoryOnce(verif::Run& run, Fixture& F, const std::vector<Op>& ops, const std::vector<int>& hist, bool wantKey) {
    Outcome out;
    State s = F.base;
    std::string lastSetter = "none";
    int at = -1;
    try {
        for (int o : hist) { at = o; ops[o].f(F, s); if (ops[o].isSetter) lastSetter = ops[o].name.substr(0, ops[o].name.find('#')); }
    } catch (const std::exception& e) {
        // an operation refused by the library (e.g. a stage requirement): not a state we can reach; counted
        run.count("history-rejected-by-library");
        if (F.variant >= 3) { run.count("rejected-at/" + ops[at].name); if (getenv("C16_DEBUG")) fprintf(stderr, "rejected at %s: %s\n", ops[at].name.c_str(), e.what()); }
        out.ok = true; out.key = "rejected";
        return out;
    }
    if (wantKey) out.key64 = shadowKey(ops, hist, canonKey(F, s));
    State c(s);                               // copy: keeps variables, drops cache above Instance
    // fresh reference: a new default State given the same values through the same public setters, in the same
    // order, with every realization and query of the history removed
    State f = F.base;
    try { for (int o : hist) if (ops[o].isSetter) ops[o].f(F, f); }
    catch (const std::exception& e) {
        // a setter that the library accepts only on a realized State (stage precondition): the history cannot be reduced to its setters; counted
        run.count("unspecified:setter-refused-without-the-realizations/" + lastSetter);
        return out;
    }
    // informational third reference: fresh State whose variables were copied raw (bypassing the setters)
    std::vector<double> os, oc, of, orr;
    std::string exS, exC, exF;
    gZdotUnwritten = false;
    try { os = observe(F, s); } catch (const std::exception& e) { exS = "threw"; if (getenv("C16_DEBUG")) fprintf(stderr, "observe threw: %s\n", e.what()); }
    const bool zdotUnwritten = gZdotUnwritten;
    try { oc = observe(F, c); } catch (const std::exception& e) { exC = "threw"; }
    try { of = observe(F, f); } catch (const std::exception& e) { exF = "threw"; }
    if (F.variant < 3 || hist.size() <= 2)      // informational only: skipped for the deeper histories of the added variants (cost)
    try { State r = freshWithSameValues(F, s); orr = observe(F, r); if (exS.empty() && !sameBits(os, orr)) run.count("unspecified:raw-variable-copy-differs-after/" + lastSetter); } catch (const std::exception& e) { run.count("unspecified:raw-variable-copy-throws"); }
    run.transition(2);
    if (!exS.empty() || !exC.empty() || !exF.empty()) {
        if (exS == exC && exC == exF) { run.count("all-three-throw-at-realize"); return out; }
        out.ok = false; out.key = "throws-differ/" + lastSetter;
        out.what = "realization throws for " + std::string(exS.empty() ? "" : "history-state ") + (exC.empty() ? "" : "copy ") + (exF.empty() ? "" : "fresh-state ") + "only";
        return out;
    }
    out.obsHash = verif::fnv1a(os.data(), os.size() * sizeof(double));
    if (zdotUnwritten) {
        // realize(Acceleration) left a zdot slot unwritten: its value is whatever the cache held before (uninitialised or from an earlier realization)
        std::string who;
        auto off = [&](const Force& f) { return !f.isEmptyHandle() && F.forces.isForceDisabled(s, f.getForceIndex()); };
        if (off(F.thermo)) who += "Thermostat";
        if (off(F.bushing)) who += std::string(who.empty() ? "" : "+") + "LinearBushing";
        if (off(F.cspring)) who += std::string(who.empty() ? "" : "+") + "CableSpring";
        out.ok = false; out.key = who.empty() ? "zdot-not-written/no-element-disabled" : "zdot-not-written-by-disabled-element/" + who;
        out.what = "after realize(Acceleration) a zdot slot was never written (it still holds the harness's pre-realization fill): the derivative of that z is whatever the cache held before";
        return out;
    }
    // every variable value of the alphabet is finite, so every result must be finite too: a NaN/Inf can only come
    // from cache content that some earlier operation left behind (or failed to refresh)
    for (size_t i = 0; i < os.size(); ++i) if (!std::isfinite(os[i])) {
        std::vector<std::string> labels; { State t = F.base; observe(F, t, &labels); }
        out.ok = false; out.key = "non-finite-result/" + lastSetter;
        out.what = "result component " + (i < labels.size() ? labels[i] : std::string("?")) + " is " + verif::fmtd(os[i]) + " although all state variables are finite";
        return out;
    }
    int w1 = 0, w2 = 0;
    bool sf = sameBits(os, of, &w1), sc = sameBits(os, oc, &w2), cf = sameBits(oc, of);
    if (sf && sc) { if (F.variant == 3) crossRepresentation(run, F, s, ops, hist, out); return out; }
    out.ok = false;
    std::vector<std::string> labels; { State t = F.base; observe(F, t, &labels); }
    int w = !sf ? w1 : w2;
    std::string comp = (w >= 0 && w < (int)labels.size()) ? labels[w] : "size";
    if (!sf && cf) { out.key = "stale-in-history-state/" + lastSetter; out.what = "history state differs from fresh AND copy (which agree): stale cache in the original; first differing component " + comp; }
    else if (sf && !sc) { out.key = "copy-differs/" + lastSetter; out.what = "copy of the state differs from original and fresh; first differing component " + comp; }
    else { out.key = "fresh-differs/" + lastSetter; out.what = "fresh state differs (copy agrees with history state or all differ); first differing component " + comp; }
    if (w >= 0 && w < (int)os.size()) out.what += " history=" + verif::fmtd(os[w]) + " fresh=" + (w < (int)of.size() ? verif::fmtd(of[w]) : "?") + " copy=" + (w < (int)oc.size() ? verif::fmtd(oc[w]) : "?");
    return out;
}

// On a disagreement attribute it to the operation that first makes a prefix of the history disagree
// (that prefix is itself an enumerated history, so keys name the culprit, not whatever came last).
static Outcome runHistory(verif::Run& run, Fixture& F, const std::vector<Op>& ops, const std::vector<int>& hist, bool wantKey) {
    Outcome o = runHistoryOnce(run, F, ops, hist, wantKey);
    if (o.ok || o.key == "rejected" || o.reported) return o;
    for (size_t k = 1; k < hist.size(); ++k) {
        std::vector<int> pre(hist.begin(), hist.begin() + k);
        Outcome p = runHistoryOnce(run, F, ops, pre, false);
        if (!p.ok && p.key != "rejected") { p.key64 = o.key64; p.what += " (first failing prefix has length " + std::to_string(k) + ")"; return p; }
    }
    return o;
}

std::string histStr(const std::vector<Op>& ops, const std::vector<int>& h) { std::string s; for (int o : h) s += ops[o].name + " ; "; return s; }
std::string histIdx(const std::vector<int>& h) { std::string s; for (size_t i = 0; i < h.size(); ++i) s += (i ? "," : "") + std::to_string(h[i]); return s; }
static std::vector<int> parseIdx(const std::string& s) { std::vector<int> v; std::stringstream ss(s); std::string t; while (std::getline(ss, t, ',')) if (!t.empty()) v.push_back(atoi(t.c_str())); return v; }

// CablePath::realizeInstance writes debugging text to stdout on every call; forked workers do not need stdout (variant 5)
static void silenceStdout() { static bool done = false; if (done) return; done = true; fflush(stdout); int fd = open("/dev/null", O_WRONLY); if (fd >= 0) { dup2(fd, 1); close(fd); } }

int main(int argc, char** argv) {
    verif::Run run("C16", argc, argv);
    const pid_t parentPid = getpid();
    run.setDeadline(300, 3000);
    const bool th = run.thorough();
    gSeedScale = 1.0 + (double)(((run.seed % 4) + 4) % 4) / 16.0;
    const int dbgDepth = getenv("C16_DEPTH") ? atoi(getenv("C16_DEPTH")) : 0;       // debugging only
    std::set<int> only; if (const char* e = getenv("C16_VARIANTS")) for (int v : parseIdx(e)) only.insert(v);   // debugging only
    auto selected = [&](int v) { return only.empty() || only.count(v); };
    auto plainDepthOf = [&](int variant) {
        if (dbgDepth) return dbgDepth;
        if (variant >= 3) return th ? 3 : kQuickDepthAdded[variant];
        return th ? (variant == 0 ? 4 : 3) : (variant == 0 ? 3 : 2);
    };
    const int plainDepth = plainDepthOf(0);
    const int bfsDepth = th ? 5 : 3;
    auto bfsDepthOf = [&](int variant) { return th ? (variant < 3 ? 5 : 4) : 3; };
    // BFS order: quick = variant 0 only (as before); thorough = the added variants (depth 4) first, then variants 0-2 (depth 5)
    std::vector<int> bfsOrder; if (th) { for (int v = 3; v < kNumVariants; ++v) bfsOrder.push_back(v); for (int v = 0; v < 3; ++v) bfsOrder.push_back(v); } else bfsOrder.push_back(0);
    if (run.hasFlag("--no-bfs")) bfsOrder.clear();
    const int nVariants = kNumVariants;
    run.rule = "E2: a case = an operation history replayed on a fresh default State of a real system; 10 fixture variants, each with its own sub-alphabet (only the operations of the elements it contains): "
               "0-2 Pin/Slider/Pin with 9 force elements, ConstantSpeed, optional Rod (65/65/67 ops); 3 Ball+Pin+Free with the Euler-angle/quaternion option, convertToEulerAngles/convertToQuaternions, normalizeQuaternions (44 ops); "
               "4 z writers, per-stage event witnesses, Force::Thermostat, custom element, LinearBushing z (49); 5 CablePath(via point)+CableSpring (35); 6 Ball/NoSlip1D/ConstantCoordinate/ConstantAcceleration/Rod parameters (50); "
               "7 Motion::Steady/Sinusoid, locks, FunctionBased mobilizer (48); 8 SphereOnPlane/SphereOnSphere/LineOnLine contact-constraint parameters (46); 9 ExponentialSpringForce, CompliantContactSubsystem z, LinearBushing frames, DiscreteForces, Force::disable (45). "
               "COMPLETE: plain enumeration (no merging) of ALL histories of depth <= 3 for variants 0 and 3-9 and depth <= 2 for variants 1-2 (quick); thorough: depth <= 4 for variant 0, <= 3 for all others. "
               "PLUS BFS with canonical-state merging (variable values, stages, per-cache-entry validity, lock/enable flags, last operation per setter family): quick variant 0 to depth 3; thorough variants 3-9 to depth 4 and 0-2 to depth 5 (frontier cap 40000, a capped run is not called exhaustive). "
               "After every history: observation vector at Acceleration (poses, velocities, accelerations, forces, reactions, energies, udot, zdot, qdot, qdotdot, multipliers, constraint errors, event witnesses by stage, per-element outputs) bitwise equal to "
               "fresh-state and copied-state references; finite; every zdot slot written; variant 3 also: equal (1e-9) to the same State converted to the other orientation representation. non-trivial = history contains at least one setter";
    run.assumptions = {"parameter values from a 2-value alphabet per setter (variants 3-9: scaled by 1+(VERIF_SEED mod 4)/16)",
                       "the fresh-state reference replays the history's setters (incl. Model-stage changes followed by realizeModel) in order with every realization and query removed; a raw variable-by-variable copy is evaluated too but only counted",
                       "BFS merging trusts the canonical key; the plain enumeration does not",
                       "added variants: the zdot cache is filled with a sentinel before each realization passing Dynamics, so an unwritten slot is reported deterministically instead of by its accidental content",
                       "CablePath wrapping surfaces are excluded: their path solver continues from the previous solution by documented design, so their results (and the only built-in event witness) are history dependent"};

    if (run.hasFlag("--list-ops")) { for (int v = 0; v < nVariants; ++v) { auto ops = makeOps(v); for (size_t i = 0; i < ops.size(); ++i) printf("variant %d op %zu %s %s\n", v, i, ops[i].isSetter ? "setter" : "query ", ops[i].name.c_str()); } return 0; }
    if (run.replaying()) {
        int variant = atoi(run.replayField("variant").c_str());
        Fixture F(variant); auto ops = makeOps(variant);
        auto h = parseIdx(run.replayField("history"));
        printf("variant %d history: %s\n", variant, histStr(ops, h).c_str());
        Outcome o = runHistory(run, F, ops, h, false);
        if (o.ok) { printf("agrees with fresh-state and copy references\n"); return 0; }
        printf("DISAGREES: key=%s %s\nVIOLATION property=C16 replay=%s\n", o.key.c_str(), o.what.c_str(), run.replayPath.c_str());
        return 1;
    }

    // ---- plain enumeration, sharded over (variant, first two ops)
    {
        std::vector<int> nops(nVariants);
        for (int v = 0; v < nVariants; ++v) nops[v] = (int)makeOps(v).size();
        struct Unit { int variant, a, b; };
        std::vector<Unit> units;
        for (int v = 0; v < nVariants; ++v) if (selected(v)) for (int a = 0; a < nops[v]; ++a) for (int b = 0; b < nops[v]; ++b) units.push_back({v, a, b});
        for (int v = 0; v < nVariants; ++v) run.count("alphabet-size-variant-" + std::to_string(v), nops[v]);
        run.parallel("plain", (int64_t)units.size(), [&](int64_t i) {
            Unit u = units[i];
            static int builtVariant = -1; static std::unique_ptr<Fixture> F; static std::vector<Op> ops;
            if (u.variant == 5 && getpid() != parentPid) silenceStdout();
            if (builtVariant != u.variant) { F.reset(new Fixture(u.variant)); ops = makeOps(u.variant); builtVariant = u.variant; }
            const int n = (int)ops.size();
            std::vector<std::vector<int>> hs;
            if (u.b == 0) hs.push_back({u.a});          // depth-1 histories once per a
            hs.push_back({u.a, u.b});
            std::function<void(std::vector<int>&)> ext = [&](std::vector<int>& h) {
                if ((int)h.size() >= plainDepthOf(u.variant)) return;
                for (int o = 0; o < n; ++o) { h.push_back(o); hs.push_back(h); ext(h); h.pop_back(); }
            };
            { std::vector<int> h = {u.a, u.b}; ext(h); }
            for (auto& h : hs) {
                bool nontrivial = false; for (int o : h) nontrivial |= ops[o].isSetter;
                run.evaluationDistinct(nontrivial);
                Outcome o = runHistory(run, *F, ops, h, false);
                run.outcome(o.obsHash);
                if (!o.ok && !o.reported) run.violation(o.key, "variant " + std::to_string(u.variant) + " history [" + histStr(ops, h) + "]: " + o.what,
                                         "section=plain\nitem=" + std::to_string(i) + "\nvariant=" + std::to_string(u.variant) + "\nhistory=" + histIdx(h) + "\n");
            }
            if (i % 977 == 0 && !hs.empty()) run.sample("variant " + std::to_string(u.variant) + ": " + histStr(ops, hs.back()));
        });
    }

    // ---- BFS with canonical-state merging, level-synchronous, variant 0 (thorough: all variants)
    int64_t bfsStates = 0, bfsTransitions = 0;
    for (int variant : bfsOrder) {
        if (!selected(variant)) continue;
        const int bfsDepth = bfsDepthOf(variant);
        auto ops = makeOps(variant);
        const int n = (int)ops.size();
        std::set<uint64_t> seen;
        std::vector<std::vector<int>> frontier = {{}};
        {   // (variant 5: the cable code prints while the State is built; keep the parent's stdout clean)
            fflush(stdout); int saved = variant == 5 ? dup(1) : -1; if (saved >= 0) { int fd = open("/dev/null", O_WRONLY); dup2(fd, 1); close(fd); }
            { Fixture F(variant); State s = F.base; seen.insert(shadowKey(ops, {}, canonKey(F, s))); }
            if (saved >= 0) { fflush(stdout); std::cout.flush(); dup2(saved, 1); close(saved); }
        }
        for (int depth = 1; depth <= bfsDepth && !frontier.empty(); ++depth) {
            if (run.expired()) break;
            std::string prefix = run.buildDir + "/tmp/C16.bfs." + std::to_string(getpid()) + ".";
            run.parallel("bfs-v" + std::to_string(variant) + "-d" + std::to_string(depth), (int64_t)frontier.size(), [&](int64_t i) {
                static int builtVariant = -1; static std::unique_ptr<Fixture> F;
                if (variant == 5 && getpid() != parentPid) silenceStdout();
                if (builtVariant != variant) { F.reset(new Fixture(variant)); builtVariant = variant; }
                static FILE* out = nullptr; static std::string outName;
                std::string want = prefix + std::to_string(getpid());
                if (outName != want) { if (out) fclose(out); out = fopen(want.c_str(), "a"); outName = want; }
                for (int o = 0; o < n; ++o) {
                    std::vector<int> h = frontier[i]; h.push_back(o);
                    bool nontrivial = false; for (int x : h) nontrivial |= ops[x].isSetter;
                    run.evaluationDistinct(nontrivial);
                    Outcome oc = runHistory(run, *F, ops, h, true);
                    if (!oc.ok && !oc.reported) run.violation(oc.key, "variant " + std::to_string(variant) + " history [" + histStr(ops, h) + "]: " + oc.what,
                                              "section=bfs\nvariant=" + std::to_string(variant) + "\nhistory=" + histIdx(h) + "\n");
                    if (oc.key != "rejected") { fprintf(out, "%llx %s\n", (unsigned long long)oc.key64, histIdx(h).c_str()); }
                }
                fflush(out);
            });
            // collect candidate successors, merge by canonical key (deterministic: sort by history)
            std::vector<std::pair<std::string, uint64_t>> cands;
            std::string dir = run.buildDir + "/tmp";
            if (DIR* d = opendir(dir.c_str())) {
                std::string base = "C16.bfs." + std::to_string(getpid()) + ".";
                while (dirent* e = readdir(d)) {
                    std::string nm = e->d_name;
                    if (nm.rfind(base, 0) != 0) continue;
                    std::ifstream in(dir + "/" + nm); std::string l;
                    while (std::getline(in, l)) { size_t sp = l.find(' '); if (sp == std::string::npos) continue; cands.push_back({l.substr(sp + 1), strtoull(l.substr(0, sp).c_str(), nullptr, 16)}); }
                    unlink((dir + "/" + nm).c_str());
                }
                closedir(d);
            }
            std::sort(cands.begin(), cands.end(), [](auto& a, auto& b) { return a.first.size() != b.first.size() ? a.first.size() < b.first.size() : a.first < b.first; });
            bfsTransitions += (int64_t)cands.size();
            std::vector<std::vector<int>> next;
            for (auto& c : cands) if (seen.insert(c.second).second) next.push_back(parseIdx(c.first));
            run.count("bfs-v" + std::to_string(variant) + "-depth" + std::to_string(depth) + "-new-states", (int64_t)next.size());
            frontier.swap(next);
            // cap the frontier deterministically if it explodes (reported; not called exhaustive then)
            const size_t cap = th ? 40000 : 12000;
            if (depth < bfsDepth && frontier.size() > cap) { run.count("bfs-frontier-capped-at-depth-" + std::to_string(depth)); frontier.resize(cap); run.exhaustive = false; }
        }
        bfsStates += (int64_t)seen.size();
    }
    run.extraCoverage["bfs"] = "{\"canonical_states\": " + std::to_string(bfsStates) + ", \"transitions\": " + std::to_string(bfsTransitions) + ", \"depth\": " + std::to_string(bfsDepth) + "}";
    run.extraCoverage["plain_depth"] = std::to_string(plainDepth);
    return run.finish();
}
