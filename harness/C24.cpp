// C24 -- Matrix factorizations solve what they claim.
// Engine E3 (enum): every matrix of a stated finite family is factored by the real
// FactorLU / FactorLLT / FactorQTZ / FactorSVD / Eigen code in every supported element
// type; every result is judged by harness arithmetic in long double (engine/refla.h):
// backward errors, normal equations + minimum norm against a one-sided-Jacobi reference
// SVD, exact integer rank/determinant/definiteness for the integer family.
#include "SimTKmath.h"
#include "verif.h"
#include "refla.h"

#include <fcntl.h>
#include <malloc.h>

using namespace SimTK;
using namespace refla;

// ---------------------------------------------------------------- element-type traits
template <class T> struct TT;
template <> struct TT<float> { typedef float R; static const bool cplx = false; static const char* name() { return "float"; }
    static float make(CL v) { return (float)v.real(); } };
template <> struct TT<double> { typedef double R; static const bool cplx = false; static const char* name() { return "double"; }
    static double make(CL v) { return (double)v.real(); } };
template <> struct TT<std::complex<float>> { typedef float R; static const bool cplx = true; static const char* name() { return "cfloat"; }
    static std::complex<float> make(CL v) { return std::complex<float>((float)v.real(), (float)v.imag()); } };
template <> struct TT<std::complex<double>> { typedef double R; static const bool cplx = true; static const char* name() { return "cdouble"; }
    static std::complex<double> make(CL v) { return std::complex<double>((double)v.real(), (double)v.imag()); } };
static inline CL toCL(float v) { return CL(v, 0); }
static inline CL toCL(double v) { return CL(v, 0); }
static inline CL toCL(const std::complex<float>& v) { return CL(v.real(), v.imag()); }
static inline CL toCL(const std::complex<double>& v) { return CL(v.real(), v.imag()); }

template <class T> static DMat refOf(const Matrix_<T>& M) { DMat A(M.nrow(), M.ncol()); for (int j = 0; j < A.n; ++j) for (int i = 0; i < A.m; ++i) A(i, j) = toCL(M(i, j)); return A; }
template <class T> static DMat refOf(const Vector_<T>& v) { DMat A(v.size(), 1); for (int i = 0; i < A.m; ++i) A(i, 0) = toCL(v[i]); return A; }
template <class T> static Matrix_<T> libOf(const DMat& A) { Matrix_<T> M(A.m, A.n); for (int j = 0; j < A.n; ++j) for (int i = 0; i < A.m; ++i) M(i, j) = TT<T>::make(A(i, j)); return M; }
template <class T> static Vector_<T> libVec(const DMat& A, int j) { Vector_<T> v(A.m); for (int i = 0; i < A.m; ++i) v[i] = TT<T>::make(A(i, j)); return v; }
template <class T> static DMat roundTo(const DMat& A) { DMat B(A.m, A.n); for (size_t k = 0; k < A.a.size(); ++k) B.a[k] = toCL(TT<T>::make(A.a[k])); return B; }
template <class T> static uint64_t bitsOf(const Matrix_<T>& M) { uint64_t h = verif::hashPod(M.nrow() * 1000 + M.ncol()); for (int j = 0; j < M.ncol(); ++j) for (int i = 0; i < M.nrow(); ++i) { T v = M(i, j); h = verif::fnv1a(&v, sizeof v, h); } return h; }
template <class T> static uint64_t bitsOf(const Vector_<T>& M) { uint64_t h = verif::hashPod(M.size()); for (int i = 0; i < M.size(); ++i) { T v = M[i]; h = verif::fnv1a(&v, sizeof v, h); } return h; }

static std::string matStr(const DMat& A) {
    std::ostringstream o; o.precision(21);
    o << "[";
    for (int i = 0; i < A.m; ++i) { o << (i ? "; " : ""); for (int j = 0; j < A.n; ++j) { o << (j ? " " : ""); o << (double)A(i, j).real(); if (A(i, j).imag() != 0) o << (A(i, j).imag() > 0 ? "+" : "") << (double)A(i, j).imag() << "i"; } }
    o << "]";
    return o.str();
}

// ---------------------------------------------------------------- a materialised case
struct Case {
    DMat A;                    // the actual values of the matrix in the element type (exactly)
    std::string desc;         // shape/index/variant
    bool hasExact = false;    // exact rank / det known (integer family, scale variants only)
    int exRank = -1;
    bool exDetZero = false;   // square only
    CL exDet = CL(0, 0);      // exact determinant (as long double complex, incl. scale^n) -- square only
    bool herm = false;        // A is exactly Hermitian
    bool hpd = false;         // A is Hermitian positive definite (exactly / by construction) and well conditioned
    bool tinyExactLU = false; // real type, n<=2, integer family: LU arithmetic is exact => isSingular <=> det==0
    double rcondExplicit = -1;
    DMat Xtrue;                // optional: b2 = A*Xtrue
    bool bigFamily = false;   // fixed family member (weak oracles when the rank is ambiguous)
};

struct Tol {   // bounds in units of eps*max(m,n) (+ truncated part); calibrated, see notes/C24.md
    double backward = 2000, normalEq = 2000, minNorm = 2000, inverse = 500, recon = 2000, ortho = 500, svals = 2000,
           eigRes = 2000, eigTrace = 500, eigDet = 2000, eigReal = 500, eigSigmin = 2000, rcondRatio = 1000, weak = 2000;
    double band = 100;   // ambiguity band around rcond for the reference rank
};
static const Tol TOL{};

struct RankInfo { int k = 0; bool amb = false; LD tiny = 0, gap = 1, rcond = 0; };
static RankInfo classify(const RefSVD& S, int m, int n, LD rcond, LD band) {
    RankInfo r; r.rcond = rcond; int mn = std::min(m, n); LD s1 = S.s1();
    if (s1 == 0) return r;
    for (int i = 0; i < mn; ++i) { LD q = S.s[i] / s1; if (q > rcond) r.k++; if (i > 0 && q > rcond / band && q < rcond * band) r.amb = true; }
    r.tiny = r.k < mn ? S.s[r.k] / s1 : 0;
    r.gap = (S.s[r.k - 1] - (r.k < n ? S.s[r.k] : 0)) / s1;
    return r;
}

// ---------------------------------------------------------------- context for one (case, type)
template <class T> struct Ctx {
    typedef typename TT<T>::R R;
    verif::Run& run; const Case& c; RefSVD S; LD epsU, s1; int m, n, mx; std::string tname;
    uint64_t oc = 0;   // coarse observed outcome of this case (ranks, flags, number of complex eigenvalues): kept coarse so that the set of distinct outcomes stays small
    Ctx(verif::Run& r, const Case& cc) : run(r), c(cc) {
        m = c.A.m; n = c.A.n; mx = std::max(std::max(m, n), 1);
        S = jacobiSVD(c.A); s1 = S.s1();
        epsU = (LD)std::numeric_limits<R>::epsilon() * mx; tname = TT<T>::name();
    }
    std::function<std::string()> where(const std::string& extra = "") const {
        const Case* cp = &c; std::string t = tname, e = extra;
        return [cp, t, e] { return cp->desc + " type=" + t + (e.empty() ? "" : " " + e) + " A=" + (cp->A.m * cp->A.n <= 16 ? matStr(cp->A) : std::string("(large)")); };
    }
    std::function<std::string()> rep() const { verif::Run* rp = &run; auto w = where(); return [rp, w] { return rp->replayHeader() + "case=" + w() + "\n"; }; }
    void res(const std::string& oracle, LD value, double bound, const std::string& suffix = "") { run.residual(oracle, (double)value, bound, where(), rep(), suffix.empty() ? tname : suffix); }
    bool exp(bool ok, const std::string& key, const std::string& what = "") { auto w = where(what); return run.expect(ok, key, [w, key] { return key + " at " + w(); }, rep()); }
};

static LD nrm(const DMat& v) { return fro(v); }

// Least-squares oracle for X ~ pinv_k(A) * B  (fact = "QTZ" / "SVD")
template <class T> static void checkLS(Ctx<T>& C, const std::string& fact, const RankInfo& ri, const DMat& B, const DMat& X, const std::string& call, const std::string& suffix = "") {
    const DMat& A = C.c.A; int m = C.m, n = C.n;
    if (!C.exp(X.m == n && X.n == B.n, fact + "." + call + ".shape", "got " + std::to_string(X.m) + "x" + std::to_string(X.n))) return;
    if (C.s1 == 0) { C.exp(maxabs(X) == 0, fact + "." + call + ".rank0-x-zero", "x must be exactly 0 for the zero matrix, max|x|=" + verif::fmtd((double)maxabs(X))); return; }
    if (!finite(X)) { C.exp(false, fact + "." + call + ".finite"); return; }
    if (ri.amb) {
        C.run.count("skipped:" + fact + "-ambiguous-rank");
        if (C.c.Xtrue.m == n && B.n >= 2 && call == "solve.matrix") {   // weak but sound oracle for b2 = A*xtrue
            DMat x = col(X, 1), xt = col(C.c.Xtrue, 0);
            // what was truncated is at most ~band*rcond*s1 in norm: residual <= c*(eps + band*rcond)*(s1*|xtrue| + |b|); |x| <~ |xtrue|
            DMat r = sub(mul(A, x), col(B, 1));
            C.res(fact + ".weak.residual", nrm(r) / (C.s1 * nrm(xt) + nrm(col(B, 1))) / (C.epsU + (LD)TOL.band * ri.rcond), TOL.weak);
            C.res(fact + ".weak.norm", nrm(x) / (nrm(xt) > 0 ? nrm(xt) : 1), 100.0);
        }
        return;
    }
    LD allow = C.epsU + ri.tiny;
    LD w0 = -1, w1 = -1, w2 = -1;
    DMat AH = herm(A);
    for (int j = 0; j < B.n; ++j) {
        DMat x = col(X, j), b = col(B, j);
        DMat r = sub(mul(A, x), b);
        LD nx = nrm(x), nb = nrm(b), den = C.s1 * nx + nb;
        if (den == 0) { w1 = std::max(w1, (LD)0); continue; }
        if (ri.k == m) w0 = std::max(w0, nrm(r) / den / allow);
        w1 = std::max(w1, nrm(mul(AH, r)) / (C.s1 * den) / allow);
        if (ri.k < n && nx > 0) {
            DMat xp(n, 1);
            for (int q = 0; q < ri.k; ++q) { CL y(0, 0); for (int i = 0; i < n; ++i) y += std::conj(C.S.V(i, q)) * x(i, 0); for (int i = 0; i < n; ++i) xp(i, 0) += C.S.V(i, q) * y; }
            w2 = std::max(w2, nrm(sub(x, xp)) / nx * ri.gap / allow);
        }
    }
    if (w0 >= 0) C.res(fact + "." + call + ".consistent", w0, TOL.backward, suffix);
    if (w1 >= 0) C.res(fact + "." + call + ".normal-eq", w1, TOL.normalEq, suffix);
    if (w2 >= 0) C.res(fact + "." + call + ".min-norm", w2, TOL.minNorm, suffix);
}

// backward error of a square solve
template <class T> static LD backward(Ctx<T>& C, const DMat& B, const DMat& X) {
    LD w = 0;
    for (int j = 0; j < B.n; ++j) {
        DMat x = col(X, j), b = col(B, j); DMat r = sub(mul(C.c.A, x), b);
        LD den = C.s1 * nrm(x) + nrm(b);
        if (den > 0) w = std::max(w, nrm(r) / den / C.epsU);
    }
    return w;
}

template <class T> static DMat rhsFor(const Case& c, DMat* xtrueOut = nullptr) {
    int m = c.A.m, n = c.A.n;
    DMat B(m, 3);
    for (int i = 0; i < m; ++i) B(i, 0) = CL(i + 1, TT<T>::cplx ? (i % 3) - 1 : 0);
    DMat xt(n, 1);
    if (c.Xtrue.m == n) xt = c.Xtrue; else for (int j = 0; j < n; ++j) xt(j, 0) = CL((j % 5) - 2, TT<T>::cplx ? (j % 3) - 1 : 0);
    DMat b2 = mul(c.A, xt);
    for (int i = 0; i < m; ++i) B(i, 1) = b2(i, 0);
    if (m > 0) B(m - 1, 2) = 1;
    if (xtrueOut) *xtrueOut = xt;
    return roundTo<T>(B);
}

// ================================================================ LU
template <class T> static void checkLU(Ctx<T>& C, const Matrix_<T>& M, const DMat& B) {
    typedef typename TT<T>::R R;
    const Case& c = C.c; int n = C.n;
    FactorLU f(M);
    bool sing = f.isSingular();
    C.run.count(sing ? "LU:flagged-singular" : "LU:not-flagged");
    if (c.hasExact) {
        C.exp(!(sing && !c.exDetZero), "LU.isSingular/nonsingular-flagged-singular", "exact det != 0");
        if (c.tinyExactLU) C.exp(sing == c.exDetZero, "LU.isSingular/exact-arithmetic-mismatch", std::string("exact det ") + (c.exDetZero ? "== 0" : "!= 0"));
        if (c.exDetZero && !sing) C.run.count("unspecified:LU-singular-matrix-not-flagged(rounding)");
        if (sing) C.exp(f.getSingularIndex() >= 1 && f.getSingularIndex() <= n, "LU.getSingularIndex/range");
    }
    if (sing) { C.run.count("skipped:LU-solve-on-flagged-singular"); return; }
    if (c.hasExact && c.exDetZero) return;   // unspecified: numerically non-singular factor of an exactly singular matrix
    Vector_<T> b1 = libVec<T>(B, 0), x1;
    f.solve(b1, x1);
    DMat X1 = refOf(x1);
    if (C.exp(X1.m == n, "LU.solve.vector.shape")) C.res("LU.solve.vector.backward", finite(X1) ? backward(C, col(B, 0), X1) : (LD)INFINITY, TOL.backward);
    Matrix_<T> Bm = libOf<T>(B), Xm;
    f.solve(Bm, Xm);
    DMat X = refOf(Xm);
    if (C.exp(X.m == n && X.n == B.n, "LU.solve.matrix.shape")) C.res("LU.solve.matrix.backward", finite(X) ? backward(C, B, X) : (LD)INFINITY, TOL.backward);
    C.oc = verif::hashMix(C.oc, 1);   // LU factor usable
    // inverse
    LD kappa = C.S.s[n - 1] > 0 ? C.s1 / C.S.s[n - 1] : INFINITY;
    Matrix_<T> Inv; f.inverse(Inv);
    DMat I = refOf(Inv);
    if (C.exp(I.m == n && I.n == n, "LU.inverse.shape")) {
        if (kappa * C.epsU < 0.01L) C.res("LU.inverse.AX=I", finite(I) ? fro(sub(mul(c.A, I), DMat::identity(n))) / (C.epsU * (kappa + 1)) : (LD)INFINITY, TOL.inverse);
        else C.run.count("skipped:LU-inverse-ill-conditioned");
    }
    // getL / getU: "returns the lower/upper triangle of an LU factorization": L lower, U upper, L*U = row permutation of A
    if (n <= 4) {
        Matrix_<T> Lm, Um; f.getL(Lm); f.getU(Um);
        DMat L = refOf(Lm), U = refOf(Um);
        bool shapes = L.m == n && L.n == n && U.m == n && U.n == n;
        if (C.exp(shapes, "LU.getLU.shape")) {
            LD up = 0, lo = 0;
            for (int i = 0; i < n; ++i) for (int j = 0; j < n; ++j) { if (j > i) up = std::max(up, std::abs(L(i, j))); if (j < i) lo = std::max(lo, std::abs(U(i, j))); }
            C.exp(up == 0, "LU.getL/not-lower-triangular", "max |L(i,j>i)| = " + verif::fmtd((double)up));
            C.exp(lo == 0, "LU.getU/not-upper-triangular", "max |U(i,j<i)| = " + verif::fmtd((double)lo));
            // L may or may not carry the unit diagonal explicitly: accept either reading
            LD best = INFINITY;
            for (int variant = 0; variant < 2; ++variant) {
                DMat L2 = L; if (variant == 1) for (int i = 0; i < n; ++i) L2(i, i) = 1;
                DMat P = mul(L2, U);
                std::vector<int> perm(n); for (int i = 0; i < n; ++i) perm[i] = i;
                do {
                    LD e = 0; for (int i = 0; i < n; ++i) for (int j = 0; j < n; ++j) e = std::max(e, std::abs(P(i, j) - c.A(perm[i], j)));
                    best = std::min(best, e);
                } while (std::next_permutation(perm.begin(), perm.end()));
            }
            C.res("LU.getLU.LU=PA", best / (C.s1 * C.epsU), TOL.recon, "all-types");
        }
    }
}

// ================================================================ LLT
template <class T> static void checkLLT(Ctx<T>& C, const Matrix_<T>& M, const DMat& B) {
    const Case& c = C.c; int n = C.n;
    if (!c.herm) return;
    if (!c.hpd) {   // docs are silent on non-SPD input and there is no public failure flag: only "does not crash" is observed
        FactorLLT f(M); Vector_<T> b1 = libVec<T>(B, 0), x1; f.solve(b1, x1);
        C.run.count(finite(refOf(x1)) ? "unspecified:LLT-nonSPD-finite-result" : "unspecified:LLT-nonSPD-nonfinite-result");
        return;
    }
    C.run.count("LLT:spd-cases");
    FactorLLT f(M);
    Vector_<T> b1 = libVec<T>(B, 0), x1; f.solve(b1, x1);
    DMat X1 = refOf(x1);
    if (C.exp(X1.m == n, "LLT.solve.vector.shape")) C.res("LLT.solve.vector.backward", finite(X1) ? backward(C, col(B, 0), X1) : (LD)INFINITY, TOL.backward);
    Matrix_<T> Bm = libOf<T>(B), Xm; f.solve(Bm, Xm);
    DMat X = refOf(Xm);
    if (C.exp(X.m == n && X.n == B.n, "LLT.solve.matrix.shape")) C.res("LLT.solve.matrix.backward", finite(X) ? backward(C, B, X) : (LD)INFINITY, TOL.backward);
    LD kappa = C.S.s[n - 1] > 0 ? C.s1 / C.S.s[n - 1] : INFINITY;
    Matrix_<T> Inv; f.inverse(Inv); DMat I = refOf(Inv);
    if (C.exp(I.m == n && I.n == n, "LLT.inverse.shape") && kappa * C.epsU < 0.01L)
        C.res("LLT.inverse.AX=I", finite(I) ? fro(sub(mul(c.A, I), DMat::identity(n))) / (C.epsU * (kappa + 1)) : (LD)INFINITY, TOL.inverse);
    Matrix_<T> Lm; f.getL(Lm); DMat L = refOf(Lm);
    if (C.exp(L.m == n && L.n == n, "LLT.getL.shape")) {
        LD up = 0; bool diagPos = true;
        for (int i = 0; i < n; ++i) { for (int j = i + 1; j < n; ++j) up = std::max(up, std::abs(L(i, j))); if (!(L(i, i).real() > 0) || L(i, i).imag() != 0) diagPos = false; }
        C.exp(up == 0, "LLT.getL/not-lower-triangular");
        C.exp(diagPos, "LLT.getL/diagonal-not-positive-real");
        C.res("LLT.getL.LLh=A", fro(sub(mul(L, herm(L)), c.A)) / (C.s1 * C.epsU), TOL.recon);
    }
    // reuse: factor() on an object that held another matrix == fresh object (bitwise)
    { Matrix_<T> other(n + 1, n + 1); other = T(0); for (int i = 0; i <= n; ++i) other(i, i) = T(i + 2);
      FactorLLT g(other); g.factor(M); Vector_<T> x2; g.solve(b1, x2);
      C.exp(bitsOf(x1) == bitsOf(x2), "LLT.reuse/refactor-differs-from-fresh");
      FactorLLT h(f); Vector_<T> x3; h.solve(b1, x3); C.exp(bitsOf(x1) == bitsOf(x3), "LLT.copy/differs-from-original"); }
}

// ================================================================ QTZ
template <class T> static void checkQTZ(Ctx<T>& C, const Matrix_<T>& M, const DMat& B, bool reuse) {
    typedef typename TT<T>::R R;
    const Case& c = C.c; int m = C.m, n = C.n;
    LD rcond = c.rcondExplicit > 0 ? (LD)(R)c.rcondExplicit : (LD)(std::max(m, n) * NTraits<R>::getSignificant());
    RankInfo ri = classify(C.S, m, n, rcond, TOL.band);
    std::string cls = TT<T>::cplx ? "complex" : "real";
    FactorQTZ f;
    if (c.rcondExplicit > 0) f = FactorQTZ(M, (R)c.rcondExplicit); else f = FactorQTZ(M);
    int rank = f.getRank();
    if (!ri.amb) {
        if (c.hasExact && ri.k != c.exRank) C.run.harnessError("reference rank " + std::to_string(ri.k) + " != exact rank " + std::to_string(c.exRank) + " at " + C.where()());
        C.exp(rank == ri.k, "QTZ.getRank", "lib rank " + std::to_string(rank) + " reference rank " + std::to_string(ri.k));
        C.run.count("QTZ:rank=" + std::to_string(std::min(rank, 5)) + (rank < std::min(m, n) ? "(deficient)" : "(full)"));
        if (rank >= 1 && rank == ri.k) {
            double rc = f.getRCondEstimate();
            LD truth = C.S.s[rank - 1] / C.s1;
            LD ratio = (rc > 0 && std::isfinite(rc)) ? std::max((LD)rc / truth, truth / (LD)rc) : (LD)INFINITY;
            C.res(rank == 1 ? "QTZ.getRCondEstimate.rank1-must-be-1" : "QTZ.getRCondEstimate.ratio-to-true", ratio, TOL.rcondRatio, "all-types");
        }
    } else C.run.count("skipped:QTZ-rank-ambiguous");
    bool threw = false; std::string msg;
    Vector_<T> b1 = libVec<T>(B, 0), x1;
    try { f.solve(b1, x1); } catch (const std::exception& e) { threw = true; msg = e.what(); }
    if (!C.exp(!threw, "QTZ.solve-throws/" + cls, msg.substr(0, 160))) return;
    checkLS(C, "QTZ", ri, col(B, 0), refOf(x1), "solve.vector");
    Matrix_<T> Bm = libOf<T>(B), Xm(n, B.n); for (int i = 0; i < n; ++i) for (int j = 0; j < B.n; ++j) Xm(i, j) = T(7);   // sentinel: solve must overwrite it
    f.solve(Bm, Xm);
    checkLS(C, "QTZ", ri, B, refOf(Xm), "solve.matrix");
    C.oc = verif::hashMix(C.oc, 100 + rank + (ri.amb ? 50 : 0));
    if (m == n) {   // inverse of a non-square matrix through QTZ: not defined by the docs, not called (see notes)
        Matrix_<T> Inv; f.inverse(Inv);
        checkLS(C, "QTZ", ri, DMat::identity(n), refOf(Inv), "inverse");
    }
    if (reuse && C.s1 == 0) C.run.count("skipped:QTZ-reuse-on-zero-matrix(x-is-uninitialised)");
    if (reuse && C.s1 > 0) {
        Matrix_<T> other(n + 1, m + 2); other = T(1); for (int i = 0; i < std::min(n + 1, m + 2); ++i) other(i, i) = T(i + 3);
        FactorQTZ g(other);
        if (c.rcondExplicit > 0) g.factor(M, (R)c.rcondExplicit); else g.factor(M);
        Vector_<T> x2; g.solve(b1, x2);
        C.exp(bitsOf(x1) == bitsOf(x2) && g.getRank() == rank, "QTZ.reuse/refactor-differs-from-fresh");
        FactorQTZ h(f); Vector_<T> x3; h.solve(b1, x3); C.exp(bitsOf(x1) == bitsOf(x3) && h.getRank() == rank, "QTZ.copy/differs-from-original");
    }
}

// ================================================================ SVD
template <class T> static void checkSVD(Ctx<T>& C, const Matrix_<T>& M, const DMat& B, bool reuse) {
    typedef typename TT<T>::R R;
    const Case& c = C.c; int m = C.m, n = C.n, mn = std::min(m, n);
    LD rcond = c.rcondExplicit > 0 ? (LD)(R)c.rcondExplicit : (LD)(std::max(m, n) * NTraits<R>::getSignificant());
    RankInfo ri = classify(C.S, m, n, rcond, TOL.band);
    FactorSVD f;
    if (c.rcondExplicit > 0) f = FactorSVD(M, (R)c.rcondExplicit); else f = FactorSVD(M);
    // singular values only
    Vector_<R> sv; f.getSingularValues(sv);
    if (C.exp(sv.size() == mn, "SVD.getSingularValues.size")) {
        LD w = 0; bool ordered = true;
        for (int i = 0; i < mn; ++i) { w = std::max(w, std::fabs((LD)sv[i] - C.S.s[i])); if (!(sv[i] >= 0) || (i && sv[i] > sv[i - 1])) ordered = false; }
        C.exp(ordered, "SVD.getSingularValues/not-descending-nonnegative");
        if (C.s1 > 0) C.res("SVD.getSingularValues.vs-reference", w / (C.s1 * C.epsU), TOL.svals); else C.exp(w == 0, "SVD.getSingularValues/zero-matrix-nonzero-values");
    }
    // values + vectors
    Vector_<R> sv2; Matrix_<T> Um, Rm;
    f.getSingularValuesAndVectors(sv2, Um, Rm);
    DMat U = refOf(Um), Rt = refOf(Rm);
    if (C.exp(sv2.size() == mn && U.m == m && U.n == m && Rt.m == n && Rt.n == n, "SVD.getSingularValuesAndVectors.shape")) {
        LD w = 0; bool ordered = true;
        for (int i = 0; i < mn; ++i) { w = std::max(w, std::fabs((LD)sv2[i] - C.S.s[i])); if (!(sv2[i] >= 0) || (i && sv2[i] > sv2[i - 1])) ordered = false; }
        C.exp(ordered, "SVD.getSingularValuesAndVectors/not-descending-nonnegative");
        LD sc = C.s1 > 0 ? C.s1 : 1;
        C.res("SVD.vectors.values-vs-reference", w / (sc * C.epsU), TOL.svals);
        C.res("SVD.vectors.U-orthonormal", maxabs(sub(mul(herm(U), U), DMat::identity(m))) / C.epsU, TOL.ortho);
        C.res("SVD.vectors.V-orthonormal", maxabs(sub(mul(Rt, herm(Rt)), DMat::identity(n))) / C.epsU, TOL.ortho);
        DMat D(m, n); for (int i = 0; i < mn; ++i) D(i, i) = (LD)sv2[i];
        LD r1 = fro(sub(mul(mul(U, D), Rt), c.A)), r2 = fro(sub(mul(mul(U, D), herm(Rt)), c.A));
        C.run.count(r1 <= r2 ? "SVD:rightVectors-is-Vh" : "SVD:rightVectors-is-V");
        C.res("SVD.vectors.USV=A", std::min(r1, r2) / (sc * C.epsU), TOL.recon);
    }
    // rank
    if (!ri.amb) { int rk = f.getRank(); C.exp(rk == ri.k, "SVD.getRank", "lib rank " + std::to_string(rk) + " reference rank " + std::to_string(ri.k)); }
    // solves
    Vector_<T> b1 = libVec<T>(B, 0), x1; f.solve(b1, x1);
    checkLS(C, "SVD", ri, col(B, 0), refOf(x1), "solve.vector");
    Matrix_<T> Bm = libOf<T>(B), Xm; f.solve(Bm, Xm);
    checkLS(C, "SVD", ri, B, refOf(Xm), "solve.matrix");
    if (!ri.amb) { int rk = f.getRank(); C.exp(rk == ri.k, "SVD.getRank-after-solve", "lib rank " + std::to_string(rk) + " reference rank " + std::to_string(ri.k)); }
    C.oc = verif::hashMix(C.oc, 200 + ri.k + (ri.amb ? 50 : 0));
    // (pseudo-)inverse: square and wide; a tall matrix makes inverse() throw an argument-check exception (unspecified, counted)
    if (m <= n) { Matrix_<T> Inv; f.inverse(Inv); checkLS(C, "SVD", ri, DMat::identity(m), refOf(Inv), "inverse"); }
    else { bool threw = false; try { Matrix_<T> Inv; f.inverse(Inv); } catch (const std::exception&) { threw = true; } C.run.count(threw ? "unspecified:SVD-inverse-tall-throws" : "unspecified:SVD-inverse-tall-returns"); }
    if (reuse) {
        Matrix_<T> other(n + 1, m + 2); other = T(1); for (int i = 0; i < std::min(n + 1, m + 2); ++i) other(i, i) = T(i + 3);
        FactorSVD g(other); Vector_<R> tmp; g.getSingularValues(tmp);
        if (c.rcondExplicit > 0) g.factor(M, (R)c.rcondExplicit); else g.factor(M);
        Vector_<T> x2; g.solve(b1, x2);
        C.exp(bitsOf(x1) == bitsOf(x2), "SVD.reuse/refactor-differs-from-fresh");
        FactorSVD h(f); Vector_<T> x3; h.solve(b1, x3); C.exp(bitsOf(x1) == bitsOf(x3), "SVD.copy/differs-from-original");
    }
}

// Parlett-Reinsch diagonal balancing (powers of two, no permutation).  xGEEV balances its input, so its results are
// backward stable with respect to the *balanced* matrix D^-1 A D; the residual oracles accept either coordinate system.
static std::vector<LD> balanceScaling(const DMat& A0) {
    int n = A0.n; DMat A = A0; std::vector<LD> d(n, 1);
    for (int iter = 0; iter < 100; ++iter) {
        bool conv = true;
        for (int i = 0; i < n; ++i) {
            LD c = 0, r = 0;
            for (int j = 0; j < n; ++j) if (j != i) { c += std::abs(A(j, i)); r += std::abs(A(i, j)); }
            if (c == 0 || r == 0) continue;
            LD g = r / 2, f = 1, s = c + r;
            while (c < g) { f *= 2; c *= 4; }
            g = r * 2;
            while (c >= g) { f /= 2; c /= 4; }
            if ((c + r) / f < 0.95L * s) {
                conv = false; d[i] *= f;
                for (int j = 0; j < n; ++j) A(i, j) /= f;
                for (int j = 0; j < n; ++j) A(j, i) *= f;
            }
        }
        if (conv) break;
    }
    return d;
}
static DMat balanced(const DMat& A, const std::vector<LD>& d) { DMat B = A; for (int i = 0; i < A.m; ++i) for (int j = 0; j < A.n; ++j) B(i, j) = A(i, j) * d[j] / d[i]; return B; }

// ================================================================ Eigen
template <class T> static void checkEigen(Ctx<T>& C, const Matrix_<T>& M) {
    typedef typename TT<T>::R R; typedef std::complex<R> CR;
    const Case& c = C.c; int n = C.n;
    Eigen e(M);
    Vector_<CR> val; Matrix_<CR> vec(n, n);   // pre-sized: see section "edge" for the unsized call
    e.getAllEigenValuesAndVectors(val, vec);
    DMat L = refOf(val), V = refOf(vec);
    LD sc = C.s1 > 0 ? C.s1 : 1;
    if (!C.exp(L.m == n && V.m == n && V.n == n, "Eigen.getAllEigenValuesAndVectors.shape")) return;
    if (!C.exp(finite(L) && finite(V), "Eigen.getAllEigenValuesAndVectors.finite")) return;
    bool smallImag = false; int ncomplex = 0;
    for (int j = 0; j < n; ++j) { LD im = std::fabs(L(j, 0).imag()); if (im != 0) ncomplex++; if (!TT<T>::cplx && im != 0 && im < 1e-6L) smallImag = true; }
    LD w = 0; bool nonzero = true;
    std::vector<LD> dbal = balanceScaling(c.A); DMat Bal = balanced(c.A, dbal); LD nB = fro(Bal);
    bool scaled = false; LD dmax = 1, dmin = 1; for (LD x : dbal) { if (x != 1) scaled = true; dmax = std::max(dmax, x); dmin = std::min(dmin, x); }
    // rigorous consequence of backward stability w.r.t. the balanced matrix B = D^-1 A D:  |Av-lv| <= c eps cond(D) |B| |v|
    const LD balFac = scaled ? std::max((LD)1, (dmax / dmin) * (nB / sc)) : (LD)1;
    C.run.count(scaled ? "Eigen:balancing-rescales" : "Eigen:balancing-is-identity");
    for (int j = 0; j < n; ++j) {
        DMat v = col(V, j); LD nv = nrm(v);
        if (!(nv > 0)) { nonzero = false; continue; }
        DMat r = mul(c.A, v); for (int i = 0; i < n; ++i) r(i, 0) -= L(j, 0) * v(i, 0);
        w = std::max(w, nrm(r) / (sc * nv) / C.epsU / balFac);
    }
    C.exp(nonzero, "Eigen.vectors/zero-eigenvector");
    // real element types: LapackInterface::geev decides "eigenvalue is real" by |imag| < 1e-6 (absolute)
    C.res(smallImag ? "Eigen.vectors.Av=lv.real-type-with-0<|imag(lambda)|<1e-6" : "Eigen.vectors.Av=lv", w, TOL.eigRes, smallImag ? std::string("all-real-types") : C.tname);
    CL tr(0, 0), sum(0, 0), prod(1, 0);
    for (int i = 0; i < n; ++i) { tr += c.A(i, i); sum += L(i, 0); prod *= L(i, 0); }
    C.res("Eigen.vectors.trace", std::abs(sum - tr) / (sc * C.epsU * n), TOL.eigTrace);
    if (c.hasExact) { LD scn = 1; for (int i = 0; i < n; ++i) scn *= sc; C.res("Eigen.vectors.det", std::abs(prod - c.exDet) / (scn * C.epsU * n), TOL.eigDet); }
    if (c.herm) { LD im = 0; for (int i = 0; i < n; ++i) im = std::max(im, std::fabs(L(i, 0).imag())); C.res("Eigen.hermitian-eigenvalues-real", im / (sc * C.epsU), TOL.eigReal); C.run.count("Eigen:hermitian-cases"); }
    C.run.count("Eigen:complex-eigenvalue-cases", ncomplex ? 1 : 0);
    C.oc = verif::hashMix(C.oc, 300 + ncomplex + (smallImag ? 50 : 0));
    // values only (different LAPACK job): every value must be an eigenvalue of a nearby matrix: sigma_min(A - l I) small
    Eigen e2(M); Vector_<CR> val2; e2.getAllEigenValues(val2);
    DMat L2 = refOf(val2);
    if (C.exp(L2.m == n && finite(L2), "Eigen.getAllEigenValues.shape")) {
        CL s2(0, 0); for (int i = 0; i < n; ++i) s2 += L2(i, 0);
        C.res("Eigen.values.trace", std::abs(s2 - tr) / (sc * C.epsU * n), TOL.eigTrace);
        if (n <= 8) {
            LD ws = 0;
            for (int j = 0; j < n; ++j) {
                DMat Sh = c.A; for (int i = 0; i < n; ++i) Sh(i, i) -= L2(j, 0);
                ws = std::max(ws, jacobiSVD(Sh).s[n - 1] / sc / C.epsU / balFac);
            }
            C.res("Eigen.values.sigma-min(A-lI)", ws, TOL.eigSigmin);
        }
    }
    // copy of the object gives the same answer
    Eigen e3(e2); Vector_<CR> val3; e3.getAllEigenValues(val3);
    C.exp(bitsOf(val2) == bitsOf(val3), "Eigen.copy/differs-from-original");
}

// ================================================================ run every factorization on one (case, type)
static double g_t[8];   // bench timers: setup, LU, LLT, Eigen, QTZ, SVD
template <class T> static void runCase(verif::Run& run, const Case& c0, bool reuse) {
    double tS = run.elapsed();
    Case c = c0;
    c.A = roundTo<T>(c0.A);      // generators already produce representable values; this is a no-op guard for real types dropping imag
    if (!TT<T>::cplx) for (auto& z : c.A.a) z = CL(z.real(), 0);
    Ctx<T> C(run, c);
    DMat xt; DMat B = rhsFor<T>(c, &xt);
    if (c.bigFamily) c.Xtrue = xt;
    Matrix_<T> M = libOf<T>(c.A);
    bool nontrivial = C.s1 > 0;
    g_t[0] += run.elapsed() - tS;
    run.evaluationDistinct(nontrivial);
    if (run.verbose) fprintf(stderr, "case %s type=%s A=%s\n  ref singular values:", c.desc.c_str(), TT<T>::name(), matStr(c.A).c_str());
    if (run.verbose) { for (auto s : C.S.s) fprintf(stderr, " %.6Lg", s); fprintf(stderr, "\n"); }
    double t0 = run.elapsed();
    if (C.m == C.n) { checkLU(C, M, B); g_t[1] += run.elapsed() - t0; t0 = run.elapsed(); checkLLT(C, M, B); g_t[2] += run.elapsed() - t0; t0 = run.elapsed(); checkEigen(C, M); g_t[3] += run.elapsed() - t0; t0 = run.elapsed(); }
    checkQTZ(C, M, B, reuse); g_t[4] += run.elapsed() - t0; t0 = run.elapsed();
    checkSVD(C, M, B, reuse); g_t[5] += run.elapsed() - t0;
    run.outcome(verif::hashMix(verif::hashMix(C.oc, verif::hashStr(TT<T>::name())), (uint64_t)(C.m * 100 + C.n)));
}
static void runAllTypes(verif::Run& run, const Case& real, const Case& cplx, bool reuse) {
    runCase<float>(run, real, reuse); runCase<double>(run, real, reuse);
    runCase<std::complex<float>>(run, cplx, reuse); runCase<std::complex<double>>(run, cplx, reuse);
}

// ================================================================ the integer family
static const int VALS[4] = {-1, 0, 1, 2};
struct Shape { std::string name; int m, n; int digits; int kind; };   // kind 0 = full, 1 = symmetric, 2 = complete complex 2x2
static std::vector<Shape> shapes(bool thorough) {
    std::vector<Shape> v = {{"1x1", 1, 1, 1, 0}, {"1x2", 1, 2, 2, 0}, {"2x1", 2, 1, 2, 0}, {"1x3", 1, 3, 3, 0}, {"3x1", 3, 1, 3, 0}, {"1x4", 1, 4, 4, 0}, {"4x1", 4, 1, 4, 0},
                            {"2x2", 2, 2, 4, 0}, {"2x3", 2, 3, 6, 0}, {"3x2", 3, 2, 6, 0}, {"sym3x3", 3, 3, 6, 1}};
    if (thorough) { v.push_back({"3x3", 3, 3, 9, 0}); v.push_back({"2x4", 2, 4, 8, 0}); v.push_back({"4x2", 4, 2, 8, 0}); v.push_back({"c2x2", 2, 2, 8, 2}); }
    return v;
}
enum Variant { V_PLAIN = 0, V_SMALL, V_BIG, V_PERT_LO, V_PERT_HI, V_PERT_MID, V_PERT_MID_RCOND, V_COUNT };
static const char* VNAME[] = {"scale1", "scale1e-8", "scale1e8", "perturb-lo", "perturb-hi", "perturb-mid", "perturb-mid-rcond"};

// integer entries (row-major) of the real and the complex reading of family member idx
static void intEntries(const Shape& s, int64_t idx, std::vector<GI>& re, std::vector<GI>& cx) {
    int m = s.m, n = s.n; std::vector<int> d(s.digits);
    for (int k = 0; k < s.digits; ++k) { d[k] = VALS[idx % 4]; idx /= 4; }
    re.assign(m * n, GI()); cx.assign(m * n, GI());
    if (s.kind == 0) {
        for (int k = 0; k < m * n; ++k) { re[k] = GI(d[k]); cx[k] = GI(d[k], d[(k + 1) % (m * n)]); }
    } else if (s.kind == 1) {   // symmetric real part; Hermitian complex reading: imag antisymmetric, taken from the neighbouring digit
        int t = 0;
        for (int i = 0; i < n; ++i) for (int j = i; j < n; ++j) {
            int v = d[t], w = d[(t + 1) % s.digits]; ++t;
            re[i * n + j] = re[j * n + i] = GI(v);
            if (i == j) cx[i * n + j] = GI(v); else { cx[i * n + j] = GI(v, w); cx[j * n + i] = GI(v, -w); }
        }
    } else {
        for (int k = 0; k < 4; ++k) { re[k] = GI(d[k]); cx[k] = GI(d[k], d[4 + k]); }
    }
}
static bool isHerm(const std::vector<GI>& M, int n) { for (int i = 0; i < n; ++i) for (int j = 0; j < n; ++j) if (M[i * n + j].re != M[j * n + i].re || M[i * n + j].im != -M[j * n + i].im) return false; return true; }

template <class R> static Case intCase(const Shape& s, int64_t idx, int variant, const std::vector<GI>& ints, bool cplxReading) {
    Case c; int m = s.m, n = s.n; c.A = DMat(m, n);
    R scale = variant == V_SMALL ? (R)1e-8 : variant == V_BIG ? (R)1e8 : (R)1;
    bool pert = variant >= V_PERT_LO;
    // perturbation sizes straddle the default and the explicit rcond of the type
    LD eps = std::numeric_limits<R>::epsilon();
    LD delta = 0;
    bool isF = sizeof(R) == 4;
    if (variant == V_PERT_LO) delta = 4 * eps;
    if (variant == V_PERT_HI) delta = 1.0L / 128;
    if (variant == V_PERT_MID || variant == V_PERT_MID_RCOND) delta = isF ? 1.0L / 131072 : 1.0L / 16777216;   // 2^-17, 2^-24
    if (variant == V_PERT_MID_RCOND) c.rcondExplicit = isF ? 1e-2 : 1e-5;
    for (int i = 0; i < m; ++i) for (int j = 0; j < n; ++j) {
        GI g = ints[i * n + j];
        if (!pert) { R re = (R)g.re * scale, im = (R)g.im * scale; c.A(i, j) = CL(re, im); }     // exact: k*fl(1e-8) is representable for k in {-1,0,1,2}
        else {
            LD er = (LD)((3 * i + 5 * j + 1) % 7 - 3) / 4, ei = cplxReading ? (LD)((5 * i + 3 * j + 2) % 7 - 3) / 4 : 0;
            R re = (R)((LD)g.re + delta * er), im = (R)((LD)g.im + delta * ei);
            c.A(i, j) = CL(re, im);
        }
    }
    c.desc = "family=int shape=" + s.name + " idx=" + std::to_string(idx) + " variant=" + VNAME[variant];
    if (!pert) {
        c.hasExact = true; c.exRank = exactRank(ints, m, n);
        if (m == n) {
            GI d = exactDet(ints, n); c.exDetZero = d.zero();
            LD sn = 1; for (int i = 0; i < n; ++i) sn *= (LD)scale;
            c.exDet = CL((LD)d.re * sn, (LD)d.im * sn);
            c.herm = isHerm(ints, n); c.hpd = c.herm && exactHPD(ints, n);
            c.tinyExactLU = !cplxReading && n <= 2;
        }
    }
    return c;
}

// ================================================================ the fixed family (sizes up to 40)
struct Fixed { std::string kind; int m, n, k; };
static std::vector<Fixed> fixedFamily(bool thorough) {
    std::vector<Fixed> v;
    for (int n : {2, 3, 5, 8, 12, 20, 40}) v.push_back({"hilbert", n, n, 0});
    for (int n : {3, 5, 8, 12, 20, 40}) v.push_back({"vandermonde", n, n, 0});
    for (int n : {3, 5, 8}) { v.push_back({"vandermonde", n + 5, n, 0}); v.push_back({"vandermonde", 40, n, 0}); }
    std::vector<std::pair<int, int>> shp = {{5, 5}, {8, 6}, {6, 8}, {16, 16}, {33, 17}, {17, 33}, {40, 40}};
    for (auto& p : shp) { int mn = std::min(p.first, p.second); for (int k : {0, 1, 2, mn / 2, mn - 1, mn}) v.push_back({"outer", p.first, p.second, k}); }
    for (int n : {1, 2, 3, 4, 5, 6, 7, 8, 16, 17, 31, 32, 33, 40}) v.push_back({"pattern", n, n, 0});
    for (auto& p : std::vector<std::pair<int, int>>{{40, 20}, {20, 40}, {33, 16}, {16, 33}, {40, 1}, {1, 40}, {40, 39}, {39, 40}}) v.push_back({"pattern", p.first, p.second, 0});
    for (int n : {1, 2, 3, 8, 17, 32, 40}) v.push_back({"spd-ones", n, n, 0});
    for (int n : {4, 8, 16, 40}) v.push_back({"lehmer", n, n, 0});
    for (int n : {2, 3, 4}) v.push_back({"hilbert-spd", n, n, 0});
    for (int n : {5, 16, 40}) v.push_back({"gram", n, n, 0});
    if (thorough) for (int n = 9; n <= 40; ++n) if (n != 16 && n != 17 && n != 31 && n != 32 && n != 33 && n != 40) v.push_back({"pattern", n, n, 0});
    if (thorough) for (int k = 0; k <= 40; ++k) if (k > 2 && k != 20 && k != 39 && k != 40) v.push_back({"outer", 40, 40, k});
    return v;
}
static LD patt(int i, int j) { return (LD)((7 * i + 13 * j + 5 * i * j) % 11 - 5); }
static LD patq(int i, int j) { return (LD)((5 * i + 3 * j + 7 * i * j) % 9 - 4); }
template <class T> static Case fixedCase(const Fixed& f) {
    const bool cx = TT<T>::cplx;
    Case c; int m = f.m, n = f.n; c.A = DMat(m, n); c.bigFamily = true;
    c.desc = "family=fixed kind=" + f.kind + " shape=" + std::to_string(m) + "x" + std::to_string(n) + (f.kind == "outer" ? " rank=" + std::to_string(f.k) : "");
    auto I = [](LD re, LD im) { return CL(re, im); };
    if (f.kind == "hilbert" || f.kind == "hilbert-spd") { for (int i = 0; i < m; ++i) for (int j = 0; j < n; ++j) c.A(i, j) = I(1 / (LD)(i + j + 1), 0); c.herm = true; c.hpd = f.kind == "hilbert-spd"; }
    else if (f.kind == "vandermonde") { for (int i = 0; i < m; ++i) { LD t = (LD)(i + 1) / m; LD p = 1; for (int j = 0; j < n; ++j) { c.A(i, j) = I(p, cx ? p * (LD)((j % 3) - 1) / 2 : 0); p *= t; } } }
    else if (f.kind == "pattern") { for (int i = 0; i < m; ++i) for (int j = 0; j < n; ++j) c.A(i, j) = I(patt(i, j), cx ? patq(i, j) : 0); }
    else if (f.kind == "outer") {   // A = U * W^T with U = [I_k; P], W = [I_k; Q]: exact rank k, small integer entries
        int k = f.k; DMat U(m, k), W(k, n);
        for (int i = 0; i < m; ++i) for (int q = 0; q < k; ++q) U(i, q) = i < k ? CL(i == q ? 1 : 0, 0) : I((LD)((i + 2 * q) % 3 - 1), cx ? (LD)((2 * i + q) % 3 - 1) : 0);
        for (int q = 0; q < k; ++q) for (int j = 0; j < n; ++j) W(q, j) = j < k ? CL(j == q ? 1 : 0, 0) : I((LD)((2 * j + q) % 3 - 1), cx ? (LD)((j + q) % 3 - 1) : 0);
        if (k > 0) c.A = mul(U, W);
        c.hasExact = true; c.exRank = k; c.exDetZero = (m == n && k < n); c.exDet = CL(0, 0);
        if (m == n && k == n) c.hasExact = false;   // det not tracked
    }
    else if (f.kind == "spd-ones") { for (int i = 0; i < n; ++i) for (int j = 0; j < n; ++j) c.A(i, j) = I((i == j ? n : 0) + 1, cx && i != j ? (i < j ? 1 : -1) : 0); c.herm = c.hpd = true; }
    else if (f.kind == "lehmer") { for (int i = 0; i < n; ++i) for (int j = 0; j < n; ++j) c.A(i, j) = I((LD)(std::min(i, j) + 1) / (std::max(i, j) + 1), 0); c.herm = c.hpd = true; }
    else if (f.kind == "gram") { DMat P(n + 3, n); for (int i = 0; i < n + 3; ++i) for (int j = 0; j < n; ++j) P(i, j) = I(patt(i, j), cx ? patq(i, j) : 0); c.A = mul(herm(P), P); for (int i = 0; i < n; ++i) c.A(i, i) += 16 * n; c.herm = c.hpd = true; }
    c.A = roundTo<T>(c.A);
    if (c.herm) for (int i = 0; i < n; ++i) for (int j = 0; j < i; ++j) c.A(i, j) = std::conj(c.A(j, i));   // keep exactly Hermitian after rounding
    if (c.hasExact && !(m == n)) c.exDetZero = false;
    // the rcond in force (for the weak oracle): default
    c.rcondExplicit = -1;
    return c;
}

// ================================================================ edge section helpers
// run fn in a forked child: 0 = returned, 1 = threw std::exception, 2 = died with a signal, 3 = other
static int probe(const std::function<void()>& fn) {
    fflush(stdout); fflush(stderr);
    pid_t p = fork();
    if (p == 0) { try { fn(); } catch (const std::exception&) { _exit(11); } catch (...) { _exit(12); } _exit(0); }
    int st = 0; waitpid(p, &st, 0);
    if (WIFSIGNALED(st)) return 2;
    if (WIFEXITED(st) && WEXITSTATUS(st) == 0) return 0;
    if (WIFEXITED(st) && WEXITSTATUS(st) == 11) return 1;
    return 3;
}
static const char* PROBE[] = {"returned", "threw", "crashed", "other"};

template <class T> static void edgeCases(verif::Run& run, int which) {
    typedef typename TT<T>::R R; typedef std::complex<R> CR;
    std::string t = TT<T>::name();
    auto key = [&](const std::string& k) { return k; };
    auto W = [&](const std::string& s) { return [s, t] { return s + " type=" + t; }; };
    auto rp = [&] { return run.replayHeader(); };
    run.evaluationDistinct(true);
    if (which == 0) {   // zero-dimension matrices: graceful (exception or empty result), never a crash
        for (auto dims : std::vector<std::pair<int, int>>{{0, 0}, {0, 3}, {3, 0}}) {
            int m = dims.first, n = dims.second; std::string d = std::to_string(m) + "x" + std::to_string(n);
            int a = probe([&] { Matrix_<T> z(m, n); FactorLU f(z); });
            int b = probe([&] { Matrix_<T> z(m, n); FactorQTZ f(z); });
            int c = probe([&] { Matrix_<T> z(m, n); FactorLLT f(z); });
            int e = probe([&] { Matrix_<T> z(m, n); FactorSVD f(z); Vector_<R> s; f.getSingularValues(s); if (s.size() != 0) abort(); Vector_<T> bb(m), x; f.solve(bb, x); Matrix_<T> U, V; f.getSingularValuesAndVectors(s, U, V); });
            run.expect(a != 2 && a != 3, key("edge.zero-dim/LU-crash"), W("LU " + d + " " + PROBE[a]), rp);
            run.expect(b != 2 && b != 3, key("edge.zero-dim/QTZ-crash"), W("QTZ " + d + " " + PROBE[b]), rp);
            run.expect(c != 2 && c != 3, key("edge.zero-dim/LLT-crash"), W("LLT " + d + " " + PROBE[c]), rp);
            run.expect(e != 2 && e != 3, key("edge.zero-dim/SVD-crash"), W("SVD " + d + " " + PROBE[e]), rp);
            run.count(std::string("edge:zero-dim-LU-") + PROBE[a]); run.count(std::string("edge:zero-dim-QTZ-") + PROBE[b]);
            run.count(std::string("edge:zero-dim-LLT-") + PROBE[c]); run.count(std::string("edge:zero-dim-SVD-") + PROBE[e]);
            if (m == n) { int g = probe([&] { Matrix_<T> z(m, n); Eigen f(z); Vector_<CR> s; f.getAllEigenValues(s); if (s.size() != 0) abort(); });
                run.expect(g != 2 && g != 3, key("edge.zero-dim/Eigen-crash"), W("Eigen " + d + " " + PROBE[g]), rp); run.count(std::string("edge:zero-dim-Eigen-") + PROBE[g]); }
        }
    } else if (which == 1) {   // documented argument checks must throw (not crash, not return)
        Matrix_<T> M(2, 2); M(0, 0) = T(2); M(0, 1) = T(1); M(1, 0) = T(1); M(1, 1) = T(3);
        int a = probe([&] { FactorLU f; Vector_<T> b(2), x; b = T(1); f.solve(b, x); });
        int b = probe([&] { FactorQTZ f; Vector_<T> bb(2), x; bb = T(1); f.solve(bb, x); });
        int c = probe([&] { FactorSVD f; Vector_<T> bb(2), x; bb = T(1); f.solve(bb, x); });
        int d = probe([&] { FactorLLT f; Vector_<T> bb(2), x; bb = T(1); f.solve(bb, x); });
        run.expect(a == 1, key("edge.unfactored-solve/LU"), W(std::string("unfactored LU solve ") + PROBE[a]), rp);
        run.expect(b == 1, key("edge.unfactored-solve/QTZ"), W(std::string("unfactored QTZ solve ") + PROBE[b]), rp);
        run.expect(c == 1, key("edge.unfactored-solve/SVD"), W(std::string("unfactored SVD solve ") + PROBE[c]), rp);
        run.expect(d == 1, key("edge.unfactored-solve/LLT"), W(std::string("unfactored LLT solve ") + PROBE[d]), rp);
        int e1 = probe([&] { FactorLU f(M); Vector_<T> bb(3), x; bb = T(1); f.solve(bb, x); });
        int e2 = probe([&] { FactorQTZ f(M); Vector_<T> bb(3), x; bb = T(1); f.solve(bb, x); });
        int e3 = probe([&] { FactorSVD f(M); Vector_<T> bb(3), x; bb = T(1); f.solve(bb, x); });
        int e4 = probe([&] { FactorLLT f(M); Vector_<T> bb(3), x; bb = T(1); f.solve(bb, x); });
        run.expect(e1 == 1, key("edge.rhs-size-mismatch/LU"), W(std::string("LU rhs size 3 for 2x2 ") + PROBE[e1]), rp);
        run.expect(e2 == 1, key("edge.rhs-size-mismatch/QTZ"), W(std::string("QTZ rhs size 3 for 2x2 ") + PROBE[e2]), rp);
        run.expect(e3 == 1, key("edge.rhs-size-mismatch/SVD"), W(std::string("SVD rhs size 3 for 2x2 ") + PROBE[e3]), rp);
        run.expect(e4 == 1, key("edge.rhs-size-mismatch/LLT"), W(std::string("LLT rhs size 3 for 2x2 ") + PROBE[e4]), rp);
    } else if (which == 2) {   // Eigen with an output matrix the caller did not size (the library's own test relies on auto-sizing)
        for (int n : {1, 2, 3}) {
            int a = probe([&] { Matrix_<T> M(n, n); for (int i = 0; i < n; ++i) for (int j = 0; j < n; ++j) M(i, j) = T(R(i == j ? 2 + i : (i < j ? 1 : -1)));
                                Eigen e(M); Vector_<CR> val; Matrix_<CR> vec; e.getAllEigenValuesAndVectors(val, vec); if (vec.nrow() != n || vec.ncol() != n || val.size() != n) _exit(13); });
            run.expect(a == 0, key("Eigen.unsized-output-matrix/" + t), W("getAllEigenValuesAndVectors with default-constructed 'vectors', n=" + std::to_string(n) + ": " + PROBE[a]), rp);
        }
    }
}

// extreme scaling of matrix and right-hand side (the explicit scaling branches of FactorQTZ)
template <class T> static void extremeScale(verif::Run& run, int a, int sa, int sb) {
    typedef typename TT<T>::R R;
    static const int SHP[4][2] = {{2, 2}, {2, 2}, {3, 2}, {2, 3}};
    static const int ENT[4][6] = {{1, 2, -1, 1, 0, 0}, {1, 2, 2, 4, 0, 0}, {1, 2, 0, 1, 1, -1}, {1, 0, 2, 1, -1, 1}};
    int ex = sizeof(R) == 4 ? 110 : 1000;
    LD fa = sa == 0 ? 1 : std::ldexp((LD)1, sa == 1 ? -ex : ex), fb = sb == 0 ? 1 : std::ldexp((LD)1, sb == 1 ? -ex : ex);
    int m = SHP[a][0], n = SHP[a][1];
    Case c; c.A = DMat(m, n);
    for (int i = 0; i < m; ++i) for (int j = 0; j < n; ++j) c.A(i, j) = CL(fa * ENT[a][i * n + j], TT<T>::cplx ? fa * ENT[a][(i * n + j + 1) % (m * n)] : 0);
    c.desc = "family=extreme matrix=" + std::to_string(a) + " scaleA=2^" + std::to_string(sa == 0 ? 0 : sa == 1 ? -ex : ex) + " scaleB=2^" + std::to_string(sb == 0 ? 0 : sb == 1 ? -ex : ex);
    Ctx<T> C(run, c);
    run.evaluationDistinct(true);
    DMat B(m, 2);
    for (int i = 0; i < m; ++i) { B(i, 0) = CL(fb * (i + 1), TT<T>::cplx ? fb * ((i % 3) - 1) : 0); B(i, 1) = CL(fb * (i == 0 ? 1 : -2), 0); }
    // skip combinations whose true solution leaves the range of the type
    LD ratio = fb / fa; LD big = (LD)std::numeric_limits<R>::max() / 1e4L, small = (LD)std::numeric_limits<R>::min() * 1e4L;
    if (ratio > big || ratio < small) { run.count("skipped:extreme-solution-out-of-range"); return; }
    Matrix_<T> M = libOf<T>(c.A);
    LD rcond = (LD)(std::max(m, n) * NTraits<R>::getSignificant());
    RankInfo ri = classify(C.S, m, n, rcond, TOL.band);
    std::string cls = std::string(TT<T>::cplx ? "complex" : "real");
    {   FactorQTZ f(M);
        C.exp(f.getRank() == ri.k, "QTZ.getRank", "extreme scale");
        bool threw = false; Matrix_<T> Xm;
        try { f.solve(libOf<T>(B), Xm); } catch (const std::exception&) { threw = true; }
        if (C.exp(!threw, "QTZ.solve-throws/" + cls)) {
            // separate oracle names so that the scaling branches get their own keys
            RankInfo r2 = ri; DMat X = refOf(Xm);
            std::string where = sa != 0 ? "matrix-outside-safe-range" : "in-range";
            std::string call = sb != 0 ? "solve.extreme-rhs-outside-safe-range" : "solve.extreme";
            checkLS(C, "QTZ", r2, B, X, call, where);
        }
    }
    {   FactorSVD f(M); Matrix_<T> Xm; f.solve(libOf<T>(B), Xm); checkLS(C, "SVD", ri, B, refOf(Xm), "solve.extreme"); }
    if (m == n && ri.k == n) { FactorLU f(M); Matrix_<T> Xm; f.solve(libOf<T>(B), Xm); DMat X = refOf(Xm); C.res("LU.solve.extreme.backward", finite(X) ? backward(C, B, X) : (LD)INFINITY, TOL.backward); }
}

template <class T, class E> static T logicalValue(const E& e) { if constexpr (std::is_constructible<T, const E&>::value) return T(e); else return T(e.real(), e.imag()); }
// element wrappers negator<> / conjugate<>: same logical matrix => bitwise the same factorization as the plain type
template <class T, class E> static void wrapperCase(verif::Run& run, const Shape& s, int64_t idx, const char* wname) {
    std::vector<GI> re, cx; intEntries(s, idx, re, cx);
    const std::vector<GI>& g = TT<T>::cplx ? cx : re;
    int m = s.m, n = s.n;
    Matrix_<T> P(m, n); Matrix_<E> Wm(m, n);
    for (int i = 0; i < m; ++i) for (int j = 0; j < n; ++j) { T v = TT<T>::make(CL(g[i * n + j].re, g[i * n + j].im)); P(i, j) = v; Wm(i, j) = v; }
    run.evaluationDistinct(true);
    std::string d = std::string("family=wrapper wrapper=") + wname + " plain=" + TT<T>::name() + " shape=" + s.name + " idx=" + std::to_string(idx);
    auto W = [d] { return d; }; auto rp = [&run, d] { return run.replayHeader() + "case=" + d + "\n"; };
    // the wrapper matrix must read back as the assigned logical values (otherwise the comparison below is meaningless)
    bool same = true; for (int i = 0; i < m; ++i) for (int j = 0; j < n; ++j) if (!(logicalValue<T>(Wm(i, j)) == P(i, j))) same = false;
    if (!run.expect(same, "wrapper.readback", W, rp)) return;
    Vector_<T> b(m); for (int i = 0; i < m; ++i) b[i] = TT<T>::make(CL(i + 1, (i % 2) ? 1 : -1));
    std::string k = std::string("wrapper.differs-from-plain/") + wname + "/";
    { FactorQTZ f1(P), f2(Wm); bool ok = f1.getRank() == f2.getRank(); Vector_<T> x1, x2; bool t1 = false, t2 = false;
      try { f1.solve(b, x1); } catch (const std::exception&) { t1 = true; } try { f2.solve(b, x2); } catch (const std::exception&) { t2 = true; }
      run.expect(ok && t1 == t2 && (t1 || f1.getRank() == 0 || bitsOf(x1) == bitsOf(x2)), k + "QTZ", W, rp);   // rank 0: x is uninitialised memory (separate finding)
      FactorQTZ f3; f3.factor(Wm); run.expect(f3.getRank() == f1.getRank(), k + "QTZ.factor", W, rp); }
    { FactorSVD f1(P), f2(Wm); Vector_<T> x1, x2; f1.solve(b, x1); f2.solve(b, x2); run.expect(bitsOf(x1) == bitsOf(x2), k + "SVD", W, rp);
      FactorSVD f3; f3.factor(Wm); Vector_<T> x3; f3.solve(b, x3); run.expect(bitsOf(x1) == bitsOf(x3), k + "SVD.factor", W, rp); }
    if (m == n) {
        typedef std::complex<typename TT<T>::R> CR;
        { FactorLU f1(P), f2(Wm); bool ok = f1.isSingular() == f2.isSingular(); Vector_<T> x1, x2; if (!f1.isSingular()) { f1.solve(b, x1); f2.solve(b, x2); }
          run.expect(ok && bitsOf(x1) == bitsOf(x2), k + "LU", W, rp);
          FactorLU f3; f3.factor(Wm); Vector_<T> x3; if (!f3.isSingular()) f3.solve(b, x3); run.expect(f3.isSingular() == f1.isSingular() && bitsOf(x1) == bitsOf(x3), k + "LU.factor", W, rp); }
        { FactorLLT f1(P), f2(Wm); Matrix_<T> L1, L2; f1.getL(L1); f2.getL(L2); run.expect(bitsOf(L1) == bitsOf(L2), k + "LLT", W, rp); }
        { Eigen e1(P), e2(Wm); Vector_<CR> v1, v2; e1.getAllEigenValues(v1); e2.getAllEigenValues(v2); run.expect(bitsOf(v1) == bitsOf(v2), k + "Eigen", W, rp); }
    }
}

// ================================================================ main
int main(int argc, char** argv) {
    mallopt(M_PERTURB, 0x5a);   // uninitialised heap reads become deterministic garbage instead of luck
    verif::Run run("C24", argc, argv);
    run.setDeadline(150, 1800);
    const bool thorough = run.thorough();
    run.rule = "E3: every matrix with entries in {-1,0,1,2} of the listed shapes (complex reading: imaginary parts from the cyclically next entry; Hermitian reading for the symmetric sub-family) x 3 exact scalings x (for rank-deficient members) 4 perturbations straddling rcond x 4 element types; a fixed family up to 40x40; zero-size / misuse / extreme-scale / element-wrapper edge sets. A case = (matrix values, element type); distinct by construction; non-trivial = matrix not identically zero.";
    run.assumptions = {"single-threaded OpenBLAS (deterministic LAPACK)", "reference arithmetic in x87 long double (eps 1.1e-19) is exact enough to judge float/double results",
                       "rank oracles only where the reference singular values are at least a factor 100 away from the rcond in force (otherwise counted as ambiguous)",
                       "FactorLU::solve on non-square input, FactorQTZ::inverse on non-square input, FactorLLT on non-SPD input: not specified by the docs, not judged"};
    auto quiet = [&] { static bool done = false; if (!run.verbose && !done) { int fd = open("/dev/null", O_WRONLY); if (fd >= 0) { dup2(fd, 1); dup2(fd, 2); close(fd); } done = true; } };   // xerbla chatter of the workers

    std::string secTimes = "{"; double tPrev = run.elapsed();
    auto lap = [&](const char* name) { double t = run.elapsed(); secTimes += std::string(secTimes.size() > 1 ? ", " : "") + "\"" + name + "\": " + verif::jsonNum(t - tPrev); tPrev = t; };
    // ---- section 1: the integer family
    auto shp = shapes(thorough);
    std::vector<int64_t> start; int64_t total = 0;
    for (auto& s : shp) { start.push_back(total); total += (int64_t)1 << (2 * s.digits); }
    auto intItem = [&](int64_t item) {
        quiet();
        size_t si = shp.size() - 1; while (start[si] > item) --si;
        const Shape& s = shp[si]; int64_t idx = item - start[si];
        std::vector<GI> re, cx; intEntries(s, idx, re, cx);
        int rr = exactRank(re, s.m, s.n), rc = exactRank(cx, s.m, s.n);
        bool deficient = rr < std::min(s.m, s.n) || rc < std::min(s.m, s.n);
        for (int v = 0; v < V_COUNT; ++v) {
            if (v >= V_PERT_LO && !deficient) { run.count("skipped:perturbation-of-full-rank-member"); continue; }
            bool reuse = v == V_PLAIN;
            if (s.kind != 2) { runCase<float>(run, intCase<float>(s, idx, v, re, false), reuse); runCase<double>(run, intCase<double>(s, idx, v, re, false), reuse); }
            runCase<std::complex<float>>(run, intCase<float>(s, idx, v, cx, true), reuse);
            runCase<std::complex<double>>(run, intCase<double>(s, idx, v, cx, true), reuse);
        }
        if (item % 2731 == 0) run.sample("int item " + std::to_string(item) + " = shape " + s.name + " idx " + std::to_string(idx) + ": exact rank real/complex reading " + std::to_string(rr) + "/" + std::to_string(rc));
    };
    if (run.hasFlag("--bench")) {   // developer aid: time 200 items of the largest shape in-process
        run.verbose = true; double t0 = run.elapsed(); int64_t ev0 = run.acc.evaluations;
        FILE* keep = stderr; (void)keep; run.verbose = false; 
        int64_t first = start.back() > 0 ? start[shp.size() - (thorough ? 4 : 1)] : 0;
        for (int64_t it = first + 5000; it < first + 5200; ++it) intItem(it);
        FILE* tty = fopen("/dev/tty", "w"); (void)tty;
        FILE* o = fopen("/tmp/C24.bench", "w");
        fprintf(o, "200 items %.3fs evaluations=%lld  setup=%.3f LU=%.3f LLT=%.3f Eigen=%.3f QTZ=%.3f SVD=%.3f\n", run.elapsed() - t0, (long long)(run.acc.evaluations - ev0), g_t[0], g_t[1], g_t[2], g_t[3], g_t[4], g_t[5]);
        fclose(o); return 0;
    }
    run.parallel("int", total, intItem);

    lap("int");
    // ---- section 2: the fixed family up to 40x40
    auto fx = fixedFamily(thorough);
    run.parallel("fixed", (int64_t)fx.size() * 4, [&](int64_t item) {
        quiet();
        const Fixed& f = fx[item / 4];
        switch (item % 4) {
            case 0: runCase<float>(run, fixedCase<float>(f), true); break;
            case 1: runCase<double>(run, fixedCase<double>(f), true); break;
            case 2: runCase<std::complex<float>>(run, fixedCase<std::complex<float>>(f), true); break;
            default: runCase<std::complex<double>>(run, fixedCase<std::complex<double>>(f), true); break;
        }
        if (item % 41 == 0) run.sample("fixed item " + std::to_string(item) + " = " + f.kind + " " + std::to_string(f.m) + "x" + std::to_string(f.n));
    });

    lap("fixed");
    // ---- section 3: edge sets
    run.parallel("edge", 3 * 4, [&](int64_t item) {
        quiet();
        int which = (int)(item / 4);
        switch (item % 4) { case 0: edgeCases<float>(run, which); break; case 1: edgeCases<double>(run, which); break;
                            case 2: edgeCases<std::complex<float>>(run, which); break; default: edgeCases<std::complex<double>>(run, which); }
    });
    run.parallel("extreme", 4 * 3 * 3 * 4, [&](int64_t item) {
        quiet();
        int t = item % 4, a = (item / 4) % 4, sa = (item / 16) % 3, sb = (int)(item / 48);
        switch (t) { case 0: extremeScale<float>(run, a, sa, sb); break; case 1: extremeScale<double>(run, a, sa, sb); break;
                     case 2: extremeScale<std::complex<float>>(run, a, sa, sb); break; default: extremeScale<std::complex<double>>(run, a, sa, sb); }
    });
    // wrappers over the complete 2x2 and 2x3 / 3x2 families (thorough) or 2x2 (quick)
    std::vector<Shape> wshp = {{"2x2", 2, 2, 4, 0}};
    if (thorough) { wshp.push_back({"2x3", 2, 3, 6, 0}); wshp.push_back({"3x2", 3, 2, 6, 0}); }
    std::vector<int64_t> wstart; int64_t wtotal = 0;
    for (auto& s : wshp) { wstart.push_back(wtotal); wtotal += (int64_t)1 << (2 * s.digits); }
    run.parallel("wrapper", wtotal, [&](int64_t item) {
        quiet();
        size_t si = wshp.size() - 1; while (wstart[si] > item) --si;
        const Shape& s = wshp[si]; int64_t idx = item - wstart[si];
        wrapperCase<float, negator<float>>(run, s, idx, "negator<float>");
        wrapperCase<double, negator<double>>(run, s, idx, "negator<double>");
        wrapperCase<std::complex<float>, negator<std::complex<float>>>(run, s, idx, "negator<complex<float>>");
        wrapperCase<std::complex<double>, negator<std::complex<double>>>(run, s, idx, "negator<complex<double>>");
        wrapperCase<std::complex<float>, conjugate<float>>(run, s, idx, "conjugate<float>");
        wrapperCase<std::complex<double>, conjugate<double>>(run, s, idx, "conjugate<double>");
        wrapperCase<std::complex<float>, negator<conjugate<float>>>(run, s, idx, "negator<conjugate<float>>");
        wrapperCase<std::complex<double>, negator<conjugate<double>>>(run, s, idx, "negator<conjugate<double>>");
    });
    lap("edge+extreme+wrapper");
    run.extraCoverage["section_wall_s"] = secTimes + "}";
    run.extraCoverage["integer_family_matrices"] = std::to_string(total);
    run.extraCoverage["fixed_family_matrices"] = std::to_string(fx.size());
    return run.finish();
}
