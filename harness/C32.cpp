// C32 -- Values survive text and serialization round trips.
// Engine E3 (enum), five exhaustively enumerated spaces, all executed on the real library code:
//   strings   : ALL strings of length <= 4 (quick) / <= 5 (thorough) over the 12-character alphabet
//               {1 . 5 e - + space a n i f t} through String::tryConvertTo / convertTo <double|float|int|bool>
//               against a deliberately three-valued recogniser written here (definitely a literal of
//               the type, apart from surrounding blanks / definitely not / unspecified -> not compared)
//   floats    : String(float) -> tryConvertTo<float>, bitwise: quick = every (sign, exponent) x 2^12
//               mantissa patterns; thorough = ALL 2^32 bit patterns (bulk counted)
//   scalars   : doubles (2^11 exponents x 57 mantissa patterns x sign), ints / longs / unsigned at the
//               type boundaries and a dense band, bool, complex<float|double> over the value alphabet;
//               both through String(v) -> convertTo<T>() and writeUnformatted -> readUnformatted
//   containers: writeUnformatted -> readUnformatted of Vec<1..4>, Row, Mat (2x2 all, larger by pattern),
//               Vector / RowVector / Array_ of length 0..3, Matrix (fillUnformatted), nested and
//               complex elements, over a 12-value alphabet incl. NaN, +-Inf, -0, denormal min, max
//   xml       : all child sequences of length <= 3 over a 14-item node alphabet (text / attribute values
//               with < > & " ' and character references, comments, nested elements), x root attributes
//               x {compact, pretty} x {condense white space or not}; write -> read -> compare trees;
//               Element::setValueAs<T> / getValueAs<T> for the value alphabet
#include "SimTKcommon.h"
#include "verif.h"

#include <cfloat>
#include <climits>
#include <complex>

using namespace SimTK;

// ------------------------------------------------------------------ helpers
static uint64_t bitsOf(double d) { uint64_t u; memcpy(&u, &d, 8); return u; }
static uint32_t bitsOf(float f) { uint32_t u; memcpy(&u, &f, 4); return u; }
static float floatFromBits(uint32_t u) { float f; memcpy(&f, &u, 4); return f; }
static double doubleFromBits(uint64_t u) { double d; memcpy(&d, &u, 8); return d; }
// "same value": bitwise, except that any NaN matches any NaN (text form is the single token NaN)
static bool same(double a, double b) { return (std::isnan(a) && std::isnan(b)) || bitsOf(a) == bitsOf(b); }
static bool same(float a, float b) { return (std::isnan(a) && std::isnan(b)) || bitsOf(a) == bitsOf(b); }
static bool same(int a, int b) { return a == b; }
static bool same(bool a, bool b) { return a == b; }
template <class T> static bool same(const std::complex<T>& a, const std::complex<T>& b) { return same(a.real(), b.real()) && same(a.imag(), b.imag()); }
template <int M, class E> static bool same(const Vec<M, E>& a, const Vec<M, E>& b) { for (int i = 0; i < M; ++i) if (!same(a[i], b[i])) return false; return true; }
template <int M, class E> static bool same(const Row<M, E>& a, const Row<M, E>& b) { for (int i = 0; i < M; ++i) if (!same(a[i], b[i])) return false; return true; }
template <int M, int N, class E> static bool same(const Mat<M, N, E>& a, const Mat<M, N, E>& b) { for (int i = 0; i < M; ++i) for (int j = 0; j < N; ++j) if (!same(a(i, j), b(i, j))) return false; return true; }
template <class E> static bool same(const Vector_<E>& a, const Vector_<E>& b) { if (a.size() != b.size()) return false; for (int i = 0; i < a.size(); ++i) if (!same(a[i], b[i])) return false; return true; }
template <class E> static bool same(const RowVector_<E>& a, const RowVector_<E>& b) { if (a.size() != b.size()) return false; for (int i = 0; i < a.size(); ++i) if (!same(a[i], b[i])) return false; return true; }
template <class E> static bool same(const Array_<E>& a, const Array_<E>& b) { if (a.size() != b.size()) return false; for (unsigned i = 0; i < a.size(); ++i) if (!same(a[i], b[i])) return false; return true; }
template <class E> static bool same(const Matrix_<E>& a, const Matrix_<E>& b) { if (a.nrow() != b.nrow() || a.ncol() != b.ncol()) return false; for (int i = 0; i < a.nrow(); ++i) for (int j = 0; j < a.ncol(); ++j) if (!same(a(i, j), b(i, j))) return false; return true; }

static std::string show(const std::string& s) { std::string o = "\""; for (char c : s) { if (c == '\n') o += "\\n"; else o += c; } return o + "\""; }

// ------------------------------------------------------------------ the three-valued recogniser
enum Cls { VALID, INVALID, UNSPEC };
static const char* clsName(Cls c) { return c == VALID ? "valid" : c == INVALID ? "invalid" : "unspecified"; }
static bool isBlank(char c) { return c == ' ' || c == '\t' || c == '\n' || c == '\r' || c == '\f' || c == '\v'; }
static std::string trimBlanks(const std::string& s) {
    size_t a = 0, b = s.size();
    while (a < b && isBlank(s[a])) ++a;
    while (b > a && isBlank(s[b - 1])) --b;
    return s.substr(a, b - a);
}
static std::string lower(std::string s) { for (auto& c : s) if (c >= 'A' && c <= 'Z') c = (char)(c - 'A' + 'a'); return s; }
static bool isDig(char c) { return c >= '0' && c <= '9'; }
// length of the longest prefix of t that is a complete decimal floating literal
//   [sign] (digits [. digits*] | . digits+) [ (e|E) [sign] digits+ ]          (0 if there is none)
static size_t floatLiteralPrefix(const std::string& t) {
    size_t i = 0, n = t.size();
    if (i < n && (t[i] == '+' || t[i] == '-')) ++i;
    size_t d0 = i; while (i < n && isDig(t[i])) ++i;
    const size_t nd = i - d0;
    size_t end = nd ? i : 0;
    if (i < n && t[i] == '.') {
        size_t j = i + 1, f0 = j; while (j < n && isDig(t[j])) ++j;
        if (nd || j > f0) { i = j; end = j; } else return 0;
    }
    if (!end) return 0;
    if (i < n && (t[i] == 'e' || t[i] == 'E')) {
        size_t j = i + 1; if (j < n && (t[j] == '+' || t[j] == '-')) ++j;
        size_t e0 = j; while (j < n && isDig(t[j])) ++j;
        if (j > e0) end = j;
    }
    return end;
}
static size_t intLiteralPrefix(const std::string& t) {
    size_t i = 0, n = t.size();
    if (i < n && (t[i] == '+' || t[i] == '-')) ++i;
    size_t d0 = i; while (i < n && isDig(t[i])) ++i;
    return i > d0 ? i : 0;
}
struct Verdict { Cls cls; bool hasLiteralPrefix; double dval = 0; float fval = 0; int ival = 0; bool bval = false; };
template <class T> struct Limits;
template <> struct Limits<double> { static long double maxv() { return DBL_MAX; } static long double minv() { return DBL_MIN; } };
template <> struct Limits<float> { static long double maxv() { return FLT_MAX; } static long double minv() { return FLT_MIN; } };
template <class T> static Verdict classifyFloating(const std::string& raw) {
    Verdict v; const std::string t = lower(trimBlanks(raw));
    v.hasLiteralPrefix = floatLiteralPrefix(t) > 0;
    auto setNaN = [&] { v.dval = NAN; v.fval = NAN; };
    if (t.empty()) { v.cls = INVALID; return v; }
    // documented names: NaN, [-]Inf, [-]Infinity in any case
    if (t == "nan") { v.cls = VALID; setNaN(); return v; }
    if (t == "inf" || t == "infinity") { v.cls = VALID; v.dval = INFINITY; v.fval = INFINITY; return v; }
    if (t == "-inf" || t == "-infinity") { v.cls = VALID; v.dval = -INFINITY; v.fval = -INFINITY; return v; }
    if (t == "+inf" || t == "+infinity" || t == "+nan" || t == "-nan") { v.cls = UNSPEC; return v; }   // a sign the documentation does not mention
    if (floatLiteralPrefix(t) != t.size()) { v.cls = INVALID; return v; }   // the whole string is not one literal
    const long double lv = strtold(t.c_str(), nullptr);
    if (lv != 0 && !(std::fabs(lv) <= Limits<T>::maxv() / 2 && std::fabs(lv) >= Limits<T>::minv() * 2)) { v.cls = UNSPEC; return v; }   // overflow / underflow: stream behaviour unspecified here
    v.cls = VALID; v.dval = strtod(t.c_str(), nullptr); v.fval = strtof(t.c_str(), nullptr);
    return v;
}
static Verdict classifyInt(const std::string& raw) {
    Verdict v; const std::string t = trimBlanks(raw);
    v.hasLiteralPrefix = intLiteralPrefix(t) > 0;
    if (t.empty() || intLiteralPrefix(t) != t.size()) { v.cls = INVALID; return v; }
    const long long l = strtoll(t.c_str(), nullptr, 10);
    if (l > INT_MAX || l < INT_MIN) { v.cls = UNSPEC; return v; }
    v.cls = VALID; v.ival = (int)l; return v;
}
static Verdict classifyBool(const std::string& raw) {
    Verdict v; const std::string t = lower(trimBlanks(raw));
    v.hasLiteralPrefix = intLiteralPrefix(t) > 0 || t.rfind("true", 0) == 0 || t.rfind("false", 0) == 0;
    if (t == "true" || t == "1") { v.cls = VALID; v.bval = true; return v; }
    if (t == "false" || t == "0") { v.cls = VALID; v.bval = false; return v; }
    if (!t.empty() && intLiteralPrefix(t) == t.size()) {          // a signed / zero-padded spelling of 0 or 1: whatever operator>> accepts
        const long long l = strtoll(t.c_str(), nullptr, 10);
        if (l == 0 || l == 1) { v.cls = UNSPEC; return v; }
    }
    v.cls = INVALID; return v;
}

// ------------------------------------------------------------------ value alphabets
static const double kVals[12] = {0.0, -0.0, 1.0, -1.5, 0.1, 4.9406564584124654e-324, 1.7976931348623157e308, NAN, INFINITY, -INFINITY, 3.141592653589793, 123456789.12345679};
static const char* kValNames[12] = {"0", "-0", "1", "-1.5", "0.1", "denorm-min", "max", "NaN", "Inf", "-Inf", "pi", "123456789.12345679"};
static const float kFVals[12] = {0.0f, -0.0f, 1.0f, -1.5f, 0.1f, 1.40129846e-45f, 3.40282347e38f, NAN, INFINITY, -INFINITY, 3.14159274f, 16777217.0f};
static const int kIVals[12] = {0, -1, 1, 7, -7, INT_MAX, INT_MIN, 65536, -65537, 1000000007, 42, -2147483647};

template <class T> static bool unformattedRoundTrip(const T& v, T& out, std::string& text) {
    std::ostringstream o; writeUnformatted(o, v); text = o.str();
    std::istringstream in(text);
    if (!readUnformatted(in, out)) return false;
    std::ws(in); return in.eof() || in.peek() == std::char_traits<char>::eof();   // everything consumed
}

// ------------------------------------------------------------------ xml model
struct XNode {
    enum Kind { ELEMENT, TEXT, COMMENT } kind = ELEMENT;
    std::string text;                                           // tag / text / comment
    std::vector<std::pair<std::string, std::string>> attrs;
    std::vector<XNode> kids;
};
static XNode xText(const std::string& t) { XNode n; n.kind = XNode::TEXT; n.text = t; return n; }
static XNode xComment(const std::string& t) { XNode n; n.kind = XNode::COMMENT; n.text = t; return n; }
static XNode xElt(const std::string& tag, std::vector<std::pair<std::string, std::string>> attrs = {}, std::vector<XNode> kids = {}) { XNode n; n.text = tag; n.attrs = attrs; n.kids = kids; return n; }
static std::string condense(const std::string& s) {       // documented "condense white space" normal form: runs -> one blank, ends trimmed
    std::string o; bool pend = false;
    for (char c : s) { if (isBlank(c)) pend = true; else { if (pend && !o.empty()) o += ' '; pend = false; o += c; } }
    return o;
}
static void build(Xml::Element e, const XNode& n) {
    for (auto& a : n.attrs) e.setAttributeValue(a.first, a.second);
    for (auto& k : n.kids) {
        if (k.kind == XNode::TEXT) e.appendNode(Xml::Text(k.text));
        else if (k.kind == XNode::COMMENT) e.appendNode(Xml::Comment(k.text));
        else { Xml::Element c(k.text); build(c, k); e.appendNode(c); }
    }
}
static std::string dump(const XNode& n) {
    if (n.kind == XNode::TEXT) return "T" + show(n.text);
    if (n.kind == XNode::COMMENT) return "C" + show(n.text);
    std::string s = "<" + n.text;
    for (auto& a : n.attrs) s += " " + a.first + "=" + show(a.second);
    s += ">[";
    for (size_t i = 0; i < n.kids.size(); ++i) s += (i ? "," : "") + dump(n.kids[i]);
    return s + "]";
}
static XNode extract(Xml::Element e) {
    XNode n; n.text = e.getElementTag();
    for (Xml::attribute_iterator a = e.attribute_begin(); a != e.attribute_end(); ++a) n.attrs.push_back({a->getName(), a->getValue()});
    for (Xml::node_iterator p = e.node_begin(); p != e.node_end(); ++p) {
        if (Xml::Text::isA(*p)) n.kids.push_back(xText(Xml::Text::getAs(*p).getText()));
        else if (Xml::Comment::isA(*p)) n.kids.push_back(xComment(p->getNodeText()));
        else if (Xml::Element::isA(*p)) n.kids.push_back(extract(Xml::Element::getAs(*p)));
        else { XNode u; u.kind = XNode::COMMENT; u.text = "<unknown node>" + p->getNodeText(); n.kids.push_back(u); }
    }
    return n;
}
// expected tree after a write/read cycle: (condense) text normalised, empty text nodes vanish
static XNode expected(const XNode& n, bool cond) {
    XNode r = n; r.kids.clear();
    if (n.kind == XNode::TEXT && cond) r.text = condense(n.text);
    for (auto& k : n.kids) {
        XNode e = expected(k, cond);
        if (e.kind == XNode::TEXT && e.text.empty()) continue;
        r.kids.push_back(e);
    }
    return r;
}

int main(int argc, char** argv) {
    verif::Run run("C32", argc, argv);
    run.setDeadline(300, 2700);
    const bool thorough = run.thorough();
    run.rule = "strings: every string of length 0..4 (thorough 0..5) over {1 . 5 e - + space a n i f t} and every string of length 1..4 (1..5) over {0 1 x a . p n ( ) -} x {double,float,int,bool}; floats: every (sign,exponent) x 2^12 mantissa patterns "
               "(thorough: all 2^32 patterns); doubles: 2^11 exponents x 57 mantissa patterns x sign; integers at type boundaries and a dense band; containers: every tuple of the 12-value alphabet "
               "for Vec<1..4>, Row<3>, Mat<2,2>, Vector/RowVector/Array length 0..3, 144 patterns for larger Mat/Matrix; xml: every child sequence of length <= 3 over a 14-item node alphabet x 3 root attribute sets x 4 write/read modes; "
               "distinct = distinct input value; non-trivial = non-empty string / non-zero value / non-empty container or tree";
    run.assumptions = {"the recogniser treats as unspecified: '+inf', '+nan', '-nan', magnitudes outside the normal range of the target type, signed or zero-padded spellings of 0/1 for bool",
                       "NaN payload and sign are not expected to survive (the text form is the single token NaN)",
                       "XML: adjacent text nodes are not generated (they merge by XML's rules); pretty-printed output is compared only with white-space condensing on"};

    // ================================================================ strings
    {
        // two alphabets: decimal spellings and the documented names; and the C-library extensions a hand-written
        // parser may let through (hexadecimal floats, nan(payload), binary exponents)
        static const char kAlpha[] = "1.5e-+ anift";
        static const char kAlpha2[] = "01xa.pn()-";
        const int maxLen = thorough ? 5 : 4;
        std::vector<int64_t> start{0}, start2{0};
        { int64_t c = 1; for (int l = 0; l <= maxLen; ++l) { start.push_back(start.back() + c); c *= 12; } }
        { int64_t c = 10; for (int l = 1; l <= maxLen; ++l) { start2.push_back(start2.back() + c); c *= 10; } }
        const int64_t n1 = start.back();
        run.parallel("strings", n1 + start2.back(), [&](int64_t idx) {
            std::string s;
            if (idx < n1) {
                int len = 0; while (idx >= start[len + 1]) ++len;
                int64_t k = idx - start[len];
                s.assign(len, ' ');
                for (int i = len - 1; i >= 0; --i) { s[i] = kAlpha[k % 12]; k /= 12; }
            } else {
                int64_t j = idx - n1; int len = 1; while (j >= start2[len]) ++len;
                int64_t k = j - start2[len - 1];
                s.assign(len, ' ');
                for (int i = len - 1; i >= 0; --i) { s[i] = kAlpha2[k % 10]; k /= 10; }
            }
            const String S(s);
            auto rp = [&] { return run.replayHeader() + "string=" + show(s) + "\n"; };
            auto judge = [&](const char* type, const Verdict& v, bool ok, bool valueOk, bool convThrew, bool convSame) {
                run.evaluation(verif::hashStr(std::string(type) + "|" + s), !s.empty());
                run.count(std::string("strings:") + type + ":" + clsName(v.cls) + (ok ? ":accepted" : ":rejected"));
                if (v.cls == VALID) {
                    run.expect(ok, std::string("tryConvertTo-rejects-valid-literal/") + type, [&] { return std::string("String(") + show(s) + ").tryConvertTo<" + type + ">() returned false for a valid literal"; }, rp);
                    if (ok) run.expect(valueOk, std::string("tryConvertTo-wrong-value/") + type, [&] { return std::string("String(") + show(s) + ").tryConvertTo<" + type + ">() produced a value different from the C library conversion"; }, rp);
                } else if (v.cls == INVALID) {
                    const std::string key = std::string(v.hasLiteralPrefix ? "tryConvertTo-trailing-garbage/" : "tryConvertTo-accepts-non-literal/") + type;
                    run.expect(!ok, key, [&] { return std::string("String(") + show(s) + ").tryConvertTo<" + type + ">() returned true although the whole string is not a " + type + " literal (documentation: 'false if ... failure to consume the entire string')"; }, rp);
                } else run.transition();
                run.expect(convThrew == !ok && (!ok || convSame), std::string("convertTo-inconsistent-with-tryConvertTo/") + type,
                           [&] { return std::string("String(") + show(s) + ").convertTo<" + type + ">() " + (convThrew ? "threw" : "returned") + " while tryConvertTo returned " + (ok ? "true" : "false"); }, rp);
                run.outcome(verif::hashMix(verif::hashStr(type), (uint64_t)ok * 2 + (uint64_t)v.cls * 4));
            };
            { double out = 0, out2 = 0; bool ok = S.tryConvertTo<double>(out); Verdict v = classifyFloating<double>(s);
              bool threw = false; try { S.convertTo<double>(out2); } catch (const std::exception&) { threw = true; }
              judge("double", v, ok, same(out, v.dval), threw, same(out, out2)); }
            { float out = 0, out2 = 0; bool ok = S.tryConvertTo<float>(out); Verdict v = classifyFloating<float>(s);
              bool threw = false; try { S.convertTo<float>(out2); } catch (const std::exception&) { threw = true; }
              judge("float", v, ok, same(out, v.fval), threw, same(out, out2)); }
            { int out = 0, out2 = 0; bool ok = S.tryConvertTo<int>(out); Verdict v = classifyInt(s);
              bool threw = false; try { S.convertTo<int>(out2); } catch (const std::exception&) { threw = true; }
              judge("int", v, ok, out == v.ival, threw, out == out2); }
            { bool out = false, out2 = false; bool ok = S.tryConvertTo<bool>(out); Verdict v = classifyBool(s);
              bool threw = false; try { S.convertTo<bool>(out2); } catch (const std::exception&) { threw = true; }
              judge("bool", v, ok, out == v.bval, threw, out == out2); }
            if (idx % 20011 == 0) { double d = 0; bool ok = S.tryConvertTo<double>(d); run.sample("tryConvertTo<double>(" + show(s) + ") -> " + (ok ? "true, " + verif::fmtd(d) : std::string("false")) + " [" + clsName(classifyFloating<double>(s).cls) + "]"); }
        });
    }

    // ================================================================ floats
    {
        // quick: item = (sign, exponent), 2^12 mantissa patterns (6 high bits x 6 low bits); thorough: item = 2^16 consecutive patterns
        const int64_t nItems = thorough ? 65536 : 512;
        run.parallel("floats", nItems, [&](int64_t item) {
            int64_t n = 0, nNormal = 0, nDenormal = 0, nZero = 0, nInf = 0, nNaN = 0, bad = 0;
            auto one = [&](uint32_t bits) {
                const float f = floatFromBits(bits);
                const String s(f);
                float g = 0; const bool ok = s.tryConvertTo<float>(g);
                ++n;
                const uint32_t e = (bits >> 23) & 0xff, m = bits & 0x7fffff;
                const char* cls = e == 0xff ? (m ? "nan" : "inf") : e == 0 ? (m ? "denormal" : "zero") : "normal";
                if (e == 0xff) { if (m) ++nNaN; else ++nInf; } else if (e == 0) { if (m) ++nDenormal; else ++nZero; } else ++nNormal;
                if (!(ok && same(f, g))) {
                    ++bad;
                    char hb[16]; snprintf(hb, sizeof hb, "0x%08x", bits);
                    run.expect(false, std::string("float-roundtrip/") + cls, [&] { return std::string("float bits ") + hb + " -> String " + show(s) + " -> " + (ok ? "different value " + verif::fmtd(g) : std::string("conversion failed")); },
                               [&] { return run.replayHeader() + "bits=" + hb + "\n"; });
                }
            };
            if (thorough) { for (uint32_t lo = 0; lo < 65536; ++lo) one((uint32_t)item << 16 | lo); }
            else {
                const uint32_t sign = (uint32_t)(item >> 8) & 1, e = (uint32_t)item & 0xff;
                for (uint32_t hi = 0; hi < 64; ++hi) for (uint32_t lo = 0; lo < 64; ++lo) one(sign << 31 | e << 23 | hi << 17 | lo);
            }
            run.acc.evaluations += n; run.acc.traces += n; run.acc.distinctBulk += n - nZero; run.acc.transitions += n - bad;
            run.count("floats:normal", nNormal); run.count("floats:denormal", nDenormal); run.count("floats:zero", nZero); run.count("floats:inf", nInf); run.count("floats:nan", nNaN);
            run.outcome(verif::hashPod(item));
            if (item % 9973 == 1) { const float f = floatFromBits(thorough ? (uint32_t)item << 16 | 12345u : ((uint32_t)item & 0xff) << 23 | 12345u); run.sample("float " + verif::fmtd(f) + " -> " + show(String(f)) + " -> same bits"); }
        });
    }

    // ================================================================ scalars
    {
        // doubles: item = exponent
        run.parallel("doubles", 2048, [&](int64_t e) {
            std::vector<uint64_t> mant = {0ull, 1ull, 0xfffffffffffffull, 0x5555555555555ull, 0xaaaaaaaaaaaaaull};
            for (int b = 0; b < 52; ++b) mant.push_back(1ull << b);
            for (uint64_t m : mant) for (uint64_t sign = 0; sign < 2; ++sign) {
                const uint64_t bits = sign << 63 | (uint64_t)e << 52 | m;
                const double d = doubleFromBits(bits);
                const char* cls = e == 2047 ? (m ? "nan" : "inf") : e == 0 ? (m ? "denormal" : "zero") : "normal";
                char hb[24]; snprintf(hb, sizeof hb, "0x%016llx", (unsigned long long)bits);
                auto rp = [&] { return run.replayHeader() + "bits=" + hb + "\n"; };
                run.evaluation(bits, d != 0);
                run.count(std::string("doubles:") + cls);
                const String s(d);
                double g = 0; bool ok = s.tryConvertTo<double>(g);
                run.expect(ok && same(d, g), std::string("double-roundtrip/String/") + cls, [&] { return std::string("double bits ") + hb + " -> String " + show(s) + " -> " + (ok ? verif::fmtd(g) : std::string("conversion failed")); }, rp);
                double h = 0; std::string text; bool ok2 = unformattedRoundTrip(d, h, text);
                run.expect(ok2 && same(d, h), std::string("double-roundtrip/unformatted/") + cls, [&] { return std::string("double bits ") + hb + " -> writeUnformatted " + show(text) + " -> " + (ok2 ? verif::fmtd(h) : std::string("readUnformatted failed")); }, rp);
                // a negated double reads and writes like a double
                const negator<double>& nd = reinterpret_cast<const negator<double>&>(d);
                negator<double> nback; std::string t3; bool ok3 = unformattedRoundTrip(nd, nback, t3);
                run.expect(ok3 && same(-d, (double)nback), std::string("double-roundtrip/negator/") + cls, [&] { return std::string("negator<double> holding bits ") + hb + " -> " + show(t3) + " -> " + (ok3 ? verif::fmtd((double)nback) : std::string("failed")); }, rp);
                run.outcome(verif::hashStr(s));
            }
        });
        // integers and bool: item = block of the value list
        std::vector<long long> ints;
        for (long long v = -70000; v <= 70000; ++v) ints.push_back(v);
        for (int b = 17; b < 63; ++b) for (long long d = -2; d <= 2; ++d) { ints.push_back((1ll << b) + d); ints.push_back(-(1ll << b) + d); }
        ints.push_back(LLONG_MAX); ints.push_back(LLONG_MAX - 1); ints.push_back(LLONG_MIN); ints.push_back(LLONG_MIN + 1);
        const int64_t blk = 1024, nBlk = ((int64_t)ints.size() + blk - 1) / blk;
        run.parallel("integers", nBlk, [&](int64_t bi) {
            for (int64_t k = bi * blk; k < std::min<int64_t>((bi + 1) * blk, (int64_t)ints.size()); ++k) {
                const long long v = ints[k];
                auto rp = [&] { return run.replayHeader() + "value=" + std::to_string(v) + "\n"; };
                run.evaluation(verif::hashPod(v), v != 0);
                { long long g = 0; const String s(v); bool ok = s.tryConvertTo<long long>(g);
                  run.expect(ok && g == v, "integer-roundtrip/long-long", [&] { return "long long " + std::to_string(v) + " -> " + show(s) + " -> " + (ok ? std::to_string(g) : std::string("failed")); }, rp); }
                { long g = 0; const String s((long)v); bool ok = s.tryConvertTo<long>(g);
                  run.expect(ok && g == (long)v, "integer-roundtrip/long", [&] { return "long " + std::to_string(v) + " -> " + show(s) + " -> failed or different"; }, rp); }
                { unsigned long long u = (unsigned long long)v, g = 0; const String s(u); bool ok = s.tryConvertTo<unsigned long long>(g);
                  run.expect(ok && g == u, "integer-roundtrip/unsigned-long-long", [&] { return "unsigned long long " + std::to_string(u) + " -> " + show(s) + " -> failed or different"; }, rp); }
                if (v >= INT_MIN && v <= INT_MAX) {
                    int g = 0; const String s((int)v); bool ok = s.tryConvertTo<int>(g);
                    run.expect(ok && g == (int)v, "integer-roundtrip/int", [&] { return "int " + std::to_string(v) + " -> " + show(s) + " -> " + (ok ? std::to_string(g) : std::string("failed")); }, rp);
                    int h = 0; std::string text; bool ok2 = unformattedRoundTrip((int)v, h, text);
                    run.expect(ok2 && h == (int)v, "integer-roundtrip/int-unformatted", [&] { return "int " + std::to_string(v) + " -> writeUnformatted " + show(text) + " -> failed or different"; }, rp);
                }
                if (v >= 0 && v <= UINT_MAX) {
                    unsigned g = 0; const String s((unsigned)v); bool ok = s.tryConvertTo<unsigned>(g);
                    run.expect(ok && g == (unsigned)v, "integer-roundtrip/unsigned", [&] { return "unsigned " + std::to_string(v) + " -> " + show(s) + " -> failed or different"; }, rp);
                }
                if (v == 0 || v == 1) {
                    bool b = v != 0, g = !b; const String s(b); bool ok = s.tryConvertTo<bool>(g);
                    run.expect(ok && g == b, "bool-roundtrip/String", [&] { return std::string("bool ") + (b ? "true" : "false") + " -> " + show(s) + " -> failed or different"; }, rp);
                    bool h = !b; std::string text; bool ok2 = unformattedRoundTrip(b, h, text);
                    run.expect(ok2 && h == b, "bool-roundtrip/unformatted", [&] { return std::string("bool -> writeUnformatted ") + show(text) + " -> failed or different"; }, rp);
                }
            }
        });
        // complex over the value alphabet: String form "(re,im)" and unformatted "re im"
        run.parallel("complex", 144, [&](int64_t idx) {
            const int a = (int)(idx % 12), b = (int)(idx / 12);
            const bool finite = std::isfinite(kVals[a]) && std::isfinite(kVals[b]);
            const std::string tag = std::string("(") + kValNames[a] + "," + kValNames[b] + ")";
            auto rp = [&] { return run.replayHeader() + "value=" + tag + "\n"; };
            run.evaluation(verif::hashStr("complex" + tag), idx != 0);
            const char* cls = finite ? "finite" : "nonfinite-component";
            { std::complex<double> z(kVals[a], kVals[b]), g; const String s(z); bool ok = s.tryConvertTo<std::complex<double>>(g);
              run.expect(ok && same(z, g), std::string("complex-roundtrip/String/double/") + cls, [&] { return "complex<double> " + tag + " -> String " + show(s) + " -> " + (ok ? "different value" : "conversion failed"); }, rp);
              std::complex<double> h; std::string text; bool ok2 = unformattedRoundTrip(z, h, text);
              run.expect(ok2 && same(z, h), std::string("complex-roundtrip/unformatted/double/") + cls, [&] { return "complex<double> " + tag + " -> writeUnformatted " + show(text) + " -> " + (ok2 ? "different value" : "readUnformatted failed"); }, rp);
              conjugate<double> cj(z.real(), -z.imag()), cback; std::string t3; bool ok3 = unformattedRoundTrip(cj, cback, t3);
              run.expect(ok3 && same(z, std::complex<double>(cback)), std::string("complex-roundtrip/unformatted/conjugate/") + cls, [&] { return "conjugate<double> " + tag + " -> " + show(t3) + " -> failed or different"; }, rp); }
            { std::complex<float> z(kFVals[a], kFVals[b]), g; const String s(z); bool ok = s.tryConvertTo<std::complex<float>>(g);
              run.expect(ok && same(z, g), std::string("complex-roundtrip/String/float/") + cls, [&] { return "complex<float> " + tag + " -> String " + show(s) + " -> " + (ok ? "different value" : "conversion failed"); }, rp);
              std::complex<float> h; std::string text; bool ok2 = unformattedRoundTrip(z, h, text);
              run.expect(ok2 && same(z, h), std::string("complex-roundtrip/unformatted/float/") + cls, [&] { return "complex<float> " + tag + " -> writeUnformatted " + show(text) + " -> " + (ok2 ? "different value" : "readUnformatted failed"); }, rp); }
        });
    }

    // ================================================================ containers
    {
        // item = (i0, i1): the two leading alphabet digits; the remaining digits are looped inside
        run.parallel("containers", 144, [&](int64_t idx) {
            const int i0 = (int)(idx % 12), i1 = (int)(idx / 12);
            auto rpFor = [&](const std::string& what) { return run.replayHeader() + "case=" + what + "\n"; };
            auto check = [&](auto value, const std::string& typeName, const std::string& key) {
                decltype(value) out(value);            // start from a copy so that an untouched output cannot pass by accident ...
                out = decltype(value)();               // ... then reset it
                std::string text; bool ok = false, threw = false;
                try { ok = unformattedRoundTrip(value, out, text); } catch (const std::exception&) { threw = true; }
                run.evaluation(verif::hashStr(typeName + "|" + text), !text.empty());
                run.expect(ok && !threw && same(value, out), key, [&] { return typeName + " -> writeUnformatted " + show(text) + " -> readUnformatted " + (threw ? "threw" : ok ? "gave a different value" : "failed or left input unread"); }, [&] { return rpFor(typeName + " " + text); });
                run.outcome(verif::hashStr(text));
            };
            const double a = kVals[i0], b = kVals[i1];
            if (i1 == 0) check(Vec<1>(a), "Vec<1>", "container-roundtrip/Vec");
            check(Vec2(a, b), "Vec<2>", "container-roundtrip/Vec");
            check(Row<2>(a, b), "Row<2>", "container-roundtrip/Row");
            check(Vec<2, float>(kFVals[i0], kFVals[i1]), "Vec<2,float>", "container-roundtrip/Vec-float");
            check(Vec<2, std::complex<double>>(std::complex<double>(a, b), std::complex<double>(b, a)), "Vec<2,complex>", "container-roundtrip/Vec-complex");
            { Array_<int> ai; ai.push_back(kIVals[i0]); ai.push_back(kIVals[i1]); check(ai, "Array_<int>[2]", "container-roundtrip/Array-int"); }
            { Array_<bool> ab; ab.push_back(i0 % 2 == 0); ab.push_back(i1 % 3 == 0); ab.push_back(i0 < i1); check(ab, "Array_<bool>[3]", "container-roundtrip/Array-bool"); }
            // lengths 0..3 of the variable-size containers (length 0/1 only once per leading digit pair)
            for (int len = 0; len <= 3; ++len) {
                const int reps = len <= 2 ? 1 : 12;
                if (len == 0 && idx != 0) continue;
                if (len == 1 && i1 != 0) continue;
                for (int c = 0; c < reps; ++c) {
                    const double vals[3] = {a, b, kVals[c]};
                    Vector v(len); RowVector rv(len); Array_<double> ar; Array_<float> af; Array_<std::complex<double>> ac; Array_<Vec2> av;
                    for (int i = 0; i < len; ++i) { v[i] = vals[i]; rv[i] = vals[i]; ar.push_back(vals[i]); af.push_back(kFVals[i == 0 ? i0 : i == 1 ? i1 : c]); ac.push_back(std::complex<double>(vals[i], vals[(i + 1) % 3])); av.push_back(Vec2(vals[i], vals[(i + 2) % 3])); }
                    const std::string L = "[" + std::to_string(len) + "]";
                    check(v, "Vector" + L, "container-roundtrip/Vector");
                    check(rv, "RowVector" + L, "container-roundtrip/RowVector");
                    check(ar, "Array_<double>" + L, "container-roundtrip/Array");
                    check(af, "Array_<float>" + L, "container-roundtrip/Array-float");
                    check(ac, "Array_<complex>" + L, "container-roundtrip/Array-complex");
                    check(av, "Array_<Vec2>" + L, "container-roundtrip/Array-Vec2");
                    if (len == 3) { check(Vec3(vals[0], vals[1], vals[2]), "Vec<3>", "container-roundtrip/Vec"); check(Row3(vals[0], vals[1], vals[2]), "Row<3>", "container-roundtrip/Row"); }
                    // reading into a Vector that starts with the wrong size resizes it
                    if (len >= 1) { std::ostringstream o; writeUnformatted(o, v); std::istringstream in(o.str()); Vector w(5, 7.0); bool ok = readUnformatted(in, w);
                        run.expect(ok && same(v, w), "container-roundtrip/Vector-resized-on-read", [&] { return "Vector" + L + " read into a Vector of size 5: " + (ok ? "wrong contents or size" : "failed"); }, [&] { return rpFor("Vector-resize " + o.str()); }); }
                }
            }
            // Vec<4> and Mat<2,2>: all 12^4 tuples
            for (int c = 0; c < 12; ++c) for (int d = 0; d < 12; ++d) {
                check(Vec4(a, b, kVals[c], kVals[d]), "Vec<4>", "container-roundtrip/Vec");
                check(Mat22(a, b, kVals[c], kVals[d]), "Mat<2,2>", "container-roundtrip/Mat");
                Matrix m(2, 2); m(0, 0) = a; m(0, 1) = b; m(1, 0) = kVals[c]; m(1, 1) = kVals[d];
                std::ostringstream o; writeUnformatted(o, m); std::istringstream in(o.str()); Matrix back(2, 2, 9.0); bool ok = fillUnformatted(in, back);
                run.evaluation(verif::hashStr("Matrix22|" + o.str()), true);
                run.expect(ok && same(m, back), "container-roundtrip/Matrix-fillUnformatted", [&] { return "Matrix 2x2 -> " + show(o.str()) + " -> fillUnformatted " + (ok ? "different" : "failed"); }, [&] { return rpFor("Matrix22 " + o.str()); });
            }
            // larger shapes by pattern: element (i,j) = alphabet[(i0 + i1*(i*N+j)) mod 12]
            auto pat = [&](int k) { return kVals[(i0 + i1 * k) % 12]; };
            { Mat<2, 3> m; for (int i = 0; i < 2; ++i) for (int j = 0; j < 3; ++j) m(i, j) = pat(i * 3 + j); check(m, "Mat<2,3>", "container-roundtrip/Mat"); }
            { Mat<3, 2> m; for (int i = 0; i < 3; ++i) for (int j = 0; j < 2; ++j) m(i, j) = pat(i * 2 + j); check(m, "Mat<3,2>", "container-roundtrip/Mat"); }
            { Mat33 m; for (int i = 0; i < 3; ++i) for (int j = 0; j < 3; ++j) m(i, j) = pat(i * 3 + j); check(m, "Mat<3,3>", "container-roundtrip/Mat"); }
            { Mat<1, 1> m; m(0, 0) = a; if (i1 == 0) check(m, "Mat<1,1>", "container-roundtrip/Mat"); }
            { Matrix m(3, 2), back(3, 2, 9.0); for (int i = 0; i < 3; ++i) for (int j = 0; j < 2; ++j) m(i, j) = pat(i * 2 + j);
              std::ostringstream o; writeUnformatted(o, m); std::istringstream in(o.str()); bool ok = fillUnformatted(in, back);
              run.evaluation(verif::hashStr("Matrix32|" + o.str()), true);
              run.expect(ok && same(m, back), "container-roundtrip/Matrix-fillUnformatted", [&] { return "Matrix 3x2 -> " + show(o.str()) + " -> fillUnformatted " + (ok ? "different" : "failed"); }, [&] { return rpFor("Matrix32 " + o.str()); }); }
            if (idx % 29 == 0) { std::ostringstream o; writeUnformatted(o, Vec3(a, b, kVals[(i0 + 5) % 12])); run.sample("Vec3 -> " + show(o.str()) + " -> same value"); }
        });
    }

    // ================================================================ xml
    {
        const std::vector<std::string> special = {"plain", "a<b", "x>y", "R&D", "say \"hi\"", "it's", "<&>\"'", "&amp;", "&#65;", "1.5 -2e-3 NaN"};
        // the child alphabet
        std::vector<XNode> alpha;
        alpha.push_back(xText("plain text"));
        alpha.push_back(xText("a<b & c>d \"q\" 'r'"));
        alpha.push_back(xText("&lt;not a tag&gt; &#65;"));
        alpha.push_back(xText("  two  blanks and   three  "));
        alpha.push_back(xComment(" a comment with <tags> & ampersands "));
        alpha.push_back(xComment("x"));
        alpha.push_back(xElt("empty"));
        alpha.push_back(xElt("_v1", {}, {xText("1.5 -2e-3 NaN")}));
        alpha.push_back(xElt("a", {{"n", "a<b"}, {"attr_2", "say \"hi\" & it's"}}));
        alpha.push_back(xElt("a", {{"q", "<&>\"'"}}, {xText("R&D")}));
        alpha.push_back(xElt("Tag-x.y", {{"n", "&amp;"}}, {xElt("inner", {{"k", "v"}}, {xText("deep <text>")}), xComment("c"), xElt("inner")}));
        alpha.push_back(xElt("b", {}, {xText("lead"), xElt("mid"), xText("trail")}));
        alpha.push_back(xElt("b", {{"empty", ""}}, {xComment("only a comment")}));
        alpha.push_back(xElt("c", {{"sp", " padded  value "}}, {xElt("d", {}, {xText("x")}), xElt("d", {}, {xText("y")})}));
        const int A = (int)alpha.size();
        const std::vector<std::vector<std::pair<std::string, std::string>>> rootAttrs = {{}, {{"version", "1"}}, {{"a", "<&>\"'"}, {"b", "it's \"quoted\""}}};
        std::vector<int64_t> start{0};
        { int64_t c = 1; for (int l = 0; l <= 3; ++l) { start.push_back(start.back() + c); c *= A; } }
        run.parallel("xml", start.back(), [&](int64_t idx) {
            int len = 0; while (idx >= start[len + 1]) ++len;
            int64_t k = idx - start[len];
            std::vector<int> seq(len); for (int i = len - 1; i >= 0; --i) { seq[i] = (int)(k % A); k /= A; }
            bool adjacentText = false; for (int i = 1; i < len; ++i) if (alpha[seq[i]].kind == XNode::TEXT && alpha[seq[i - 1]].kind == XNode::TEXT) adjacentText = true;
            if (adjacentText) { run.count("xml_skipped_adjacent_text_nodes"); return; }
            for (size_t ra = 0; ra < rootAttrs.size(); ++ra) for (int mode = 0; mode < 4; ++mode) {
                const bool compact = mode & 1, cond = !(mode & 2);
                if (!compact && !cond) continue;       // pretty printing adds white space around text by design; only meaningful with condensing on
                XNode root = xElt("doc_root", rootAttrs[ra]); for (int s : seq) root.kids.push_back(alpha[s]);
                const std::string caseName = "seq=" + [&] { std::string t; for (int s : seq) t += std::to_string(s) + ","; return t; }() + " rootAttrs=" + std::to_string(ra) + (compact ? " compact" : " pretty") + (cond ? " condense" : " keep-white-space");
                auto rp = [&] { return run.replayHeader() + "case=" + caseName + "\n"; };
                Xml::Document::setXmlCondenseWhiteSpace(cond);
                String text; std::string got, want; bool threw = false; std::string msg;
                try {
                    Xml::Document doc; doc.setRootTag(root.text); build(doc.getRootElement(), root);
                    doc.writeToString(text, compact);
                    Xml::Document doc2; doc2.readFromString(text);
                    got = dump(extract(doc2.getRootElement()));
                    // once read, a further write/read cycle must be a fixpoint of the text form
                    String text2, text3; doc2.writeToString(text2, compact);
                    Xml::Document doc3; doc3.readFromString(text2); doc3.writeToString(text3, compact);
                    if (text3 != text2) got += " [text form is not a fixpoint of write/read]";
                } catch (const std::exception& e) { threw = true; msg = e.what(); }
                Xml::Document::setXmlCondenseWhiteSpace(true);
                want = dump(expected(root, cond));
                run.evaluation(verif::hashStr(caseName), len > 0);
                run.expect(!threw && got == want, std::string("xml-roundtrip/") + (cond ? "condense" : "keep-white-space") + (compact ? "/compact" : "/pretty"),
                           [&] { return caseName + ": wrote " + show(text) + "; re-read tree " + (threw ? "threw " + msg.substr(0, 200) : got) + " expected " + want; }, rp);
                run.outcome(verif::hashStr(got));
                if (idx % 499 == 0 && mode == 1 && ra == 2) run.sample(caseName + " -> " + show(text).substr(0, 220));
            }
        });
        // values through elements and attributes: setValueAs / getValueAs, attribute strings
        run.parallel("xml-values", 144, [&](int64_t idx) {
            const int i0 = (int)(idx % 12), i1 = (int)(idx / 12);
            auto rp = [&] { return run.replayHeader() + "case=values " + kValNames[i0] + " " + kValNames[i1] + "\n"; };
            run.evaluation(verif::hashStr("xmlv" + std::to_string(idx)), true);
            const Vec3 v(kVals[i0], kVals[i1], kVals[(i0 + i1) % 12]);
            Vector arr(2); arr[0] = kVals[i1]; arr[1] = kVals[i0];     // (Array_ has a toXmlElement() overload but no reader; not a round trip the library offers)
            const std::string sp = special[i0 % special.size()] + special[i1 % special.size()];
            bool threw = false; std::string msg; Vec3 vb(9, 9, 9); Vector ab; double db = 9; bool bb = false; int ib = 0; String spb, attb; String text;
            try {
                Xml::Document doc; doc.setRootTag("values"); Xml::Element r = doc.getRootElement();
                // containers go through the documented serialisation pair toXmlElement / fromXmlElement (writeUnformatted /
                // readUnformatted); Element::setValueAs<T> formats with operator<< (6 digits) and is not a lossless path
                r.appendNode(toXmlElement(v, "vec"));
                r.appendNode(toXmlElement(arr, "arr"));
                r.appendNode(Xml::Element("dbl", kVals[i0]));
                r.appendNode(Xml::Element("flag", i1 % 2 == 0));
                r.appendNode(Xml::Element("int", kIVals[i0]));
                r.appendNode(Xml::Element("str", String(sp)));
                r.setAttributeValue("att", sp);
                doc.writeToString(text, i1 % 2 == 1);
                Xml::Document d2; d2.readFromString(text); Xml::Element q = d2.getRootElement();
                { Xml::Element ev = q.getRequiredElement("vec"); fromXmlElement(vb, ev, "vec"); Xml::Element ea = q.getRequiredElement("arr"); fromXmlElement(ab, ea, "arr"); }
                db = q.getRequiredElementValueAs<double>("dbl"); bb = q.getRequiredElementValueAs<bool>("flag"); ib = q.getRequiredElementValueAs<int>("int");
                spb = q.getRequiredElementValue("str"); attb = q.getRequiredAttributeValue("att");
            } catch (const std::exception& e) { threw = true; msg = e.what(); }
            run.expect(!threw && same(v, vb) && same(arr, ab) && same(kVals[i0], db) && bb == (i1 % 2 == 0) && ib == kIVals[i0], "xml-roundtrip/typed-element-values",
                       [&] { return std::string("typed values through an XML document: ") + (threw ? "threw " + msg.substr(0, 300) : "a value changed") + "; document " + show(text).substr(0, 400); }, rp);
            run.expect(threw || (condense(sp) == std::string(spb) && sp == std::string(attb)), "xml-roundtrip/string-values", [&] { return "string " + show(sp) + " came back as element value " + show(spb) + " / attribute " + show(attb); }, rp);
        });
    }
    return run.finish();
}
