// C04 -- Jacobian operators map speeds to the velocities the state reports.
// Engine E3: every model of level A of the shared multibody alphabet (+ the Ground-attached
// topologies T1 / T2' that level A does not contain; thorough adds levels B and C) x COORD x
// STATE; per (model,state) the system Jacobian operators and, for every ordered task list of
// <= 2 (body,station) tasks (bodies incl. Ground, repeats allowed, stations {0,(.1,.2,-.3)}),
// the station / frame Jacobian operators, explicit matrices (both element forms and the
// single-task overloads), transpose operators and bias terms.
//
// Oracles (all references are independent of the operators under test):
//   J*e_i            = velocities READ BACK from the state realized with u = e_i
//                      (getBodyVelocity / getBodyAngularVelocity / findStationVelocityInGround)
//   J*u_state        = velocities the given state itself reports
//   ~J on basis F    = transpose of the read-back matrix (adjointness on all basis pairs) and
//                      <F,J*u> = <~J*F,u> for one generic pair
//   bias             : A(udot) = J_ref*udot + JDot*u with A from calcBodyAccelerationFromUDot for
//                      udot in {empty, 0, every e_i, generic} and from realize(Acceleration);
//                      station/frame accelerations by the harness's own rigid-body shift
//                      a_P = a_B + alpha x r + w x (w x r);
//                      and JDot*u (system) = d/dh V(q + h*qdot, u) by 4th-order central
//                      differences of read-back velocities (Richardson pair h, h/2).
#include "Simbody.h"
#include "SimbodyMatterSubsystemRep.h"
#include "RigidBodyNode.h"
#include "verif.h"
#include "models.h"
#include "mbref.h"

#include <cxxabi.h>

using namespace SimTK;
using ref::LD; using ref::DMat; using ref::V3;

static std::string vdemangle(const char* n) { int st = 0; char* d = abi::__cxa_demangle(n, 0, 0, &st); std::string s = d ? d : n; free(d); return s; }
std::string mb::nodeTypeName(const mb::Model& M, int bi) {
    const RigidBodyNode& n = M.matter.getRep().getRigidBodyNode(M.bodies[bi].getMobilizedBodyIndex());
    return vdemangle(typeid(n).name());
}

// Calibration (unchanged tree, all three value sets, levels G,A,B,C): worst algebraic residual 1.3e-15, worst FD residual 6.4e-10 (notes/C04.md).
static const double TOL = 1e-11;
// finite-difference oracle: Richardson pair must agree to FD_AGREE (else skipped and counted); bound FD_TOL
static const double FD_AGREE = 1e-8, FD_TOL = 1e-6;

static const Vec3 STATIONS[2] = {Vec3(0), Vec3(0.1, 0.2, -0.3)};

struct Task { int body, st; };
static std::string taskStr(const std::vector<Task>& l) {
    std::string s = "tasks[";
    for (auto& t : l) s += "(b" + std::to_string(t.body) + ",s" + std::to_string(t.st) + ")";
    return s + "]";
}

static LD relDiff(const DMat& A, const DMat& B, LD scale) {
    if (A.r != B.r || A.c != B.c) return INFINITY;
    return ref::maxAbsDiff(A, B) / scale;
}
static V3 v3(const Vec3& v) { return {{(LD)v[0], (LD)v[1], (LD)v[2]}}; }
static void put6(DMat& m, int r0, int c, const SpatialVec& V) { for (int k = 0; k < 3; ++k) { m(r0 + k, c) = V[0][k]; m(r0 + 3 + k, c) = V[1][k]; } }
static bool isZero(const SpatialVec& V) { return V[0] == Vec3(0) && V[1] == Vec3(0); }

static void checkCase(verif::Run& run, const std::vector<mb::BodySpec>& specs, bool euler,
                      int stateKind, int valueSet, bool orderedLists, const std::string& desc) {
    auto Mp = mb::build(specs, euler);
    mb::Model& M = *Mp;
    const SimbodyMatterSubsystem& matter = M.matter;
    State s = mb::makeState(M, stateKind, valueSet);
    M.system.realize(s, Stage::Velocity);
    const int nb = matter.getNumBodies(), nu = s.getNU();
    auto where = [&] { return desc; };
    auto rp = [&] { return run.replayHeader() + desc + "\n"; };   // replay file = section/item header + description
    run.evaluation(verif::hashStr(desc), nu >= 1);
    for (int b = 0; b < (int)specs.size(); ++b) { std::string nt = mb::nodeTypeName(M, b); run.outcome(verif::hashStr(nt)); run.count("node:" + nt); }
    if (nu == 0) run.count("nu=0");

    // ------------------------------------------------------------------ reference: read back from states realized with u = e_i
    // JF[b][st] : 6 x nu, rows (w ; v of station st of body b), in Ground
    std::vector<std::array<DMat, 2> > JF(nb);
    std::vector<std::array<V3, 2> > rG(nb);      // station vector re-expressed in Ground (harness arithmetic)
    for (int b = 0; b < nb; ++b) {
        const MobilizedBody& mobod = matter.getMobilizedBody(MobilizedBodyIndex(b));
        const Rotation& R = mobod.getBodyTransform(s).R();
        for (int st = 0; st < 2; ++st) {
            JF[b][st] = DMat(6, nu);
            for (int i = 0; i < 3; ++i) { LD a = 0; for (int j = 0; j < 3; ++j) a += (LD)R[i][j] * (LD)STATIONS[st][j]; rG[b][st][i] = a; }
        }
    }
    LD refShiftErr = 0;
    {
        State t = s;
        for (int i = 0; i < nu; ++i) {
            t.updU() = 0; t.updU()[i] = 1;
            M.system.realize(t, Stage::Velocity);
            for (int b = 0; b < nb; ++b) {
                const MobilizedBody& mobod = matter.getMobilizedBody(MobilizedBodyIndex(b));
                const SpatialVec V = mobod.getBodyVelocity(t);
                const Vec3 w = mobod.getBodyAngularVelocity(t);
                put6(JF[b][0], 0, i, V);
                const Vec3 vP = mobod.findStationVelocityInGround(t, STATIONS[1]);
                put6(JF[b][1], 0, i, SpatialVec(w, vP));
                // the two state read-outs must agree with the harness's own shift v_P = v + w x r
                V3 sh = ref::cross(v3(V[0]), rG[b][1]);
                for (int k = 0; k < 3; ++k) {
                    refShiftErr = std::max(refShiftErr, fabsl((LD)V[1][k] + sh[k] - (LD)vP[k]));
                    refShiftErr = std::max(refShiftErr, fabsl((LD)V[0][k] - (LD)w[k]));
                }
            }
        }
    }
    LD scale = 1;
    for (int b = 0; b < nb; ++b) for (int st = 0; st < 2; ++st) scale = std::max(scale, ref::maxAbs(JF[b][st]));
    run.residual("ref-station-readback-vs-harness-shift", (double)(refShiftErr / scale), TOL, where, rp);
    DMat Jsys(6 * nb, nu);
    for (int b = 0; b < nb; ++b) for (int k = 0; k < 6; ++k) for (int i = 0; i < nu; ++i) Jsys(6 * b + k, i) = JF[b][0](k, i);
    run.expect(ref::maxAbs(JF[0][0]) == 0 && ref::maxAbs(JF[0][1]) == 0, "ref-ground-moves", [&] { return "Ground has non-zero read-back velocity at " + desc; }, rp);

    // generic vectors
    Vector ug(nu), udg(nu);
    for (int i = 0; i < nu; ++i) { ug[i] = mb::uv(valueSet + 2, i + 1); udg[i] = mb::uv(valueSet + 1, i + 3); }
    auto gF = [&](int j) { return mb::qv(valueSet + 1, j) * 2 + 0.1 * (j % 5); };

    // ------------------------------------------------------------------ system Jacobian
    Vector e(nu);
    {
        DMat Jop(6 * nb, nu);
        Vector_<SpatialVec> Ju;
        bool groundZero = true, sized = true;
        for (int i = 0; i < nu; ++i) {
            e = 0; e[i] = 1;
            matter.multiplyBySystemJacobian(s, e, Ju);
            if (Ju.size() != nb) { sized = false; break; }
            groundZero = groundZero && isZero(Ju[0]);
            for (int b = 0; b < nb; ++b) put6(Jop, 6 * b, i, Ju[b]);
        }
        run.expect(sized, "sysJ-op-size", [&] { return "multiplyBySystemJacobian result not of length nb at " + desc; }, rp);
        run.expect(groundZero, "sysJ-op-ground-row-nonzero", [&] { return "Ju[0] != 0 at " + desc; }, rp);
        if (sized) run.residual("sysJ-op-vs-state", (double)relDiff(Jop, Jsys, scale), TOL, where, rp);

        Matrix_<SpatialVec> JG; matter.calcSystemJacobian(s, JG);
        bool ok = JG.nrow() == nb && JG.ncol() == nu;
        run.expect(ok, "sysJ-explicit-size", [&] { return "calcSystemJacobian(SpatialVec) wrong shape at " + desc; }, rp);
        if (ok) {
            DMat Jx(6 * nb, nu);
            for (int b = 0; b < nb; ++b) for (int i = 0; i < nu; ++i) put6(Jx, 6 * b, i, JG(b, i));
            run.residual("sysJ-explicit-vs-state", (double)relDiff(Jx, Jsys, scale), TOL, where, rp);
            if (sized && ref::maxAbsDiff(Jx, Jop) == 0) run.count("sysJ-explicit-bitwise-equals-op");
        }
        Matrix JGs; matter.calcSystemJacobian(s, JGs);
        ok = JGs.nrow() == 6 * nb && JGs.ncol() == nu;
        run.expect(ok, "sysJ-explicit-scalar-size", [&] { return "calcSystemJacobian(scalar) wrong shape at " + desc; }, rp);
        if (ok) run.residual("sysJ-explicit-scalar-vs-state", (double)relDiff(mbref::fromMatrix(JGs), Jsys, scale), TOL, where, rp);

        // transpose operator on every basis force (incl. the ignored Ground entries): ~J must be the transpose of the read-back J
        DMat JT(nu, 6 * nb); Vector_<SpatialVec> F(nb); Vector f; sized = true;
        for (int b = 0; b < nb && sized; ++b) for (int k = 0; k < 6; ++k) {
            F.setToZero(); F[b][k / 3][k % 3] = 1;
            matter.multiplyBySystemJacobianTranspose(s, F, f);
            if (f.size() != nu) { sized = false; break; }
            for (int i = 0; i < nu; ++i) JT(i, 6 * b + k) = f[i];
        }
        run.expect(sized, "sysJT-op-size", [&] { return "multiplyBySystemJacobianTranspose result not of length nu at " + desc; }, rp);
        if (sized) run.residual("sysJT-op-adjoint-basis", (double)relDiff(JT, ref::transpose(Jsys), scale), TOL, where, rp);

        // the state's own u and one generic (F,u) pair
        matter.multiplyBySystemJacobian(s, s.getU(), Ju);
        LD err = 0, vs = 1;
        for (int b = 0; b < nb; ++b) {
            const SpatialVec& V = matter.getMobilizedBody(MobilizedBodyIndex(b)).getBodyVelocity(s);
            for (int k = 0; k < 6; ++k) { err = std::max(err, fabsl((LD)Ju[b][k / 3][k % 3] - (LD)V[k / 3][k % 3])); vs = std::max(vs, fabsl((LD)V[k / 3][k % 3])); }
        }
        run.residual("sysJ-op-state-u-vs-state", (double)(err / vs), TOL, where, rp);
        for (int b = 0; b < nb; ++b) for (int k = 0; k < 6; ++k) F[b][k / 3][k % 3] = gF(6 * b + k);
        matter.multiplyBySystemJacobian(s, ug, Ju);
        matter.multiplyBySystemJacobianTranspose(s, F, f);
        LD lhs = 0, rhs = 0, mag = 1;
        for (int b = 0; b < nb; ++b) for (int k = 0; k < 6; ++k) { LD p = (LD)F[b][k / 3][k % 3] * (LD)Ju[b][k / 3][k % 3]; lhs += p; mag += fabsl(p); }
        for (int i = 0; i < nu; ++i) rhs += (LD)f[i] * (LD)ug[i];
        run.residual("sysJ-adjoint-generic", (double)(fabsl(lhs - rhs) / mag), TOL, where, rp);
    }

    // ------------------------------------------------------------------ system bias: A = J*udot + JDot*u
    // udot set: index 0 = empty vector (documented: taken as all zero), 1 = explicit zeros, 2..nu+1 = e_i, nu+2 = generic, nu+3 = the realized state's udot
    const int nUd = nu + 4;
    std::vector<std::vector<SpatialVec> > Aud(nUd, std::vector<SpatialVec>(nb));
    std::vector<Vector> udots(nUd);
    Vector_<SpatialVec> JDotu; matter.calcBiasForSystemJacobian(s, JDotu);
    LD ascale = 1;
    {
        bool ok = JDotu.size() == nb;
        run.expect(ok, "sysBias-size", [&] { return "calcBiasForSystemJacobian(SpatialVec) wrong length at " + desc; }, rp);
        if (!ok) return;
        Vector JDotuS; matter.calcBiasForSystemJacobian(s, JDotuS);
        bool same = JDotuS.size() == 6 * nb;
        if (same) for (int b = 0; b < nb; ++b) for (int k = 0; k < 6; ++k) same = same && JDotuS[6 * b + k] == JDotu[b][k / 3][k % 3];
        run.expect(same, "sysBias-scalar-form-differs", [&] { return "scalar and SpatialVec forms of calcBiasForSystemJacobian differ at " + desc; }, rp);
        run.expect(isZero(JDotu[0]), "sysBias-ground-nonzero", [&] { return "JDotu[0] != 0 at " + desc; }, rp);

        M.system.realize(s, Stage::Acceleration);
        udots[0] = Vector(); udots[1] = Vector(nu, Real(0));
        for (int i = 0; i < nu; ++i) { udots[2 + i] = Vector(nu, Real(0)); udots[2 + i][i] = 1; }
        udots[nu + 2] = udg; udots[nu + 3] = s.getUDot();
        LD worst = 0; bool sized = true, g0 = true;
        for (int d = 0; d < nUd; ++d) {
            Vector_<SpatialVec> A;
            if (d < nu + 3) {
                if (d == 0 && nu == 0) { A.resize(nb); A.setToZero(); }   // empty == zeros when nu == 0; nothing to distinguish
                else matter.calcBodyAccelerationFromUDot(s, udots[d], A);
            } else { A.resize(nb); for (int b = 0; b < nb; ++b) A[b] = matter.getMobilizedBody(MobilizedBodyIndex(b)).getBodyAcceleration(s); }
            if (A.size() != nb) { sized = false; break; }
            g0 = g0 && isZero(A[0]);
            for (int b = 0; b < nb; ++b) {
                Aud[d][b] = A[b];
                for (int k = 0; k < 6; ++k) {
                    LD r = JDotu[b][k / 3][k % 3];
                    if (udots[d].size()) for (int i = 0; i < nu; ++i) r += Jsys(6 * b + k, i) * (LD)udots[d][i];
                    ascale = std::max(ascale, fabsl(r));
                    LD x = fabsl(r - (LD)A[b][k / 3][k % 3]);
                    if (!(x <= worst)) worst = x;
                }
            }
        }
        run.expect(sized, "sysBias-A-size", [&] { return "calcBodyAccelerationFromUDot result not of length nb at " + desc; }, rp);
        if (!sized) return;
        run.expect(g0, "sysBias-A-ground-nonzero", [&] { return "A_GB[0] != 0 at " + desc; }, rp);
        run.residual("sysBias-A=J*udot+JDotu", (double)(worst / ascale), TOL, where, rp);
        LD bmag = 0; for (int b = 0; b < nb; ++b) for (int k = 0; k < 6; ++k) bmag = std::max(bmag, fabsl((LD)JDotu[b][k / 3][k % 3]));
        if (bmag > 1e-6) run.count("cases-with-nonzero-bias");

        // independent reference for JDot*u: d/dh V(q + h*qdot, u) at h = 0 (u held fixed), 4th-order central differences.
        // Precondition (C03's subject, not demanded here): the library's qdot = N*u must be the derivative of the pose that produces
        // the reported mobilizer velocities, otherwise q + h*qdot is not the motion and nothing can be concluded -> skipped and counted.
        if (nu > 0 && bmag > 0) {
            const Vector q0 = s.getQ(), qd = s.getQDot();
            const int nm = (int)M.bodies.size();
            State t = s;
            auto f = [&](LD h) {
                t.updQ() = q0 + (Real)h * qd;
                M.system.realize(t, Stage::Velocity);
                std::vector<LD> v(6 * nb + 12 * nm);
                for (int b = 0; b < nb; ++b) { const SpatialVec& V = matter.getMobilizedBody(MobilizedBodyIndex(b)).getBodyVelocity(t); for (int k = 0; k < 6; ++k) v[6 * b + k] = V[k / 3][k % 3]; }
                for (int m = 0; m < nm; ++m) { const Transform& X = M.bodies[m].getMobilizerTransform(t);
                    for (int i = 0; i < 3; ++i) { for (int j = 0; j < 3; ++j) v[6 * nb + 12 * m + 3 * i + j] = X.R()[i][j]; v[6 * nb + 12 * m + 9 + i] = X.p()[i]; } }
                return v;
            };
            LD dis = 0;
            std::vector<LD> d = ref::fd4(f, 0, 1.0L / 256, &dis);
            bool pre = true;
            for (int m = 0; m < nm; ++m) {
                const Rotation& R = M.bodies[m].getMobilizerTransform(s).R(); const SpatialVec& V = M.bodies[m].getMobilizerVelocity(s);
                LD W[3][3];   // Rdot * R^T = cross matrix of w_FM (in F)
                for (int i = 0; i < 3; ++i) for (int j = 0; j < 3; ++j) { LD a = 0; for (int k = 0; k < 3; ++k) a += d[6 * nb + 12 * m + 3 * i + k] * (LD)R[j][k]; W[i][j] = a; }
                const LD wfd[3] = {W[2][1], W[0][2], W[1][0]};
                LD err = 0, mag = 1;
                for (int k = 0; k < 3; ++k) { err = std::max(err, fabsl(wfd[k] - (LD)V[0][k])); err = std::max(err, fabsl(d[6 * nb + 12 * m + 9 + k] - (LD)V[1][k])); mag = std::max(mag, std::max(fabsl((LD)V[0][k]), fabsl((LD)V[1][k]))); }
                if (!(err <= 1e-6L * mag)) { pre = false; run.count(std::string("fd-precondition-qdot-is-not-pose-derivative:") + mb::kindName(specs[m].kind) + (specs[m].dir ? "/rev" : "/fwd") + (euler ? "/euler" : "/quat")); }
            }
            if (!pre) run.count("skipped:fd-precondition(qdot)");
            else if (!(dis <= FD_AGREE * ascale)) run.count("skipped:fd-richardson-disagree");
            else {
                LD err = 0;
                for (int b = 0; b < nb; ++b) for (int k = 0; k < 6; ++k) { LD x = fabsl(d[6 * b + k] - (LD)JDotu[b][k / 3][k % 3]); if (!(x <= err)) err = x; }
                run.residual("sysBias-vs-finite-difference", (double)(err / ascale), FD_TOL, where, rp);
            }
        }
    }
    // required bias at (udot index, body, station): RB = shift(A(udot)) - JF*udot, with the harness's own rigid-body shift
    std::vector<std::vector<std::array<DMat, 2> > > RB(nUd, std::vector<std::array<DMat, 2> >(nb));
    for (int d = 0; d < nUd; ++d) for (int b = 0; b < nb; ++b) {
        const V3 w = v3(matter.getMobilizedBody(MobilizedBodyIndex(b)).getBodyAngularVelocity(s));
        const V3 al = v3(Aud[d][b][0]), a = v3(Aud[d][b][1]);
        for (int st = 0; st < 2; ++st) {
            const V3& r = rG[b][st];
            V3 ar = ref::cross(al, r), wwr = ref::cross(w, ref::cross(w, r));
            DMat x(6, 1);
            for (int k = 0; k < 3; ++k) { x(k, 0) = al[k]; x(3 + k, 0) = a[k] + ar[k] + wwr[k]; }
            if (udots[d].size()) for (int k = 0; k < 6; ++k) for (int i = 0; i < nu; ++i) x(k, 0) -= JF[b][st](k, i) * (LD)udots[d][i];
            RB[d][b][st] = x;
        }
    }
    // the realized state's own station accelerations (read-out) must agree with the harness shift (guards the reference)
    {
        LD err = 0;
        for (int b = 0; b < nb; ++b) {
            const MobilizedBody& mobod = matter.getMobilizedBody(MobilizedBodyIndex(b));
            const Vec3 aP = mobod.findStationAccelerationInGround(s, STATIONS[1]);
            const V3 w = v3(mobod.getBodyAngularVelocity(s)), al = v3(Aud[nu + 3][b][0]), a = v3(Aud[nu + 3][b][1]);
            V3 ar = ref::cross(al, rG[b][1]), wwr = ref::cross(w, ref::cross(w, rG[b][1]));
            for (int k = 0; k < 3; ++k) err = std::max(err, fabsl(a[k] + ar[k] + wwr[k] - (LD)aP[k]));
        }
        run.residual("ref-station-accel-readback-vs-harness-shift", (double)(err / ascale), TOL, where, rp);
    }

    // ------------------------------------------------------------------ task lists: all ordered lists of <= 2 (body,station) tasks
    std::vector<std::vector<Task> > lists;
    lists.push_back({});
    for (int b = 0; b < nb; ++b) for (int st = 0; st < 2; ++st) lists.push_back({{b, st}});
    for (int t1 = 0; t1 < 2 * nb; ++t1) for (int t2 = (orderedLists ? 0 : t1); t2 < 2 * nb; ++t2) lists.push_back({{t1 / 2, t1 % 2}, {t2 / 2, t2 % 2}});

    for (const auto& L : lists) {
        const int nt = (int)L.size();
        bool nontrivial = false; for (auto& t : L) nontrivial = nontrivial || t.body != 0;
        run.evaluationDistinct(nontrivial && nu >= 1);
        auto wh = [&] { return desc + " " + taskStr(L); };
        Array_<MobilizedBodyIndex> bodies; Array_<Vec3> stns;
        for (auto& t : L) { bodies.push_back(MobilizedBodyIndex(t.body)); stns.push_back(STATIONS[t.st]); }
        DMat JSr(3 * nt, nu), JFr(6 * nt, nu);
        for (int t = 0; t < nt; ++t) for (int i = 0; i < nu; ++i) for (int k = 0; k < 6; ++k) {
            JFr(6 * t + k, i) = JF[L[t].body][L[t].st](k, i);
            if (k >= 3) JSr(3 * t + k - 3, i) = JF[L[t].body][L[t].st](k, i);
        }

        // ---- operators J*e_i
        DMat JSop(3 * nt, nu), JFop(6 * nt, nu);
        Vector_<Vec3> JSu; Vector_<SpatialVec> JFu; bool sized = true;
        for (int i = 0; i < nu && sized; ++i) {
            e = 0; e[i] = 1;
            matter.multiplyByStationJacobian(s, bodies, stns, e, JSu);
            matter.multiplyByFrameJacobian(s, bodies, stns, e, JFu);
            if (JSu.size() != nt || JFu.size() != nt) { sized = false; break; }
            for (int t = 0; t < nt; ++t) { for (int k = 0; k < 3; ++k) JSop(3 * t + k, i) = JSu[t][k]; put6(JFop, 6 * t, i, JFu[t]); }
        }
        run.expect(sized, "taskJ-op-size", [&] { return "station/frame operator result not of length nt at " + wh(); }, rp);
        if (sized) {
            run.residual("stationJ-op-vs-state", (double)relDiff(JSop, JSr, scale), TOL, wh, rp);
            run.residual("frameJ-op-vs-state", (double)relDiff(JFop, JFr, scale), TOL, wh, rp);
        }
        if (nu == 0) {   // sizes only
            matter.multiplyByStationJacobian(s, bodies, stns, e, JSu); matter.multiplyByFrameJacobian(s, bodies, stns, e, JFu);
            bool z = JSu.size() == nt && JFu.size() == nt;
            if (z) for (int t = 0; t < nt; ++t) z = z && JSu[t] == Vec3(0) && isZero(JFu[t]);
            run.expect(z, "taskJ-op-nu0", [&] { return "operators with nu=0 do not return nt zeros at " + wh(); }, rp);
        }

        // ---- explicit matrices, both element forms
        {
            Matrix_<Vec3> JS; matter.calcStationJacobian(s, bodies, stns, JS);
            bool ok = JS.nrow() == nt && JS.ncol() == nu;
            DMat x(3 * nt, nu);
            if (ok) for (int t = 0; t < nt; ++t) for (int i = 0; i < nu; ++i) for (int k = 0; k < 3; ++k) x(3 * t + k, i) = JS(t, i)[k];
            run.residual("stationJ-explicit-vs-state", ok ? (double)relDiff(x, JSr, scale) : INFINITY, TOL, wh, rp);
            Matrix JSs; matter.calcStationJacobian(s, bodies, stns, JSs);
            run.residual("stationJ-explicit-scalar-vs-state", (double)relDiff(mbref::fromMatrix(JSs), JSr, scale), TOL, wh, rp);
            Matrix_<SpatialVec> JFm; matter.calcFrameJacobian(s, bodies, stns, JFm);
            ok = JFm.nrow() == nt && JFm.ncol() == nu;
            DMat y(6 * nt, nu);
            if (ok) for (int t = 0; t < nt; ++t) for (int i = 0; i < nu; ++i) put6(y, 6 * t, i, JFm(t, i));
            run.residual("frameJ-explicit-vs-state", ok ? (double)relDiff(y, JFr, scale) : INFINITY, TOL, wh, rp);
            Matrix JFs; matter.calcFrameJacobian(s, bodies, stns, JFs);
            run.residual("frameJ-explicit-scalar-vs-state", (double)relDiff(mbref::fromMatrix(JFs), JFr, scale), TOL, wh, rp);
        }

        // ---- transpose operators on every basis force: matrix must be the transpose of the read-back Jacobian
        {
            DMat JST(nu, 3 * nt), JFT(nu, 6 * nt); Vector f; bool ok = true;
            Vector_<Vec3> fS(nt); Vector_<SpatialVec> fF(nt);
            for (int c = 0; c < 3 * nt && ok; ++c) {
                fS.setToZero(); fS[c / 3][c % 3] = 1;
                matter.multiplyByStationJacobianTranspose(s, bodies, stns, fS, f);
                ok = f.size() == nu; for (int i = 0; i < nu && ok; ++i) JST(i, c) = f[i];
            }
            for (int c = 0; c < 6 * nt && ok; ++c) {
                fF.setToZero(); fF[c / 6][(c % 6) / 3][c % 3] = 1;
                matter.multiplyByFrameJacobianTranspose(s, bodies, stns, fF, f);
                ok = f.size() == nu; for (int i = 0; i < nu && ok; ++i) JFT(i, c) = f[i];
            }
            if (nt == 0) { matter.multiplyByStationJacobianTranspose(s, bodies, stns, fS, f); ok = f.size() == nu; for (int i = 0; i < nu && ok; ++i) ok = f[i] == 0;
                           matter.multiplyByFrameJacobianTranspose(s, bodies, stns, fF, f); ok = ok && f.size() == nu; for (int i = 0; i < nu && ok; ++i) ok = f[i] == 0; }
            run.expect(ok, "taskJT-op-size", [&] { return "transpose operator result not of length nu (or nonzero for an empty task list) at " + wh(); }, rp);
            if (ok) {
                run.residual("stationJT-op-adjoint-basis", (double)relDiff(JST, ref::transpose(JSr), scale), TOL, wh, rp);
                run.residual("frameJT-op-adjoint-basis", (double)relDiff(JFT, ref::transpose(JFr), scale), TOL, wh, rp);
            }
            // generic pair <F, J u> = <~J F, u>
            if (ok && nt > 0 && nu > 0) {
                for (int t = 0; t < nt; ++t) for (int k = 0; k < 6; ++k) { fF[t][k / 3][k % 3] = gF(6 * t + k + 1); if (k >= 3) fS[t][k - 3] = gF(6 * t + k + 2); }
                matter.multiplyByStationJacobian(s, bodies, stns, ug, JSu); matter.multiplyByStationJacobianTranspose(s, bodies, stns, fS, f);
                LD lhs = 0, rhs = 0, mag = 1;
                for (int t = 0; t < nt; ++t) for (int k = 0; k < 3; ++k) { LD p = (LD)fS[t][k] * (LD)JSu[t][k]; lhs += p; mag += fabsl(p); }
                for (int i = 0; i < nu; ++i) rhs += (LD)f[i] * (LD)ug[i];
                run.residual("stationJ-adjoint-generic", (double)(fabsl(lhs - rhs) / mag), TOL, wh, rp);
                matter.multiplyByFrameJacobian(s, bodies, stns, ug, JFu); matter.multiplyByFrameJacobianTranspose(s, bodies, stns, fF, f);
                lhs = rhs = 0; mag = 1;
                for (int t = 0; t < nt; ++t) for (int k = 0; k < 6; ++k) { LD p = (LD)fF[t][k / 3][k % 3] * (LD)JFu[t][k / 3][k % 3]; lhs += p; mag += fabsl(p); }
                for (int i = 0; i < nu; ++i) rhs += (LD)f[i] * (LD)ug[i];
                run.residual("frameJ-adjoint-generic", (double)(fabsl(lhs - rhs) / mag), TOL, wh, rp);
            }
        }

        // ---- the state's own u: operator result = what the state reports for these stations / frames
        if (nt > 0) {
            matter.multiplyByStationJacobian(s, bodies, stns, s.getU(), JSu); matter.multiplyByFrameJacobian(s, bodies, stns, s.getU(), JFu);
            LD err = 0, vs = 1;
            for (int t = 0; t < nt; ++t) {
                const MobilizedBody& mobod = matter.getMobilizedBody(bodies[t]);
                const Vec3 v = mobod.findStationVelocityInGround(s, stns[t]), w = mobod.getBodyAngularVelocity(s);
                for (int k = 0; k < 3; ++k) {
                    vs = std::max(vs, std::max(fabsl((LD)v[k]), fabsl((LD)w[k])));
                    err = std::max(err, fabsl((LD)JSu[t][k] - (LD)v[k]));
                    err = std::max(err, fabsl((LD)JFu[t][1][k] - (LD)v[k]));
                    err = std::max(err, fabsl((LD)JFu[t][0][k] - (LD)w[k]));
                }
            }
            run.residual("taskJ-op-state-u-vs-state", (double)(err / vs), TOL, wh, rp);
        }

        // ---- bias terms, all forms, against the required bias for every udot in the set
        {
            Vector_<Vec3> bS; matter.calcBiasForStationJacobian(s, bodies, stns, bS);
            Vector bSs; matter.calcBiasForStationJacobian(s, bodies, stns, bSs);
            Vector_<SpatialVec> bF; matter.calcBiasForFrameJacobian(s, bodies, stns, bF);
            Vector bFs; matter.calcBiasForFrameJacobian(s, bodies, stns, bFs);
            bool ok = bS.size() == nt && bSs.size() == 3 * nt && bF.size() == nt && bFs.size() == 6 * nt;
            run.expect(ok, "taskBias-size", [&] { return "bias result of wrong length at " + wh(); }, rp);
            if (ok) {
                LD eS = 0, eSs = 0, eF = 0, eFs = 0;
                auto upd = [](LD& m, LD x) { x = fabsl(x); if (!(x <= m)) m = x; };
                for (int d = 0; d < nUd; ++d) for (int t = 0; t < nt; ++t) {
                    const DMat& rb = RB[d][L[t].body][L[t].st];
                    for (int k = 0; k < 3; ++k) {
                        upd(eS, (LD)bS[t][k] - rb(3 + k, 0)); upd(eSs, (LD)bSs[3 * t + k] - rb(3 + k, 0));
                        upd(eF, (LD)bF[t][0][k] - rb(k, 0)); upd(eF, (LD)bF[t][1][k] - rb(3 + k, 0));
                        upd(eFs, (LD)bFs[6 * t + k] - rb(k, 0)); upd(eFs, (LD)bFs[6 * t + 3 + k] - rb(3 + k, 0));
                    }
                }
                run.residual("stationBias-A=J*udot+JDotu", (double)(eS / ascale), TOL, wh, rp);
                run.residual("stationBias-scalar-A=J*udot+JDotu", (double)(eSs / ascale), TOL, wh, rp);
                run.residual("frameBias-A=J*udot+JDotu", (double)(eF / ascale), TOL, wh, rp);
                run.residual("frameBias-scalar-A=J*udot+JDotu", (double)(eFs / ascale), TOL, wh, rp);
            }
        }

        // ---- single-task convenience overloads
        if (nt == 1) {
            const MobilizedBodyIndex bx = bodies[0]; const Vec3 p = stns[0];
            LD err = 0; auto upd = [&](LD x) { x = fabsl(x); if (!(x <= err)) err = x; };
            for (int i = 0; i < nu; ++i) {
                e = 0; e[i] = 1;
                const Vec3 v = matter.multiplyByStationJacobian(s, bx, p, e);
                const SpatialVec V = matter.multiplyByFrameJacobian(s, bx, p, e);
                for (int k = 0; k < 3; ++k) { upd((LD)v[k] - JSr(k, i)); upd((LD)V[0][k] - JFr(k, i)); upd((LD)V[1][k] - JFr(3 + k, i)); }
            }
            RowVector_<Vec3> rS; matter.calcStationJacobian(s, bx, p, rS);
            RowVector_<SpatialVec> rF; matter.calcFrameJacobian(s, bx, p, rF);
            Matrix mS; matter.calcStationJacobian(s, bx, p, mS);
            Matrix mF; matter.calcFrameJacobian(s, bx, p, mF);
            bool ok = rS.size() == nu && rF.size() == nu && mS.nrow() == 3 && mS.ncol() == nu && mF.nrow() == 6 && mF.ncol() == nu;
            run.expect(ok, "single-task-size", [&] { return "single-task explicit Jacobian of wrong shape at " + wh(); }, rp);
            if (ok) for (int i = 0; i < nu; ++i) for (int k = 0; k < 3; ++k) {
                upd((LD)rS[i][k] - JSr(k, i)); upd((LD)mS(k, i) - JSr(k, i));
                upd((LD)rF[i][0][k] - JFr(k, i)); upd((LD)rF[i][1][k] - JFr(3 + k, i));
                upd((LD)mF(k, i) - JFr(k, i)); upd((LD)mF(3 + k, i) - JFr(3 + k, i));
            }
            Vector f;
            for (int k = 0; k < 3; ++k) {
                Vec3 fk(0); fk[k] = 1;
                matter.multiplyByStationJacobianTranspose(s, bx, p, fk, f);
                if (f.size() != nu) { err = INFINITY; break; }
                for (int i = 0; i < nu; ++i) upd((LD)f[i] - JSr(k, i));
                for (int h = 0; h < 2; ++h) {
                    SpatialVec Fk(Vec3(0), Vec3(0)); Fk[h][k] = 1;
                    matter.multiplyByFrameJacobianTranspose(s, bx, p, Fk, f);
                    if (f.size() != nu) { err = INFINITY; break; }
                    for (int i = 0; i < nu; ++i) upd((LD)f[i] - JFr(3 * h + k, i));
                }
            }
            run.residual("single-task-overloads-vs-state", (double)(err / scale), TOL, wh, rp);
            const Vec3 b1 = matter.calcBiasForStationJacobian(s, bx, p);
            const SpatialVec B1 = matter.calcBiasForFrameJacobian(s, bx, p);
            LD be = 0;
            for (int d = 0; d < nUd; ++d) { const DMat& rb = RB[d][L[0].body][L[0].st];
                for (int k = 0; k < 3; ++k) { be = std::max(be, fabsl((LD)b1[k] - rb(3 + k, 0))); be = std::max(be, fabsl((LD)B1[0][k] - rb(k, 0))); be = std::max(be, fabsl((LD)B1[1][k] - rb(3 + k, 0))); } }
            run.residual("single-task-bias-A=J*udot+JDotu", (double)(be / ascale), TOL, wh, rp);
        }
    }
    run.count("task-lists", (int64_t)lists.size());
    run.outcome(verif::hashMix(verif::hashPod(nu), verif::hashPod((float)ref::maxAbs(Jsys))));
    if (run.verbose) {
        printf("%s\n nb=%d nu=%d scale=%Lg ascale=%Lg task lists=%zu\n", desc.c_str(), nb, nu, scale, ascale, lists.size());
        for (int b = 0; b < (int)specs.size(); ++b) printf("  body %d node %s\n", b + 1, mb::nodeTypeName(M, b).c_str());
    }
}

// Ground-attached topologies that level A does not contain: T1 (variant alone on Ground; reaches the lone-particle fast path of
// Translation) and T2' (variant and a companion both on Ground, in both construction orders).
struct LevelG {
    std::vector<std::pair<int, int> > kd = mb::kindDirs();
    int64_t size() const { return (int64_t)kd.size() * mb::NFRAMES_ALL * 3; }     // all 8 frame pairs (incl. the "one part only" pairs)
    std::vector<mb::BodySpec> specs(int64_t idx, int massSel) const {
        int lay = idx % 3; idx /= 3; int fr = idx % mb::NFRAMES_ALL; idx /= mb::NFRAMES_ALL;
        mb::BodySpec v; v.kind = kd[idx].first; v.dir = kd[idx].second; v.frames = fr; v.mass = massSel; v.parent = -1;
        if (lay == 0) return {v};
        mb::BodySpec c = mb::companion(lay == 1 ? 2 : 0); c.parent = -1;
        return lay == 1 ? std::vector<mb::BodySpec>{v, c} : std::vector<mb::BodySpec>{c, v};
    }
};

int main(int argc, char** argv) {
    verif::Run run("C04", argc, argv);
    run.setDeadline(900, 3000);   // caps only (shared machine); measured cost is in notes/C04.md
    const bool th = run.thorough();
    run.rule = "E3: KIND = 19 built-in mobilizers, 5 Custom/FunctionBased mirrors with a constant hinge matrix, FunctionBased with nonlinear coordinate functions and 1..6 mobilities (FBN1..6), Custom helix slider with H(q) from X_FM and HDot from V_FM -- 58 KINDxDIR variants (engine/models.h); models = level A (every KINDxDIRxFRAMES variant as base/middle/tip/fork-branch of a 3-body tree with companions {Pin,Ball,Free}^2) + section G (every variant x all 8 frame pairs alone on Ground and next to a Ground-attached companion, both orders); thorough adds level B (all ordered parent->child pairs) and level C (all triples over 8 code families); x COORD{quaternion,Euler} x STATE(4: zero, generic, large-angle, zero-velocity) x value set = seed%3 (thorough: all 3); mass kind = model index % 3. Per (model,state): system Jacobian operators, and EVERY ordered task list of <= 2 (body,station) tasks with body in {Ground, all bodies}, station in {0,(.1,.2,-.3)} (1 + 2nb + (2nb)^2 lists; repeats allowed). evaluations = (model,state) cases + task lists; distinct = distinct (model,coord,state,valueset[,task list]); non-trivial = nu>=1 and (for a task list) at least one non-Ground task";
    run.assumptions = {"continuous values only from the fixed tables in engine/models.h, kept away from coordinate singularities",
        "trees of at most 3 mobilized bodies; task lists of at most 2 tasks; contiguous Vector/Matrix arguments only",
        "velocity/acceleration read-outs of the state (getBodyVelocity, findStationVelocityInGround, getBodyAcceleration) are the reference the property names; they are cross-checked with the harness's own rigid-body shift, and position/velocity kinematics themselves are checked by C03/C05",
        "relative tolerance 1e-11 for algebraic identities; 1e-6 for the finite-difference bias oracle (Richardson pair must agree to 1e-8 or the case is skipped and counted)"};
    std::vector<int> valueSets = th ? std::vector<int>{0, 1, 2} : std::vector<int>{(int)(((run.seed % 3) + 3) % 3)};
    mb::LevelA A; mb::LevelB B; mb::LevelC C; LevelG G;
    auto section = [&](const std::string& name, int64_t nModels, std::function<std::vector<mb::BodySpec>(int64_t, int)> specsOf) {
        verif::Odometer od;
        od.dim("state", 4); od.dim("coord", 2); od.dim("valueset", (int64_t)valueSets.size()); od.dim("model", nModels);
        run.parallel(name, od.size(), [&](int64_t idx) {
            auto d = od.digits(idx);
            auto specs = specsOf(d[3], d[3] % 3);
            bool euler = d[1] == 1;
            std::string desc = name + " " + od.describe(idx) + " ";
            { std::string m = euler ? "euler[" : "quat["; for (auto& b : specs) m += b.str() + " "; desc += m + "] vs=" + std::to_string(valueSets[d[2]]); }
            try { checkCase(run, specs, euler, d[0], valueSets[d[2]], th, desc); }
            catch (const std::exception& e) { run.violation("exception/" + name, std::string("exception: ") + e.what() + " at " + desc, run.replayHeader()); }
            if (idx % 20011 == 0) run.sample(desc);
        });
    };
    section("G", G.size(), [&](int64_t i, int m) { return G.specs(i, m); });
    section("A", A.size(), [&](int64_t i, int m) { return A.specs(i, m); });
    if (th) {
        section("B", B.size(), [&](int64_t i, int m) { return B.specs(i, m); });
        section("C", C.size(), [&](int64_t i, int m) { return C.specs(i, m); });
    }
    run.extraCoverage["distinct_outcomes_note"] = "\"distinct RigidBodyNode typeid names reached plus distinct (nu,|J|) signatures\"";
    return run.finish();
}
