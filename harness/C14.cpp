// C14 -- Mobilizer reaction forces satisfy Newton-Euler for every body.
// Engine E3: every level-A model (each KINDxDIRxFRAMES variant, incl. Weld, as base / middle /
// tip / fork branch of a 3-body tree) and every *legal* massless-middle-body variant
// x COORD x STATE x force pattern x {no constraint, Rod, Ball, ConstantSpeed, Motion::Steady,
// acceleration-level Custom Motion, lock}.  Oracle: for every body (and Ground) the harness
// assembles m*a_com and Ic*alpha + w x Ic*w in long double from the *reported* accelerations and
// the harness's own mass table, and requires them to equal the harness-known applied forces
// (gravity, point forces, torques: the harness placed them), minus the documented-sign constraint
// forces, plus the reported reaction at the body's own M, minus the children's reactions applied
// at the children's M origins.  All the other reporting routes (per-body operators at M / body
// origin / parent F / parent origin, the free-body method) must equal the documented shifts.
#include "Simbody.h"
#include "SimbodyMatterSubsystemRep.h"
#include "RigidBodyNode.h"
#include "verif.h"
#include "models.h"
#include "mbref.h"

#include <cxxabi.h>

using namespace SimTK;
using ref::LD; using ref::DMat; using ref::V3;

static std::string vdemangle(const char* n) { int st = 0; char* d = abi::__cxa_demangle(n, 0, 0, &st); std::string s = d ? d : n; free(d); return s; }
std::string mb::nodeTypeName(const mb::Model& M, int bi) {
    const RigidBodyNode& n = M.matter.getRep().getRigidBodyNode(M.bodies[bi].getMobilizedBodyIndex());
    return vdemangle(typeid(n).name());
}

static const double TOL = 1e-11;        // calibration in notes/C14.md
static const double COND_LEGAL = 1e7;   // massless variants with cond(M) above this are "not legal" (skipped, counted)

// ---------------------------------------------------------------- small long-double vector kit (harness code)
static V3 operator+(const V3& a, const V3& b) { return {{a[0] + b[0], a[1] + b[1], a[2] + b[2]}}; }
static V3 operator-(const V3& a, const V3& b) { return {{a[0] - b[0], a[1] - b[1], a[2] - b[2]}}; }
static V3 operator*(LD s, const V3& a) { return {{s * a[0], s * a[1], s * a[2]}}; }
static LD vmax(const V3& a) { LD m = 0; for (int i = 0; i < 3; ++i) { LD x = fabsl(a[i]); if (!(x <= m)) m = x; } return m; }
static V3 mulMV(const DMat& A, const V3& x) { V3 y = {{0, 0, 0}}; for (int i = 0; i < 3; ++i) for (int j = 0; j < 3; ++j) y[i] += A(i, j) * x[j]; return y; }
static V3 v3(const Vec3& v) { return {{(LD)v[0], (LD)v[1], (LD)v[2]}}; }
static V3 zero3() { return {{0, 0, 0}}; }

// a spatial force (moment about `at`, force) acting at point `at` (all in G)
struct Wrench { V3 at, tau, f; };
static Wrench wrenchOf(const SpatialVec& F, const V3& at) { return {at, v3(F[0]), v3(F[1])}; }
// moment of the wrench about another point p
static V3 momentAbout(const Wrench& w, const V3& p) { return w.tau + ref::cross(w.at - p, w.f); }

// harness-known applied loads
struct PointForce { int body; Vec3 stationB; Vec3 fG; };
struct Torque { int body; Vec3 tauG; };
struct Loads { bool gravity = false; Vec3 g = Vec3(1.2, -9.1, 2.3); std::vector<PointForce> pf; std::vector<Torque> tq; int nMobilityForces = 0; };

class AccelMotionImpl : public Motion::Custom::Implementation {
public:
    Implementation* clone() const override { return new AccelMotionImpl(*this); }
    Motion::Level getLevel(const State&) const override { return Motion::Acceleration; }
    void calcPrescribedAcceleration(const State&, int nu, Real* udot) const override { for (int i = 0; i < nu; ++i) udot[i] = 0.9 - 0.55 * i; }
};

enum ConsMode { CNone, CRod, CBall, CConstantSpeed, CSteady, CAccelMotion, CLock, NCONS };
static const char* consName(int c) { static const char* n[] = {"none", "Rod", "BallConstraint", "ConstantSpeed", "MotionSteady", "MotionCustomAccel", "lock"}; return n[c]; }

struct Case {
    std::vector<mb::BodySpec> specs; bool euler; int stateKind, valueSet, forcePattern, cons, variant; bool massless; std::string desc;
};

static void checkCase(verif::Run& run, const Case& cs) {
    const std::string& desc = cs.desc;
    std::string rh = run.replayHeader() + "case=" + desc + "\n";
    auto rep = [rh] { return rh; };
    auto where = [&] { return desc; };
    auto Mp = mb::build(cs.specs, cs.euler);
    mb::Model& M = *Mp;
    const int nb = (int)cs.specs.size();
    const int vi = cs.variant;
    if (cs.massless) M.bodies[1].setDefaultMassProperties(MassProperties(0, Vec3(0), Inertia(0)));

    // number of mobilities per body (needed to place mobility forces): from a first topology realization
    std::vector<int> nuOf(nb);
    { M.system.realizeTopology(); State d = M.system.getDefaultState(); M.matter.setUseEulerAngles(d, cs.euler); M.system.realizeModel(d);
      for (int b = 0; b < nb; ++b) nuOf[b] = M.bodies[b].getNumU(d); }

    // ---- applied loads (placed by the harness, so the harness knows them)
    Loads L;
    if (cs.forcePattern == 0 || cs.forcePattern == 1) { L.gravity = true; Force::UniformGravity(M.forces, M.matter, L.g); }
    if (cs.forcePattern == 1) {
        for (int b = 0; b < nb; ++b) {
            PointForce p{b, Vec3(0.2 - 0.15 * b, -0.1 + 0.2 * b, 0.3 - 0.1 * b), Vec3(1.5 - b, 0.8 * b - 0.6, -1.1 + 0.7 * b)};
            Torque t{b, Vec3(-0.7 + 0.5 * b, 0.9 - 0.3 * b, 0.4 * b - 0.2)};
            Force::ConstantForce(M.forces, M.bodies[b], p.stationB, p.fG);
            Force::ConstantTorque(M.forces, M.bodies[b], t.tauG);
            L.pf.push_back(p); L.tq.push_back(t);
        }
    }
    if (cs.forcePattern == 1 || cs.forcePattern == 2)
        for (int b = 0; b < nb; ++b) for (int i = 0; i < nuOf[b]; ++i) { Force::MobilityConstantForce(M.forces, M.bodies[b], i, 1.3 * mb::uv(cs.valueSet + 2, i + 2 * b)); L.nMobilityForces++; }

    // ---- constraint / prescribed motion
    bool skipped = false;
    switch (cs.cons) {
        case CRod: Constraint::Rod(M.matter.updGround(), Vec3(0.4, 0.3, -0.2), M.bodies[2], Vec3(0.1, 0.2, -0.15), 1.1); break;
        case CBall: {
            int a = cs.specs[2].parent == 1 ? 0 : 1;     // chain: ancestor(0)-descendant(2); fork: siblings 1 and 2
            Constraint::Ball(M.bodies[a], Vec3(0.3, 0.1, 0.2), M.bodies[2], Vec3(-0.1, 0.25, 0.1)); break;
        }
        case CConstantSpeed: if (nuOf[vi] == 0) skipped = true; else Constraint::ConstantSpeed(M.bodies[vi], MobilizerUIndex(nuOf[vi] - 1), 0.35); break;
        case CSteady: if (nuOf[vi] == 0) skipped = true; else Motion::Steady(M.bodies[vi], 0.7); break;
        case CAccelMotion: if (nuOf[vi] == 0) skipped = true; else Motion::Custom(M.bodies[vi], new AccelMotionImpl()); break;
        case CLock: if (nuOf[vi] == 0) skipped = true; break;
        default: break;
    }
    if (skipped) { run.count(std::string("skipped:nu=0-for-") + consName(cs.cons)); return; }

    State s = mb::makeState(M, cs.stateKind, cs.valueSet);
    if (cs.cons == CLock) M.bodies[vi].lock(s);
    if (cs.cons == CSteady || cs.cons == CAccelMotion || cs.cons == CLock) M.system.prescribe(s);
    M.system.realize(s, Stage::Position);
    const int nu = s.getNU();

    // condition number of the mass matrix (library calcM, checked by C01; inverse by harness elimination).
    // It scales the dynamics-dependent balances: the reported udot carries an error ~eps*cond(M).
    // Legality of a massless middle body = M stays positive definite and cond(M) < COND_LEGAL.
    LD cond = 1;
    if (nu > 0) {
        Matrix Mm; M.matter.calcM(s, Mm); DMat Md = mbref::fromMatrix(Mm), Lc, Mi;
        bool spd = ref::cholesky(Md, Lc) && ref::inverse(Md, Mi);
        cond = spd ? ref::normInf(Md) * ref::normInf(Mi) : INFINITY;
        if (cs.massless) {
            if (!(cond < COND_LEGAL)) { run.count("skipped:massless-not-legal(singular-or-ill-conditioned-M)"); run.evaluation(verif::hashStr(desc), false); return; }
            run.count("massless-legal");
        } else if (!run.expect(spd && cond < 1e9, "massful-model-has-singular-M", [&] { return "harness/alphabet problem: M not SPD or cond>=1e9 at " + desc; }, rep)) return;
    } else if (cs.massless) run.count("massless:nu=0");
    if (cond < 1) cond = 1;
    static const bool calib = getenv("C14_CALIB") != nullptr;
    run.evaluation(verif::hashStr(desc), true);
    for (int b = 0; b < nb; ++b) { std::string nt = mb::nodeTypeName(M, b); run.outcome(verif::hashStr(nt)); if (b == vi) run.count("node:" + nt); }

    M.system.realize(s, Stage::Acceleration);
    const SimbodyMatterSubsystem& matter = M.matter;

    // ---- reported quantities
    Vector_<SpatialVec> FM; matter.calcMobilizerReactionForces(s, FM);
    run.expect(FM.size() == nb + 1, "calcMobilizerReactionForces-size", [&] { return "result not sized nb at " + desc; }, rep);
    Vector_<SpatialVec> consBody; Vector consMob;
    matter.calcConstraintForcesFromMultipliers(s, s.getMultipliers(), consBody, consMob);

    // per body geometry and inertial terms; index 0..nb-1 = bodies, nb = Ground
    struct BD { LD m; V3 o, c, Mo, Fo; DMat IcG; V3 w, al, ac; Wrench react; };
    std::vector<BD> B(nb + 1);
    for (int b = 0; b <= nb; ++b) {
        BD& d = B[b];
        if (b == nb) { d.m = 0; d.o = d.c = d.Mo = d.Fo = zero3(); d.IcG = DMat(3, 3); d.w = d.al = d.ac = zero3(); d.react = wrenchOf(FM[0], zero3()); continue; }
        const MobilizedBody& mo = M.bodies[b];
        mbref::MassRef mr = mbref::massRef(cs.specs[b].mass);
        if (cs.massless && b == 1) { mr.m = 0; mr.com = zero3(); mr.Ic = DMat(3, 3); }
        const Transform& X = mo.getBodyTransform(s);
        DMat R = mbref::toMat(X.R());
        Transform X_PF, X_BM; mb::specFrames(cs.specs[b], X_PF, X_BM);
        d.m = mr.m; d.o = v3(X.p()); V3 r = mulMV(R, mr.com); d.c = d.o + r;
        d.Mo = d.o + mulMV(R, v3(X_BM.p()));
        const int p = cs.specs[b].parent;
        if (p < 0) d.Fo = v3(X_PF.p());
        else { const Transform& XP = M.bodies[p].getBodyTransform(s); d.Fo = v3(XP.p()) + mulMV(mbref::toMat(XP.R()), v3(X_PF.p())); }
        d.IcG = ref::mul(ref::mul(R, mr.Ic), ref::transpose(R));
        const SpatialVec& V = mo.getBodyVelocity(s); const SpatialVec& A = mo.getBodyAcceleration(s);
        d.w = v3(V[0]); d.al = v3(A[0]);
        d.ac = v3(A[1]) + ref::cross(d.al, r) + ref::cross(d.w, ref::cross(d.w, r));
        d.react = wrenchOf(FM[mo.getMobilizedBodyIndex()], d.Mo);
    }

    // ---- Newton-Euler per body (about the body's mass centre; Ground: about its origin)
    // pass 1 assembles both sides and the size of the largest term; pass 2 judges every body on the system-wide
    // scale (a reaction transmitted through a light body carries the rounding error of the heavy bodies' forces).
    LD worstF = 0, worstN = 0, maxReact = 0, sysF = 1e-3L, sysN = 1e-3L;
    struct Bal { V3 ma, sumF, nc, sumN; };
    std::vector<Bal> bal(nb + 1);
    for (int b = 0; b <= nb; ++b) {
        const BD& d = B[b];
        const int mbx = b == nb ? 0 : (int)M.bodies[b].getMobilizedBodyIndex();
        V3 sumF = zero3(), sumN = zero3(); LD fS = 0, nS = 0, armS = 0.1L;
        auto add = [&](const Wrench& w, LD sign) {
            V3 mom = momentAbout(w, d.c);
            sumF = sumF + sign * w.f; sumN = sumN + sign * mom;
            fS = std::max(fS, vmax(w.f)); nS = std::max(nS, std::max(vmax(w.tau), vmax(ref::cross(w.at - d.c, w.f)))); armS = std::max(armS, vmax(w.at - d.c));
        };
        if (b < nb) {
            if (L.gravity) add({d.c, zero3(), d.m * v3(L.g)}, 1);
            for (auto& p : L.pf) if (p.body == b) add({d.o + mulMV(mbref::toMat(M.bodies[b].getBodyTransform(s).R()), v3(p.stationB)), zero3(), v3(p.fG)}, 1);
            for (auto& t : L.tq) if (t.body == b) add({d.c, v3(t.tauG), zero3()}, 1);
        }
        add(wrenchOf(consBody[mbx], d.o), -1);                 // documented sign: M udot + ~G lambda = f_applied
        add(d.react, 1);                                        // reaction at own M
        for (int k = 0; k < nb; ++k) {                          // equal and opposite of every child's reaction, at the child's M origin
            const int pk = cs.specs[k].parent < 0 ? nb : cs.specs[k].parent;
            if (pk == b) add(B[k].react, -1);
        }
        V3 ma = d.m * d.ac, h = mulMV(d.IcG, d.w);
        V3 nc = mulMV(d.IcG, d.al) + ref::cross(d.w, h);
        // a moment balance cannot be better than eps * (largest force) * (largest lever arm)
        fS = std::max(fS, vmax(ma)); nS = std::max(std::max(nS, vmax(nc)), fS * armS);
        sysF = std::max(sysF, fS); sysN = std::max(sysN, nS);
        bal[b] = {ma, sumF, nc, sumN};
        maxReact = std::max(maxReact, std::max(vmax(d.react.f), vmax(d.react.tau)));
    }
    for (int b = 0; b <= nb; ++b) {
        const BD& d = B[b]; const Bal& q = bal[b];
        double eF = (double)(vmax(q.ma - q.sumF) / sysF), eN = (double)(vmax(q.nc - q.sumN) / sysN);
        const std::string who = b == nb ? "Ground" : "body";
        run.residual("NewtonEuler-force-" + who, eF / (double)cond, TOL, where, rep);
        run.residual("NewtonEuler-moment-" + who, eN / (double)cond, TOL, where, rep);
        if (calib) { run.residual("calib-raw-NewtonEuler-force-" + who, eF, 1e300, where, rep); run.residual("calib-raw-NewtonEuler-moment-" + who, eN, 1e300, where, rep); }
        worstF = std::max<LD>(worstF, eF); worstN = std::max<LD>(worstN, eN);
        if (run.verbose) printf("  %s %d: m*a=(%.12Lg %.12Lg %.12Lg) sumF=(%.12Lg %.12Lg %.12Lg) eF=%.3g | N=(%.12Lg %.12Lg %.12Lg) sumN=(%.12Lg %.12Lg %.12Lg) eN=%.3g | react f=(%.6Lg %.6Lg %.6Lg) tau=(%.6Lg %.6Lg %.6Lg)\n",
                                who.c_str(), b, q.ma[0], q.ma[1], q.ma[2], q.sumF[0], q.sumF[1], q.sumF[2], eF, q.nc[0], q.nc[1], q.nc[2], q.sumN[0], q.sumN[1], q.sumN[2], eN,
                                d.react.f[0], d.react.f[1], d.react.f[2], d.react.tau[0], d.react.tau[1], d.react.tau[2]);
    }

    // ---- the other reporting routes = documented shifts of the same wrench
    Vector_<SpatialVec> FMfree; matter.calcMobilizerReactionForcesUsingFreebodyMethod(s, FMfree);
    for (int b = 0; b < nb; ++b) {
        const BD& d = B[b];
        const MobilizedBody& mo = M.bodies[b];
        const int p = cs.specs[b].parent;
        const V3 oP = p < 0 ? zero3() : B[p].o;
        const LD fS = std::max<LD>(vmax(d.react.f), 1e-3L);
        const LD arm = std::max(std::max(vmax(d.Mo - d.o), vmax(d.Mo - d.Fo)), vmax(d.Mo - oP));
        const LD nS = std::max<LD>(std::max(vmax(d.react.tau), arm * vmax(d.react.f)), 1e-3L);
        auto cmp = [&](const std::string& name, const SpatialVec& lib, const V3& refTau, const V3& refF) {
            double e = (double)std::max(vmax(v3(lib[0]) - refTau) / nS, vmax(v3(lib[1]) - refF) / fS);
            run.residual(name, e, TOL, where, rep);
        };
        cmp("findMobilizerReactionOnBodyAtMInGround-vs-calcMobilizerReactionForces", mo.findMobilizerReactionOnBodyAtMInGround(s), d.react.tau, d.react.f);
        cmp("findMobilizerReactionOnBodyAtOriginInGround-vs-shift", mo.findMobilizerReactionOnBodyAtOriginInGround(s), momentAbout(d.react, d.o), d.react.f);
        cmp("findMobilizerReactionOnParentAtFInGround-vs-minus-shift", mo.findMobilizerReactionOnParentAtFInGround(s), (LD)-1 * momentAbout(d.react, d.Fo), (LD)-1 * d.react.f);
        cmp("findMobilizerReactionOnParentAtOriginInGround-vs-minus-shift", mo.findMobilizerReactionOnParentAtOriginInGround(s), (LD)-1 * momentAbout(d.react, oP), (LD)-1 * d.react.f);
        // free-body route: same physics from the accelerations; compared on the scale of the largest term of any body's balance
        const SpatialVec& Ff = FMfree[mo.getMobilizedBodyIndex()];
        run.residual("FreebodyMethod-vs-calcMobilizerReactionForces", (double)(std::max(vmax(v3(Ff[0]) - d.react.tau) / sysN, vmax(v3(Ff[1]) - d.react.f) / sysF) / cond), TOL, where, rep);
    }
    {
        run.residual("FreebodyMethod-vs-calcMobilizerReactionForces-Ground", (double)(std::max(vmax(v3(FMfree[0][0]) - B[nb].react.tau) / sysN, vmax(v3(FMfree[0][1]) - B[nb].react.f) / sysF) / cond), TOL, where, rep);
    }

    // ---- vacuity counters
    if (maxReact > 1e-6L) run.count("cases-with-nonzero-reactions");
    { Real lam = 0; for (int i = 0; i < s.getNMultipliers(); ++i) lam = std::max(lam, std::abs(s.getMultipliers()[i])); if (lam > 1e-9) run.count(std::string("nonzero-multipliers:") + consName(cs.cons)); }
    if (cs.cons == CSteady || cs.cons == CAccelMotion || cs.cons == CLock) {
        Vector tau; matter.findMotionForces(s, tau); Real t = 0; for (int i = 0; i < tau.size(); ++i) t = std::max(t, std::abs(tau[i]));
        if (t > 1e-9) run.count(std::string("nonzero-motion-forces:") + consName(cs.cons));
    }
    run.outcome(verif::hashPod((float)maxReact) ^ verif::hashPod((float)B[0].ac[1]));
    if (run.verbose) printf("%s\n  nu=%d cond=%Lg maxReact=%Lg worstF=%Lg worstN=%Lg\n", desc.c_str(), nu, cond, maxReact, worstF, worstN);
}

int main(int argc, char** argv) {
    verif::Run run("C14", argc, argv);
    run.setDeadline(400, 2400);   // safety net only
    const bool th = run.thorough();
    run.rule = "E3: KIND = 19 built-in mobilizers, 5 Custom/FunctionBased mirrors with a constant hinge matrix, FunctionBased with nonlinear coordinate functions and 1..6 mobilities (FBN1..6), Custom helix slider with H(q) from X_FM and HDot from V_FM -- 58 KINDxDIR variants (engine/models.h); models = level A (every KINDxDIRxFRAMES variant, incl. Weld, as base/middle/tip/fork-branch of a 3-body tree with companions {Pin,Ball,Free}^2) plus the massless-middle-body variant of every role-1 model (kept when the mass matrix stays SPD with cond<1e7, else counted as not legal); x COORD{quaternion,Euler} x STATE (quick: generic and zero-velocity state of value set seed%3; thorough: all 4 state kinds of that value set + the generic state of the other two value sets) x MASS(variant's mass kind = value set, so thorough uses all 3; companions always carry kinds 0,1,2) x FORCE{gravity; gravity+point force+torque on every body+mobility force on every u; mobility forces only} x CONS{none, Rod(Ground-tip), Ball constraint(base-tip / siblings), ConstantSpeed on the variant, Motion::Steady, acceleration-level Custom Motion, lock}; distinct = distinct tuple; non-trivial = legal and not skipped for nu=0";
    run.assumptions = {"continuous values only from the fixed tables in engine/models.h and the constants in this harness",
                       "trees of 3 mobilized bodies", "reported poses/velocities/accelerations are inputs (their correctness is C02/C03/C05's business)",
                       "constraint body forces are taken from calcConstraintForcesFromMultipliers with the documented sign; constraint and prescribed-motion mobility forces are part of the reaction (documented convention)",
                       "relative tolerance 1e-11 x cond(M) against the largest term of any body's balance in the system"};
    // (state kind, value set) combinations.  quick: generic and zero-velocity state of value set seed%3;
    // thorough: all four state kinds of that value set plus the generic state of the other two value sets.
    const int vs0 = (int)(((run.seed % 3) + 3) % 3);
    std::vector<std::pair<int, int> > stateVs = th ? std::vector<std::pair<int, int> >{{0, vs0}, {1, vs0}, {2, vs0}, {3, vs0}, {1, (vs0 + 1) % 3}, {1, (vs0 + 2) % 3}}
                                                  : std::vector<std::pair<int, int> >{{1, vs0}, {3, vs0}};
    const int nMass = 1;   // the variant's mass kind = the value set (quick: seed%3; thorough: all three occur)
    mb::LevelA A;
    auto section = [&](const std::string& name, bool massless) {
        std::vector<int64_t> models;                    // massless: only the middle body of a chain (role 1)
        for (int64_t i = 0; i < A.size(); ++i) if (!massless || (i / 9) % 4 == 1) models.push_back(i);
        verif::Odometer od;
        od.dim("cons", NCONS); od.dim("force", 3); od.dim("statevs", (int64_t)stateVs.size()); od.dim("coord", 2);
        od.dim("mass", massless ? 1 : nMass);           // the variant's own mass kind is irrelevant when it is massless
        od.dim("unused", 1); od.dim("model", (int64_t)models.size());
        run.parallel(name, od.size(), [&](int64_t idx) {
            auto d = od.digits(idx);
            const int64_t mi = models[d[6]];
            const int role = (int)((mi / 9) % 4);
            Case cs;
            cs.specs = A.specs(mi, massless ? 0 : (d[4] + stateVs[d[2]].second) % 3);   // mass kind of the variant = value set
            cs.euler = d[3] == 1; cs.stateKind = stateVs[d[2]].first; cs.valueSet = stateVs[d[2]].second; cs.forcePattern = d[1]; cs.cons = d[0];
            cs.variant = role == 0 ? 0 : role == 2 ? 2 : 1; cs.massless = massless;
            cs.desc = name + " " + od.describe(idx) + " levelA=" + std::to_string(mi) + " cons=" + consName(cs.cons) + " ";
            { std::string m = cs.euler ? "euler[" : "quat["; for (auto& b : cs.specs) m += b.str() + " "; cs.desc += m + "] st=" + std::to_string(cs.stateKind) + " vs=" + std::to_string(cs.valueSet); }
            try { checkCase(run, cs); }
            catch (const std::exception& e) { run.violation("exception/" + name + "/" + consName(cs.cons), std::string("exception: ") + e.what() + " at " + cs.desc, run.replayHeader() + "case=" + cs.desc + "\n"); }
            if (idx % 50021 == 0) run.sample(cs.desc);
        });
    };
    section("A", false);
    section("massless", true);
    return run.finish();
}
