// C08 -- Constrained forward dynamics satisfies constraints and Newton's law.
// Engine E3: all singletons, unordered pairs (triples in thorough) and duplicated (redundant, consistent) instances of the
// constraint alphabet (engine/consmodels.h) on the host trees x all enable masks x COORD x STATE x force patterns.
// Oracles after realize(Acceleration):
//   * Newton:   M_ref udot + G^T lambda + c - f_applied = 0   (M_ref = sum J^T S J dense reference, c = library's
//               unconstrained inverse dynamics at udot=0, f_applied = mobility forces + J_ref^T body forces)
//   * udoterr ~ 0 whenever the acceleration-level equations are (definitely) consistent -- harness-side range test
//   * disabled constraints: udot, G^T lambda, per-constraint multipliers, power equal those of a system built WITHOUT them
//   * calcConstraintPower = -lambda^T G u (virtual work), = sum of Constraint::calcPower; for workless sets at states
//     projected onto the velocity manifold |power| <= c (|lambda| |verr| + eps scale)   (scaled -- unlike TestCustomConstraints)
#include "Simbody.h"
#include "verif.h"
#include "models.h"
#include "consmodels.h"
#include "mbref.h"

using namespace SimTK;
using ref::LD; using ref::DMat;

std::string mb::nodeTypeName(const mb::Model&, int) { return ""; }

// Poisoned allocator: every heap block handed out by operator new / new[] (also inside the simbody libraries, which
// resolve these replaceable functions to the executable's definitions) is filled with 0xFF bytes = NaN doubles.
// Reads of uninitialised heap memory thereby give the same (NaN) result in every run, independent of heap history,
// e.g. FactorQTZ::solve() with a rank-0 matrix (see notes/C07.md D3), which otherwise yields arbitrary multipliers.
#include <new>
void* operator new(std::size_t n) { void* p = std::malloc(n ? n : 1); if (!p) throw std::bad_alloc(); std::memset(p, 0xFF, n); return p; }
void* operator new[](std::size_t n) { void* p = std::malloc(n ? n : 1); if (!p) throw std::bad_alloc(); std::memset(p, 0xFF, n); return p; }
void operator delete(void* p) noexcept { std::free(p); }
void operator delete[](void* p) noexcept { std::free(p); }
void operator delete(void* p, std::size_t) noexcept { std::free(p); }
void operator delete[](void* p, std::size_t) noexcept { std::free(p); }

// Tolerances: see notes/C08.md for the calibration numbers.
static const double TOL_NEWTON = 1e-9;     // relative to |M||udot| + |G^T lambda| + |c| + |f|
static const double TOL_UDOTERR = 1e-8;    // relative to (|G||udot| + |aerr(0)|) / (smallest retained direction of G)
static const double TOL_DIFF = 1e-8;       // full system with disabled constraints vs system built without them (scaled the same way)
static const double TOL_POWER = 1e-10;     // relative to sum |lambda_i| |G_i| |u|
static const double SING_MARGIN = 0.05;

// ---------------------------------------------------------------- the instance table
static const int NINST = 20;
static cons::ConsSpec instanceSpec(int i, int variantList) {
    using namespace cons;
    static const int tab[NINST][5] = {   // type, attach, swap, lat, var
        {CRod, ASiblings, 0, 0, 0}, {CBall, AGroundBody, 1, 1, 0}, {CWeld, AViaGround, 0, 2, 0}, {CPointInPlane, AAncDesc2, 0, 0, 0},
        {CPointOnLine, AParentChild, 1, 1, 0}, {CConstantAngle, ASiblings, 0, 2, 1}, {CConstantOrientation, AGroundBody, 0, 1, 0}, {CNoSlip1D, ASiblings, 0, 0, 2},
        {CConstantCoordinate, AAncDesc2, 0, 0, 0}, {CConstantSpeed, AParentChild, 0, 0, 0}, {CConstantAcceleration, ASiblings, 0, 0, 0}, {CCoordinateCoupler, AParentChild, 0, 0, 1},
        {CSpeedCoupler, AAncDesc2, 0, 0, 0}, {CPrescribedMotion, AViaGround, 0, 0, 1}, {CPointOnPlaneContact, AGroundBody, 0, 2, 0}, {CSphereOnPlaneContact, AViaGround, 1, 0, 1},
        {CSphereOnSphereContact, AParentChild, 0, 2, 1}, {CLineOnLineContact, ASiblings, 1, 1, 1}, {CCustomRod, ASiblings, 0, 0, 0}, {CCustomConstantSpeed, AParentChild, 0, 0, 0}};
    // second list (thorough): other attachments / variants
    static const int tab2[NINST][5] = {
        {CRod, AAncDesc2, 1, 2, 0}, {CBall, ASiblings, 0, 0, 0}, {CWeld, AGroundBody, 1, 1, 0}, {CPointInPlane, AViaGround, 1, 1, 0},
        {CPointOnLine, ASiblings, 0, 2, 0}, {CConstantAngle, AAncDesc2, 1, 0, 0}, {CConstantOrientation, AViaGround, 1, 2, 0}, {CNoSlip1D, AGroundBody, 0, 1, 1},
        {CConstantCoordinate, AGroundBody, 0, 0, 0}, {CConstantSpeed, ASiblings, 0, 0, 0}, {CConstantAcceleration, AViaGround, 0, 0, 0}, {CCoordinateCoupler, ASiblings, 1, 0, 0},
        {CSpeedCoupler, AParentChild, 0, 0, 2}, {CPrescribedMotion, AAncDesc2, 0, 0, 0}, {CPointOnPlaneContact, ASiblings, 1, 0, 0}, {CSphereOnPlaneContact, AAncDesc2, 0, 2, 0},
        {CSphereOnSphereContact, AGroundBody, 1, 0, 1}, {CLineOnLineContact, AViaGround, 0, 2, 0}, {CCustomRod, AAncDesc2, 1, 2, 0}, {CCustomConstantSpeed, ASiblings, 0, 0, 0}};
    const int* t = variantList ? tab2[i] : tab[i];
    ConsSpec cs; cs.type = t[0]; cs.attach = t[1]; cs.swap = t[2]; cs.lat = t[3]; cs.var = t[4];
    return cs;
}

// force pattern 0: none; 1: gravity + mobility forces + body force + body torque; 2: gravity only
static void addForces(mb::Model& M, int pattern) {
    if (pattern == 0) return;
    Force::UniformGravity(M.forces, M.matter, Vec3(0.3, -9.8, 1.1));
    if (pattern == 2) return;
    Force::MobilityConstantForce(M.forces, M.bodies[2], 0, 2.5);
    Force::MobilityConstantForce(M.forces, M.bodies[4], 0, -1.7);
    Force::ConstantForce(M.forces, M.bodies[3], Vec3(0.1, 0.2, -0.1), Vec3(1, -2, 0.5));
    Force::ConstantTorque(M.forces, M.bodies[1], Vec3(0.4, 0.3, -0.6));
}

struct Built {
    std::unique_ptr<mb::Model> M;
    std::vector<cons::Added> A;
};
static Built buildSystem(int host, bool euler, const std::vector<cons::ConsSpec>& specs, int forcePattern) {
    Built b; b.M = mb::build(cons::hostSpecs(host), euler);
    for (auto& cs : specs) b.A.push_back(cons::addConstraint(*b.M, cs, host));
    addForces(*b.M, forcePattern);
    return b;
}

// orthonormal basis of the column space of A (modified Gram-Schmidt with re-orthogonalisation); reports the smallest
// retained and the largest dropped relative column residual (rank gap)
static void columnSpace(const DMat& A, std::vector<std::vector<LD> >& Q, LD& minKept, LD& maxDropped) {
    const LD sc = std::max<LD>(ref::maxAbs(A), 1e-300L); minKept = INFINITY; maxDropped = 0;
    for (int j = 0; j < A.c; ++j) {
        std::vector<LD> v(A.r); for (int i = 0; i < A.r; ++i) v[i] = A(i, j);
        for (int pass = 0; pass < 2; ++pass) for (auto& q : Q) { LD d = 0; for (int i = 0; i < A.r; ++i) d += q[i] * v[i]; for (int i = 0; i < A.r; ++i) v[i] -= d * q[i]; }
        LD n = 0; for (LD x : v) n += x * x; n = sqrtl(n);
        if (n > 1e-7L * sc) { for (LD& x : v) x /= n; Q.push_back(v); minKept = std::min(minKept, n / sc); }
        else maxDropped = std::max(maxDropped, n / sc);
    }
}

struct Dyn {   // results of one realized system
    Vector udot, lambda, udoterr; DMat G; Real power = 0; std::vector<Vector> perConstraintLambda; std::vector<Real> perConstraintPower;
};

struct CaseId { int host, euler, stateId, valueSet, forcePattern, mask, list; std::vector<int> inst; };

static void checkCase(verif::Run& run, const CaseId& id, const std::string& desc) {
    auto where = [&] { return desc; };
    auto rp = [&] { return run.replayHeader() + desc + "\n"; };
    const int n = (int)id.inst.size();
    std::vector<cons::ConsSpec> specs; for (int i : id.inst) specs.push_back(instanceSpec(i, id.list));
    for (auto& cs : specs) if (!cons::legalCombination(cs, id.host, id.euler != 0)) { run.count("illegal-instance"); return; }
    Built full = buildSystem(id.host, id.euler != 0, specs, id.forcePattern);
    mb::Model& M = *full.M; const SimbodyMatterSubsystem& matter = M.matter;
    bool ok = true; std::string err;
    State s = cons::makeState(M, id.stateId, id.valueSet, &ok, &err, [&](State& st) { for (int k = 0; k < n; ++k) if (!((id.mask >> k) & 1)) full.A[k].c.disable(st); });
    std::string typeKey; for (int k = 0; k < n; ++k) if ((id.mask >> k) & 1) typeKey += std::string(typeKey.empty() ? "" : "+") + cons::consName(specs[k].type);
    if (typeKey.empty()) typeKey = "none-enabled";
    run.evaluation(verif::hashStr(desc), true);
    if (!ok) { run.count("skipped:projection-failed"); if (run.verbose) printf("projection failed: %s\n", err.c_str()); return; }
    for (int k = 0; k < n; ++k) run.expect(full.A[k].c.isDisabled(s) == !((id.mask >> k) & 1), "enable-mask-respected", [&] { return "isDisabled() disagrees with the mask at " + desc; }, rp);
    M.system.realize(s, Stage::Velocity);
    for (int k = 0; k < n; ++k) if ((id.mask >> k) & 1) if (cons::singularityMargin(M, s, full.A[k]) < SING_MARGIN) { run.count("skipped:near-documented-singularity"); return; }
    const int nu = s.getNU();

    auto solve = [&](mb::Model& MM, State& st, const std::vector<cons::Added>& AA, const std::vector<int>& enabledIdx, Dyn& d) {
        MM.system.realize(st, Stage::Acceleration);
        d.udot = st.getUDot(); d.lambda = MM.matter.getConstraintMultipliers(st); d.udoterr = st.getUDotErr();
        Matrix Gm; MM.matter.calcG(st, Gm); d.G = mbref::fromMatrix(Gm); if (Gm.nrow() == 0) d.G = DMat(0, st.getNU());
        d.power = MM.matter.calcConstraintPower(st);
        for (int k : enabledIdx) { d.perConstraintLambda.push_back(AA[k].c.getMultipliersAsVector(st)); d.perConstraintPower.push_back(AA[k].c.calcPower(st)); }
    };
    std::vector<int> enabled; for (int k = 0; k < n; ++k) if ((id.mask >> k) & 1) enabled.push_back(k);
    Dyn D;
    try { solve(M, s, full.A, enabled, D); }
    catch (const std::exception& e) { run.count("unspecified:realize-acceleration-threw"); if (run.verbose) printf("threw: %s\n", e.what()); return; }
    const int m = D.lambda.size();
    {   // everything must be finite; the least-squares multiplier solve of a system whose G vanishes identically is known not to be
        bool finite = std::isfinite(D.power);
        for (int i = 0; i < D.udot.size(); ++i) finite = finite && std::isfinite(D.udot[i]);
        for (int i = 0; i < D.lambda.size(); ++i) finite = finite && std::isfinite(D.lambda[i]);
        for (int i = 0; i < D.udoterr.size(); ++i) finite = finite && std::isfinite(D.udoterr[i]);
        const bool Gzero = m > 0 && ref::maxAbs(D.G) == 0;
        if (Gzero) run.count("G-identically-zero");
        if (!run.expect(finite, Gzero ? "forward-dynamics-result-not-finite/G-identically-zero(rank-0-multiplier-solve)" : "forward-dynamics-result-not-finite/other",
                        [&] { return "udot / multipliers / udoterr / power contain NaN or Inf at " + desc; }, rp)) return;
    }
    int mExpected = 0; for (int k : enabled) mExpected += full.A[k].mp + full.A[k].mv + full.A[k].ma;
    run.expect(m == mExpected && D.udoterr.size() == m && D.G.r == m, "multiplier-count-equals-enabled-equations", [&] { return "m=" + std::to_string(m) + " expected " + std::to_string(mExpected) + " at " + desc; }, rp);
    if (!(m == mExpected && D.udoterr.size() == m && D.G.r == m)) return;
    run.count("m=" + std::to_string(m));

    // ------------------------------------------------------------ references
    const DMat J = mbref::jacobianRef(M, s);
    const DMat Mref = mbref::massMatrixRef(M, s, J);
    Vector cvec; matter.calcResidualForceIgnoringConstraints(s, Vector(), Vector_<SpatialVec>(), Vector(nu, Real(0)), cvec);   // f_inertial (C02 checks this operator)
    const Vector& mobF = M.system.getMobilityForces(s, Stage::Dynamics);
    const Vector_<SpatialVec>& bodyF = M.system.getRigidBodyForces(s, Stage::Dynamics);
    DMat fapp(nu, 1);
    for (int j = 0; j < nu; ++j) fapp(j, 0) = mobF[j];
    for (int b = 0; b < (int)M.bodies.size(); ++b) { const SpatialVec& F = bodyF[M.bodies[b].getMobilizedBodyIndex()]; for (int j = 0; j < nu; ++j) for (int k = 0; k < 3; ++k) fapp(j, 0) += J(6 * b + k, j) * F[0][k] + J(6 * b + 3 + k, j) * F[1][k]; }
    const DMat udot = mbref::fromVector(D.udot), lam = m ? mbref::fromVector(D.lambda) : DMat(0, 1);
    const DMat Mu = ref::mul(Mref, udot), Gtl = m ? ref::mul(ref::transpose(D.G), lam) : DMat(nu, 1), c = mbref::fromVector(cvec);

    // ------------------------------------------------------------ 1. Newton's law with the reported multipliers
    {
        DMat r = ref::add(ref::add(ref::add(Mu, Gtl), c), fapp, -1);
        const LD sc = 1 + ref::maxAbs(Mu) + ref::maxAbs(Gtl) + ref::maxAbs(c) + ref::maxAbs(fapp);
        run.residual("newton:Mref*udot+Gt*lambda+c-f", (double)(ref::maxAbs(r) / sc), TOL_NEWTON, where, rp, typeKey);
        Vector rl; matter.calcResidualForce(s, mobF, bodyF, D.udot, D.lambda, rl);
        run.residual("calcResidualForce(udot,lambda)", (double)(ref::maxAbs(mbref::fromVector(rl)) / sc), TOL_NEWTON, where, rp, typeKey);
        if (ref::maxAbs(Gtl) > 1e-6) run.count("nonzero-constraint-force");
    }

    // ------------------------------------------------------------ 2. acceleration-level constraints are satisfied when consistent
    LD condScale = 1; int rankG = 0;
    if (m > 0) {
        Vector a0; matter.calcConstraintAccelerationErrors(s, Vector(nu, Real(0)), a0);
        std::vector<std::vector<LD> > Q; LD minKept, maxDropped; columnSpace(D.G, Q, minKept, maxDropped);
        // consistent iff -a0 lies in the column space of G
        std::vector<LD> v(m); for (int i = 0; i < m; ++i) v[i] = a0[i];
        for (int pass = 0; pass < 2; ++pass) for (auto& q : Q) { LD d = 0; for (int i = 0; i < m; ++i) d += q[i] * v[i]; for (int i = 0; i < m; ++i) v[i] -= d * q[i]; }
        LD res = 0; for (LD x : v) res = std::max(res, fabsl(x));
        const LD sc = 1 + ref::maxAbs(D.G) * ref::maxAbs(udot) + ref::maxAbs(mbref::fromVector(a0));
        const bool rankClear = maxDropped < 1e-12L && (Q.empty() || minKept > 1e-5L);
        condScale = Q.empty() ? 1 : 1 / std::min<LD>(1, minKept); rankG = (int)Q.size();
        if ((int)Q.size() < m) run.count("redundant-constraint-set");
        if (!rankClear) run.count("unspecified:rank-of-G-not-clear-cut");
        else if (res <= 1e-10L * sc) {
            run.count("consistent-set");
            run.residual("udoterr-zero-for-consistent-set", (double)(ref::maxAbs(mbref::fromVector(D.udoterr)) / sc / condScale), TOL_UDOTERR, where, rp, typeKey);
        } else if (res > 1e-5L * sc) run.count("inconsistent-set(udoterr-not-demanded)");
        else run.count("unspecified:consistency-not-clear-cut");
        Vector ae; matter.calcConstraintAccelerationErrors(s, D.udot, ae);
        run.residual("udoterr-is-aerr(udot)", (double)(ref::maxAbsDiff(mbref::fromVector(ae), mbref::fromVector(D.udoterr)) / sc), 1e-12, where, rp);
    }

    // ------------------------------------------------------------ 3. power
    {
        const DMat u = mbref::fromVector(s.getU());
        LD pref = 0, psc = 1e-300L; Vector Gu(m);
        for (int i = 0; i < m; ++i) { LD gu = 0, ga = 0; for (int j = 0; j < nu; ++j) { gu += D.G(i, j) * u(j, 0); ga += fabsl(D.G(i, j) * u(j, 0)); } pref -= (LD)D.lambda[i] * gu; psc += fabsl(D.lambda[i]) * ga; Gu[i] = (Real)gu; }
        run.residual("calcConstraintPower-vs-minus-lambda.G.u", (double)(fabsl(D.power - pref) / (1 + psc)), TOL_POWER, where, rp, typeKey);
        LD sum = 0; for (Real p : D.perConstraintPower) sum += p;
        run.residual("sum-of-Constraint::calcPower-vs-calcConstraintPower", (double)(fabsl(sum - D.power) / (1 + psc)), TOL_POWER, where, rp);
        bool workless = true; for (int k : enabled) workless = workless && cons::isWorkless(specs[k]);
        if (workless && m > 0 && id.stateId == 4) {   // velocity manifold reached by projection: power must vanish up to |lambda||verr|
            LD bound = 0; for (int i = 0; i < std::min(m, (int)s.getUErr().size()); ++i) bound += fabsl(D.lambda[i]) * fabsl(s.getUErr()[i]);
            run.residual("workless-power-on-velocity-manifold", (double)(fabsl(D.power) / (10 * bound + 1e-8L * (1 + psc))), 1, where, rp, typeKey);
            run.count("workless-power-checked");
        }
        if (D.power != 0) run.count("nonzero-power");
    }

    // ------------------------------------------------------------ 4. disabled constraints have no effect: compare with a system built without them
    if ((int)enabled.size() < n) {
        std::vector<cons::ConsSpec> sub; for (int k : enabled) sub.push_back(specs[k]);
        Built red = buildSystem(id.host, id.euler != 0, sub, id.forcePattern);
        red.M->system.realizeTopology();
        State t = red.M->system.getDefaultState();
        red.M->matter.setUseEulerAngles(t, id.euler != 0); red.M->system.realizeModel(t);
        bool sameShape = t.getNQ() == s.getNQ() && t.getNU() == nu;
        run.expect(sameShape, "reduced-system-has-same-coordinates", [&] { return "nq/nu differ at " + desc; }, rp);
        if (sameShape) {
            t.setTime(s.getTime()); t.updQ() = s.getQ(); t.updU() = s.getU();
            Dyn R; std::vector<int> all; for (int k = 0; k < (int)sub.size(); ++k) all.push_back(k);
            try {
                solve(*red.M, t, red.A, all, R);
                const LD usc = (1 + ref::maxAbs(udot)) * condScale, fsc = (1 + ref::maxAbs(Gtl)) * condScale;
                run.expect(R.lambda.size() == m, "reduced-system-has-same-number-of-multipliers", [&] { return "m differs at " + desc; }, rp);
                run.residual("disabled-vs-absent:udot", (double)(ref::maxAbsDiff(mbref::fromVector(R.udot), udot) / usc), TOL_DIFF, where, rp, typeKey);
                if (R.lambda.size() == m) {
                    DMat GtlR = m ? ref::mul(ref::transpose(R.G), mbref::fromVector(R.lambda)) : DMat(nu, 1);
                    run.residual("disabled-vs-absent:Gt*lambda", (double)(ref::maxAbsDiff(GtlR, Gtl) / fsc), TOL_DIFF, where, rp, typeKey);
                    run.residual("disabled-vs-absent:G", m ? (double)(ref::maxAbsDiff(R.G, D.G) / (1 + ref::maxAbs(D.G))) : 0.0, 1e-12, where, rp, typeKey);
                    LD lw = 0; for (size_t k = 0; k < enabled.size(); ++k) for (int i = 0; i < D.perConstraintLambda[k].size(); ++i) lw = std::max<LD>(lw, fabsl(D.perConstraintLambda[k][i] - R.perConstraintLambda[k][i]));
                    if (rankG == m) run.residual("disabled-vs-absent:multipliers(full-rank)", (double)(lw / ((1 + ref::maxAbs(lam)) * condScale * condScale)), TOL_DIFF, where, rp, typeKey);
                    run.residual("disabled-vs-absent:power", (double)(fabsl(R.power - D.power) / ((1 + fabsl(D.power) + ref::maxAbs(lam) * ref::maxAbs(D.G) * (1 + ref::maxAbs(mbref::fromVector(s.getU())))) * condScale * condScale)), TOL_DIFF, where, rp, typeKey);
                }
                run.count("disabled-vs-absent-compared");
            } catch (const std::exception& e) { run.count("unspecified:reduced-system-threw"); if (run.verbose) printf("reduced threw: %s\n", e.what()); }
        }
    }
    run.outcome(verif::hashMix(verif::hashPod(m), verif::hashPod((float)ref::maxAbs(udot))));
    if (run.verbose) {
        printf("%s\n m=%d nu=%d power=%.17g\n", desc.c_str(), m, nu, (double)D.power);
        std::cout << " udot=" << D.udot << "\n lambda=" << D.lambda << "\n udoterr=" << D.udoterr << std::endl;
    }
}

int main(int argc, char** argv) {
    verif::Run run("C08", argc, argv);
    run.setDeadline(300, 2700);
    if (const char* mv = getenv("C08_MAXV")) run.maxViolsPerKey = atoi(mv);   // debugging aid
    const bool th = run.thorough();
    const int vs = (int)(((run.seed % 3) + 3) % 3);
    run.rule = "E3: constraint sets = all singletons {i}, all unordered pairs {i<j} and all duplicated pairs {i,i} (redundant, consistent) over 20 canonical instances (one per constraint type incl. Custom mirrors; CustomRod/CustomConstantSpeed duplicate the built-in Rod/ConstantSpeed instances exactly) x all 2^k enable masks (disable() on the state) x COORD(2) x STATE(6 of consmodels.h, incl. violated and projected) x force pattern {none, gravity+mobility+body force+torque} x 3 host trees, value set seed%3. both instance tables (second table: other attachments/variants). thorough adds: all value sets, force pattern gravity-only, and all triples {i<j<k} x 8 masks on states {generic, projected-qu}. distinct = distinct tuple; all cases non-trivial (a forward-dynamics solve is performed).";
    run.assumptions = {"continuous values only from the fixed tables in engine/models.h and engine/consmodels.h", "5-body host trees", "c (inertial forces) taken from calcResidualForceIgnoringConstraints (checked by C02), G from calcG (checked by C07), applied forces read from the system's accumulated force arrays", "udoterr = 0 only demanded when the harness's long-double range test finds the acceleration equations consistent with a clear rank gap (dropped directions < 1e-12, kept > 1e-5); other cases counted", "states within 0.05 of a documented singular configuration skipped and counted", "tolerances scaled by the reciprocal of the smallest retained direction of G"};
    std::vector<int> valueSets = th ? std::vector<int>{0, 1, 2} : std::vector<int>{vs};

    // enumerate the sets once
    struct SetDef { std::vector<int> inst; };
    std::vector<SetDef> sets;
    for (int i = 0; i < NINST; ++i) sets.push_back({{i}});
    for (int i = 0; i < NINST; ++i) for (int j = i; j < NINST; ++j) sets.push_back({{i, j}});
    std::vector<int64_t> firstItem(sets.size() + 1, 0);
    for (size_t k = 0; k < sets.size(); ++k) firstItem[k + 1] = firstItem[k] + (1 << sets[k].inst.size());
    const int64_t nSetMask = firstItem.back();
    int64_t onlyLo = 0, onlyHi = INT64_MAX;
    if (const char* o = getenv("C08_ONLY")) { sscanf(o, "%ld:%ld", &onlyLo, &onlyHi); run.exhaustive = false; }

    auto runSection = [&](const std::string& name, const std::vector<SetDef>& S, const std::vector<int64_t>& first, const std::vector<int>& states, const std::vector<int>& forcePatterns, const std::vector<int>& lists) {
        verif::Odometer od;
        od.dim("state", (int64_t)states.size()); od.dim("force", (int64_t)forcePatterns.size()); od.dim("coord", 2); od.dim("host", 3); od.dim("setmask", first.back()); od.dim("list", (int64_t)lists.size()); od.dim("valueset", (int64_t)valueSets.size());
        run.parallel(name, od.size(), [&](int64_t idx) {
            if (idx < onlyLo || idx >= onlyHi) return;
            auto d = od.digits(idx);
            CaseId id; id.stateId = states[d[0]]; id.forcePattern = forcePatterns[d[1]]; id.euler = d[2]; id.host = d[3]; id.list = lists[d[5]]; id.valueSet = valueSets[d[6]];
            size_t k = std::upper_bound(first.begin(), first.end(), (int64_t)d[4]) - first.begin() - 1;
            id.inst = S[k].inst; id.mask = (int)(d[4] - first[k]);
            std::string desc = "host=" + std::to_string(id.host) + (id.euler ? " euler" : " quat") + " list=" + std::to_string(id.list) + " set={";
            for (size_t i = 0; i < id.inst.size(); ++i) desc += (i ? "," : "") + instanceSpec(id.inst[i], id.list).str();
            desc += "} mask=" + std::to_string(id.mask) + " state=" + cons::stateName(id.stateId) + " force=" + std::to_string(id.forcePattern) + " vs=" + std::to_string(id.valueSet) + " [" + od.describe(idx) + "]";
            try { checkCase(run, id, desc); }
            catch (const std::exception& e) { run.violation("exception/" + name, std::string("exception: ") + e.what() + " at " + desc, run.replayHeader() + desc + "\n"); }
            if (idx % 15013 == 0) run.sample(desc);
        });
    };
    runSection("sets12", sets, firstItem, {0, 1, 2, 3, 4, 5}, th ? std::vector<int>{0, 1, 2} : std::vector<int>{0, 1}, {0, 1});
    if (th) {
        std::vector<SetDef> triples; for (int i = 0; i < NINST; ++i) for (int j = i + 1; j < NINST; ++j) for (int k = j + 1; k < NINST; ++k) triples.push_back({{i, j, k}});
        std::vector<int64_t> f3(triples.size() + 1, 0); for (size_t k = 0; k < triples.size(); ++k) f3[k + 1] = f3[k] + 8;
        runSection("triples", triples, f3, {1, 4}, {1}, {0});
    }
    (void)nSetMask;
    return run.finish();
}
