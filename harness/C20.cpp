// C20 -- Error-controlled integrators deliver the requested accuracy.
// Engine E3 (configurations): closed-form ODE family x integrators x accuracy ladder x norm x report grid.
// Oracles (tolerance-based, calibrated on the unchanged tree, see notes/C20.md):
//   A  global error at every report <= K(method) * accuracy * (steps taken)   [no method-independent K*accuracy bound is sound];
//   B  tightening the accuracy by 100 never makes the error more than 2x worse (ladder);
//   C  with a fixed step the error falls at (at least) the documented order as h is halved;
//   D  interpolated report states are not worse than max(10 x the step states of the run, K * accuracy).
// Extension (sections ladder-ext, kicks, time-unit, order-forced; families calibrated separately, constants of the original rows unchanged):
//   forced     non-autonomous right-hand sides (forced oscillator below / near / above resonance in (q,u) and in z, forced pendulum,
//              Riccati scalar): A, A2 (err <= K2(family,method) * accuracy), B, D and
//   C'         the fixed-step order on a non-autonomous problem equals the order observed on the autonomous ones (a stage evaluated
//              at the wrong time costs orders);
//   decay/grow linear problems started at amplitude 1e-4, 1, 1e4 that shrink / grow by >= 4 orders of magnitude (u and z relative
//              scaling has to follow the state), in z, in (q,u), and in milliseconds with cyclic q (fastdecay/fastgrow);
//   kick       TimeStepper + ScheduledEventHandler velocity kicks (exact piecewise solution) or a passive handler, x constraint
//              tolerance {default, accuracy/10, 1e-3, 1e-1}: A, A2, B and
//   E          the constraint tolerance of a system without constraints does not cost accuracy;
//   T          the same dimensionless problem written in seconds and in milliseconds is integrated to comparable error.
// Findings on the unchanged tree: RungeKuttaFeldberg is documented as fifth order but propagates the fourth-order solution;
// Verlet multiplies its u and z error estimates by the step size h (a dimensional quantity), so in milliseconds it delivers errors
// 25..105x larger than in seconds at the same accuracy (oracle T).
#include "SimTKmath.h"
#include "odesys.h"
#include "verif.h"

#include <fcntl.h>
#include <memory>

using namespace SimTK;
typedef Integrator::SuccessfulStepStatus Status;

static const char* INTEG_NAMES[] = {"ExplicitEuler", "RungeKutta2", "RungeKutta3", "RungeKuttaFeldberg", "RungeKuttaMerson",
                                    "Verlet", "SemiExplicitEuler2", "CPodes", "CPodesAdams", "SemiExplicitEuler"};
static const int N_CONTROLLED = 9;            // SemiExplicitEuler (index 9) has no error control: fixed-step section only
static const int DOC_ORDER[] = {1, 2, 3, 5, 4, 2, 1, 0, 0, 1};     // getMethodMinOrder(); CPodes is variable order (not in section C)
static const double TEND = 2.0;

// ---------------------------------------------------------------- problems with closed-form (or harness-integrated) solutions
struct Y { std::vector<double> q, u, z; };
struct Problem {
    std::string name; int nq = 0, nz = 0; Y y0; bool stiff = false;
    odesys::RhsFn rhs;
    std::function<Y(double)> exact;
    // ---- extensions (families forced / decay / grow / kick); the defaults reproduce the original eight problems exactly
    double T = TEND;                  // end of the integration interval
    std::string family;               // "" = the original autonomous O(1) problems; otherwise the calibration family
    std::vector<int> group;           // scaling group of each component in the order (q0,u0,q1,u1,...,z0,...); empty = every component its own group
    std::function<std::vector<double>(double)> envelope;   // instead of group: analytic amplitude envelope of each component at time t (same order)
    double stateMax = 1;              // largest magnitude the state reaches during the run (only used when it is below 1)
    double gain = 1;                  // analytic amplification of an absolute error committed while |y| < 1 (growing problems started below 1)
    bool largeQ = false;              // q of magnitude 1e4: q is controlled absolutely, first-order methods need > 1e6 steps at 1e-6
    std::vector<double> kickTimes;    // scheduled event times (section kicks)
    double kick = 0;                  // velocity increment applied by the handler (0 with passive = true: handler leaves the state alone)
    bool passive = false;
};
static void matvec(const std::vector<double>& A, int n, const double* x, double* y) { for (int i = 0; i < n; ++i) { double s = 0; for (int j = 0; j < n; ++j) s += A[i * n + j] * x[j]; y[i] = s; } }
// linear system zdot = A z with A = P L P^T, P orthogonal, L real block diagonal: 1x1 blocks (lambda) and 2x2 blocks [[a,-b],[b,a]]
struct Block { int size; double a, b; };
static Problem linearProblem(const std::string& name, const std::vector<Block>& blocks, const std::vector<double>& w0, bool stiff, int seedRot) {
    int n = 0; for (auto& b : blocks) n += b.size;
    std::vector<double> P(n * n, 0.0);
    // orthogonal P: product of plane rotations with fixed angles
    for (int i = 0; i < n; ++i) P[i * n + i] = 1;
    const double angles[3] = {0.6 + 0.1 * seedRot, 0.4 + 0.07 * seedRot, 1.1 - 0.05 * seedRot};
    int k = 0;
    for (int i = 0; i < n; ++i) for (int j = i + 1; j < n; ++j, ++k) {
        const double c = std::cos(angles[k % 3]), s = std::sin(angles[k % 3]);
        for (int r = 0; r < n; ++r) { const double a = P[r * n + i], b = P[r * n + j]; P[r * n + i] = c * a - s * b; P[r * n + j] = s * a + c * b; }
    }
    std::vector<double> L(n * n, 0.0);
    { int o = 0; for (auto& b : blocks) { if (b.size == 1) L[o * n + o] = b.a; else { L[o * n + o] = b.a; L[o * n + o + 1] = -b.b; L[(o + 1) * n + o] = b.b; L[(o + 1) * n + o + 1] = b.a; } o += b.size; } }
    std::vector<double> A(n * n, 0.0), PL(n * n, 0.0);
    for (int i = 0; i < n; ++i) for (int j = 0; j < n; ++j) { double s = 0; for (int m = 0; m < n; ++m) s += P[i * n + m] * L[m * n + j]; PL[i * n + j] = s; }
    for (int i = 0; i < n; ++i) for (int j = 0; j < n; ++j) { double s = 0; for (int m = 0; m < n; ++m) s += PL[i * n + m] * P[j * n + m]; A[i * n + j] = s; }
    Problem p; p.name = name; p.nz = n; p.stiff = stiff;
    std::vector<double> z0(n); matvec(P, n, w0.data(), z0.data());
    p.y0.z = z0;
    p.rhs = [A, n](Real, const Vector&, const Vector&, const Vector& z, const Vector&, Vector&, Vector& zdot) {
        double x[8], y[8]; for (int i = 0; i < n; ++i) x[i] = z[i]; matvec(A, n, x, y); for (int i = 0; i < n; ++i) zdot[i] = y[i]; };
    p.exact = [P, blocks, w0, n](double t) {
        std::vector<double> w(n); int o = 0;
        for (auto& b : blocks) {
            if (b.size == 1) w[o] = std::exp(b.a * t) * w0[o];
            else { const double e = std::exp(b.a * t), c = std::cos(b.b * t), s = std::sin(b.b * t); w[o] = e * (c * w0[o] - s * w0[o + 1]); w[o + 1] = e * (s * w0[o] + c * w0[o + 1]); }
            o += b.size;
        }
        Y y; y.z.resize(n); matvec(P, n, w.data(), y.z.data()); return y; };
    return p;
}
// pendulum q'' = -sin q: reference by a harness-written RK4 table (h = 5e-5, error ~1e-16), evaluated with one more RK4 step
struct PendulumRef {
    double h; std::vector<double> q, u;
    static void f(double q, double u, double& dq, double& du) { dq = u; du = -std::sin(q); }
    static void rk4(double& q, double& u, double h) {
        double k1q, k1u, k2q, k2u, k3q, k3u, k4q, k4u;
        f(q, u, k1q, k1u); f(q + h / 2 * k1q, u + h / 2 * k1u, k2q, k2u); f(q + h / 2 * k2q, u + h / 2 * k2u, k3q, k3u); f(q + h * k3q, u + h * k3u, k4q, k4u);
        q += h / 6 * (k1q + 2 * k2q + 2 * k3q + k4q); u += h / 6 * (k1u + 2 * k2u + 2 * k3u + k4u);
    }
    PendulumRef(double q0, double u0) : h(5e-5) {
        int n = (int)std::ceil(TEND / h) + 2; q.resize(n); u.resize(n); q[0] = q0; u[0] = u0;
        for (int i = 1; i < n; ++i) { q[i] = q[i - 1]; u[i] = u[i - 1]; rk4(q[i], u[i], h); }
    }
    Y at(double t) const { int k = (int)std::floor(t / h); if (k < 0) k = 0; if (k > (int)q.size() - 1) k = (int)q.size() - 1; double qq = q[k], uu = u[k]; rk4(qq, uu, t - k * h); Y y; y.q = {qq}; y.u = {uu}; return y; }
};
static std::vector<Problem> makeProblems(int vs) {
    std::vector<Problem> P;
    P.push_back(linearProblem("lin2-real(-1,-10)", {{1, -1, 0}, {1, -10, 0}}, {1.0, 0.8}, false, vs));
    P.push_back(linearProblem("lin2-rot(+-i)", {{2, 0, 1}}, {1.0, 0.5}, false, vs));
    P.push_back(linearProblem("lin2-spiral(-.1+-2i)", {{2, -0.1, 2}}, {1.0, -0.5}, false, vs));
    P.push_back(linearProblem("lin3(-1,-.1+-2i)", {{1, -1, 0}, {2, -0.1, 2}}, {0.7, 1.0, 0.3}, false, vs));
    P.push_back(linearProblem("lin3-stiff(-50,-1,-10)", {{1, -50, 0}, {1, -1, 0}, {1, -10, 0}}, {1.0, 0.6, -0.8}, true, vs));
    {   // harmonic oscillator in (q,u)
        const double w = 2.0 + 0.25 * vs, q0 = 1.0, u0 = 0.5;
        Problem p; p.name = "harmonic(q,u)"; p.nq = 1; p.y0.q = {q0}; p.y0.u = {u0};
        p.rhs = [w](Real, const Vector& q, const Vector&, const Vector&, const Vector&, Vector& udot, Vector&) { udot[0] = -w * w * q[0]; };
        p.exact = [w, q0, u0](double t) { Y y; y.q = {q0 * std::cos(w * t) + u0 / w * std::sin(w * t)}; y.u = {-q0 * w * std::sin(w * t) + u0 * std::cos(w * t)}; return y; };
        P.push_back(p);
    }
    for (int big = 0; big < 2; ++big) {
        const double q0 = big ? 2.5 - 0.2 * vs : 0.1 + 0.05 * vs, u0 = 0;
        std::shared_ptr<PendulumRef> ref(new PendulumRef(q0, u0));
        Problem p; p.name = big ? "pendulum-large" : "pendulum-small"; p.nq = 1; p.y0.q = {q0}; p.y0.u = {u0};
        p.rhs = [](Real, const Vector& q, const Vector&, const Vector&, const Vector&, Vector& udot, Vector&) { udot[0] = -std::sin(q[0]); };
        p.exact = [ref](double t) { return ref->at(t); };
        P.push_back(p);
    }
    return P;
}


// ---------------------------------------------------------------- extension families (all with independent exact solutions)
// forced pendulum q'' = -sin q + F cos(w t): reference by a harness-written RK4 table for the NON-autonomous system
struct ForcedPendulumRef {
    double h, F, w; std::vector<double> q, u;
    void f(double t, double q, double u, double& dq, double& du) const { dq = u; du = -std::sin(q) + F * std::cos(w * t); }
    void rk4(double t, double& q, double& u, double h) const {
        double k1q, k1u, k2q, k2u, k3q, k3u, k4q, k4u;
        f(t, q, u, k1q, k1u); f(t + h / 2, q + h / 2 * k1q, u + h / 2 * k1u, k2q, k2u); f(t + h / 2, q + h / 2 * k2q, u + h / 2 * k2u, k3q, k3u); f(t + h, q + h * k3q, u + h * k3u, k4q, k4u);
        q += h / 6 * (k1q + 2 * k2q + 2 * k3q + k4q); u += h / 6 * (k1u + 2 * k2u + 2 * k3u + k4u);
    }
    ForcedPendulumRef(double q0, double u0, double F, double w) : h(5e-5), F(F), w(w) {
        int n = (int)std::ceil(TEND / h) + 2; q.resize(n); u.resize(n); q[0] = q0; u[0] = u0;
        for (int i = 1; i < n; ++i) { q[i] = q[i - 1]; u[i] = u[i - 1]; rk4((i - 1) * h, q[i], u[i], h); }
    }
    Y at(double t) const { int k = (int)std::floor(t / h); if (k < 0) k = 0; if (k > (int)q.size() - 1) k = (int)q.size() - 1; double qq = q[k], uu = u[k]; rk4(k * h, qq, uu, t - k * h); Y y; y.q = {qq}; y.u = {uu}; return y; }
};
static std::string g3(double x) { char b[32]; snprintf(b, sizeof b, "%g", x); return b; }
// (a) non-autonomous problems: the right-hand side reads the time, so a stage evaluated at the wrong time is visible
static std::vector<Problem> makeForcedProblems(int vs) {
    std::vector<Problem> P;
    const double w0 = 2.0 + 0.25 * vs, F = vs == 0 ? 8.0 : vs == 1 ? 6.0 : 10.0, x0 = 1.0, v0 = 0.5;
    const double ratios[3] = {0.4, 1.05, 3.0};          // below resonance, near resonance, above (x'' + w0^2 x = F cos(w t))
    for (int form = 0; form < 2; ++form) for (int r = 0; r < 3; ++r) {
        const double w = ratios[r] * w0, a = F / (w0 * w0 - w * w);
        Problem p; p.family = "forced"; p.name = std::string(form ? "forced-osc(z)" : "forced-osc(q,u)") + "[w/w0=" + g3(ratios[r]) + "]";
        auto x = [=](double t) { return (x0 - a) * std::cos(w0 * t) + v0 / w0 * std::sin(w0 * t) + a * std::cos(w * t); };
        auto v = [=](double t) { return -(x0 - a) * w0 * std::sin(w0 * t) + v0 * std::cos(w0 * t) - a * w * std::sin(w * t); };
        if (form == 0) {
            p.nq = 1; p.y0.q = {x0}; p.y0.u = {v0};
            p.rhs = [=](Real t, const Vector& q, const Vector&, const Vector&, const Vector&, Vector& udot, Vector&) { udot[0] = -w0 * w0 * q[0] + F * std::cos(w * t); };
            p.exact = [=](double t) { Y y; y.q = {x(t)}; y.u = {v(t)}; return y; };
        } else {
            p.nz = 2; p.y0.z = {x0, v0};
            p.rhs = [=](Real t, const Vector&, const Vector&, const Vector& z, const Vector&, Vector&, Vector& zdot) { zdot[0] = z[1]; zdot[1] = -w0 * w0 * z[0] + F * std::cos(w * t); };
            p.exact = [=](double t) { Y y; y.z = {x(t), v(t)}; return y; };
        }
        P.push_back(p);
    }
    {   // forced pendulum in (q,u): prescribed-time forcing in the harness's ODE system
        const double q0 = 0.8 - 0.1 * vs, u0 = 0.3, Fp = 1.5 + 0.25 * vs, wp = 2.5 - 0.2 * vs;
        std::shared_ptr<ForcedPendulumRef> ref(new ForcedPendulumRef(q0, u0, Fp, wp));
        Problem p; p.family = "forced"; p.name = "forced-pendulum(q,u)"; p.nq = 1; p.y0.q = {q0}; p.y0.u = {u0};
        p.rhs = [=](Real t, const Vector& q, const Vector&, const Vector&, const Vector&, Vector& udot, Vector&) { udot[0] = -std::sin(q[0]) + Fp * std::cos(wp * t); };
        p.exact = [ref](double t) { return ref->at(t); };
        P.push_back(p);
    }
    {   // Riccati-type scalar z' = -z^2 + 2/(t+1)^2: with s = t+1, z = 2/s + 1/(C s^4 - s/3)  (z = 2/s + 1/v, v' = 4v/s + 1)
        const double C = vs == 0 ? 1.0 : vs == 1 ? 0.8 : 1.5;
        Problem p; p.family = "forced"; p.name = "riccati(z)"; p.nz = 1; p.y0.z = {2.0 + 1.0 / (C - 1.0 / 3.0)};
        p.rhs = [](Real t, const Vector&, const Vector&, const Vector& z, const Vector&, Vector&, Vector& zdot) { const double s = t + 1; zdot[0] = -z[0] * z[0] + 2 / (s * s); };
        p.exact = [C](double t) { const double s = t + 1; Y y; y.z = {2 / s + 1 / (C * s * s * s * s - s / 3)}; return y; };
        P.push_back(p);
    }
    return P;
}
// The spiral in two generalized speeds (u0,u1) with cyclic coordinates q_i = integral of u_i, written in the time unit ts
// (1 = seconds, 1e-3 = the same motion in milliseconds).  udot does not depend on q, so an error of q (controlled absolutely)
// is not fed back into u; in milliseconds q = u/|lambda| stays below 1 until u has decayed and the (relative) control of u
// decides the step size.  The u components of the two time units are the same dimensionless problem.
static Problem cyclicSpiral(int vs, int dir, double A, double ts) {
    const double a = 4.8 + 0.2 * vs, w = 3.0 + 0.5 * vs, phi = 0.7 + 0.2 * vs, sg = dir ? +1.0 : -1.0;
    const double af = a / ts, wf = w / ts, l2 = af * af + wf * wf, lam = std::sqrt(l2);
    Problem p; p.family = std::string(ts < 1 ? "fast" : "") + (dir ? "grow" : "decay");
    p.name = std::string(ts < 1 ? "fast-" : "") + "cyclic-spiral(q,u)-" + (dir ? "grow" : "decay") + "[A=" + g3(A) + "]"; p.nq = 2; p.T = TEND * ts;
    if (dir && A < 1) p.gain = std::min(std::exp(a * TEND), 1 / A);
    p.stateMax = dir ? A * std::exp(a * TEND) : A;
    p.largeQ = A * (dir ? std::exp(a * TEND) : 1.0) / lam > 100;
    auto u0 = [=](double t) { return A * std::exp(sg * af * t) * std::cos(wf * t + phi); };
    auto u1 = [=](double t) { return A * std::exp(sg * af * t) * std::sin(wf * t + phi); };
    auto q0 = [=](double t) { return A * std::exp(sg * af * t) * (sg * af * std::cos(wf * t + phi) + wf * std::sin(wf * t + phi)) / l2; };   // antiderivatives
    auto q1 = [=](double t) { return A * std::exp(sg * af * t) * (sg * af * std::sin(wf * t + phi) - wf * std::cos(wf * t + phi)) / l2; };
    p.y0.q = {q0(0), q1(0)}; p.y0.u = {u0(0), u1(0)};
    p.rhs = [=](Real, const Vector&, const Vector& uu, const Vector&, const Vector&, Vector& udot, Vector&) { udot[0] = sg * af * uu[0] - wf * uu[1]; udot[1] = wf * uu[0] + sg * af * uu[1]; };
    p.exact = [=](double t) { Y y; y.q = {q0(t), q1(t)}; y.u = {u0(t), u1(t)}; return y; };
    p.envelope = [=](double t) { const double e = A * std::exp(sg * af * t); return std::vector<double>{e / lam, e, e / lam, e}; };
    return p;
}
// The spiral in z (no q, no u) in the time unit ts: exactly the same dimensionless problem for every ts (section time-unit).
static Problem zSpiral(int vs, int dir, double A, double ts) {
    const double a = (4.8 + 0.2 * vs) / ts, w = (3.0 + 0.5 * vs) / ts, phi = 0.7 + 0.2 * vs, sg = dir ? +1.0 : -1.0;
    Problem p; p.family = dir ? "grow" : "decay"; p.T = TEND * ts;
    p.name = std::string(ts < 1 ? "fast-" : "") + "spiral(z)-" + (dir ? "grow" : "decay") + "[A=" + g3(A) + "]"; p.nz = 2; p.group = {0, 0};
    if (dir && A < 1) p.gain = std::min(std::exp(a * p.T), 1 / A);
    p.stateMax = dir ? A * std::exp(a * p.T) : A;
    p.y0.z = {A * std::cos(phi), A * std::sin(phi)};
    p.rhs = [=](Real, const Vector&, const Vector&, const Vector& z, const Vector&, Vector&, Vector& zdot) { zdot[0] = sg * a * z[0] - w * z[1]; zdot[1] = w * z[0] + sg * a * z[1]; };
    p.exact = [=](double t) { const double e = A * std::exp(sg * a * t); Y y; y.z = {e * std::cos(w * t + phi), e * std::sin(w * t + phi)}; return y; };
    return p;
}
// (b) state-scale families: linear problems started at amplitude A in {1e-4, 1, 1e4} whose state shrinks (or grows) by
// >= 4 orders of magnitude during the run, so that the integrators' relative scaling of u and z has to follow the state
static std::vector<Problem> makeScaleProblems(int vs) {
    std::vector<Problem> P;
    const double AMP[3] = {1e-4, 1.0, 1e4};
    const double k1 = 4.8 + 0.2 * vs, k2 = 6.0 + 0.2 * vs, a = 4.8 + 0.2 * vs, w = 3.0 + 0.5 * vs, phi = 0.7 + 0.2 * vs;
    for (int dir = 0; dir < 2; ++dir) for (int ai = 0; ai < 3; ++ai) for (int kind = 0; kind < 4; ++kind) {
        const double A = AMP[ai], sg = dir ? +1.0 : -1.0;
        // (q,u) growing from 1e4 to 1e8 is not constructed: q is controlled absolutely (documented: no relative weighting of q),
        // and accuracy 1e-8 of a value of 1e8 is below double precision.  The z forms cover growth from 1e4.
        if (kind >= 2 && dir && ai == 2) continue;
        Problem p; p.family = dir ? "grow" : "decay";
        const std::string tag = std::string(dir ? "grow" : "decay") + "[A=" + g3(A) + "]";
        // an absolute error committed while |y| < 1 is amplified by e^{k(T-t)}; judged relative to max(1,|y(T)|) that is min(e^{kT}, 1/A)
        if (dir && A < 1) p.gain = std::min(std::exp(std::min(k1, a) * TEND), 1 / A);
        p.stateMax = dir ? 0.7 * A * std::exp(std::min(k1, a) * TEND) : A;
        if (kind == 0) {          // two uncoupled rates in z (each component its own scale)
            p.name = "rates(z)-" + tag; p.nz = 2; const double c0 = A, c1 = -0.7 * A;
            p.y0.z = {c0, c1};
            p.rhs = [=](Real, const Vector&, const Vector&, const Vector& z, const Vector&, Vector&, Vector& zdot) { zdot[0] = sg * k1 * z[0]; zdot[1] = sg * k2 * z[1]; };
            p.exact = [=](double t) { Y y; y.z = {c0 * std::exp(sg * k1 * t), c1 * std::exp(sg * k2 * t)}; return y; };
        } else if (kind == 1) {   // spiral in z (one rotating pair: one scale group)
            P.push_back(zSpiral(vs, dir, A, 1.0)); continue;
        } else if (kind == 3) {   // cyclic-coordinate spiral in milliseconds: families fastdecay / fastgrow (calibrated separately)
            P.push_back(cyclicSpiral(vs, dir, A, 1e-3)); continue;
        } else {                  // the same spiral as a second-order system in (q,u): q of the size of u, its absolute control dominates
            p.name = "spiral(q,u)-" + tag; p.nq = 1; p.group = {0, 0}; p.largeQ = A * (dir ? std::exp(a * TEND) : 1.0) > 100;
            auto q = [=](double t) { return A * std::exp(sg * a * t) * std::cos(w * t + phi); };
            auto u = [=](double t) { return A * std::exp(sg * a * t) * (sg * a * std::cos(w * t + phi) - w * std::sin(w * t + phi)); };
            p.y0.q = {q(0)}; p.y0.u = {u(0)};
            p.rhs = [=](Real, const Vector& qq, const Vector& uu, const Vector&, const Vector&, Vector& udot, Vector&) { udot[0] = 2 * sg * a * uu[0] - (a * a + w * w) * qq[0]; };
            p.exact = [=](double t) { Y y; y.q = {q(t)}; y.u = {u(t)}; return y; };
        }
        P.push_back(p);
    }
    return P;
}
// (c) harmonic oscillator with scheduled velocity kicks (exact piecewise solution); the handler either changes the state
// (TimeStepper then re-initialises the integrator) or is passive (the step is only cut at the event time)
static std::vector<Problem> makeKickProblems(int vs) {
    std::vector<Problem> P;
    const double w = 2.0 + 0.25 * vs, x0 = 1.0, v0 = 0.5, dv = 0.25 + 0.05 * vs, period = vs == 0 ? 0.45 : vs == 1 ? 0.43 : 0.55;
    std::vector<double> times; for (int k = 1; k * period < TEND - 1e-9; ++k) times.push_back(k * period);   // never on a report time (see reportGrid)
    for (int form = 0; form < 2; ++form) for (int passive = 0; passive < 2; ++passive) {
        Problem p; p.family = "kick"; p.name = std::string(form ? "kicked-rotation(z)" : "kicked-harmonic(q,u)") + (passive ? "[passive handler]" : "[kicks]");
        p.kickTimes = times; p.kick = passive ? 0.0 : dv; p.passive = passive != 0;
        // piecewise exact solution; form 1 is the rotation z0' = w z1, z1' = -w z0 (z0 = x, z1 = v/w), kick on z1
        const double kickV = passive ? 0.0 : (form ? dv * w : dv);      // in units of velocity v
        auto xv = [=](double t, double& x, double& v) {
            x = x0; v = v0; double tk = 0;
            for (double tn : times) { if (tn > t) break; const double c = std::cos(w * (tn - tk)), s = std::sin(w * (tn - tk)); const double xn = x * c + v / w * s, vn = -x * w * s + v * c; x = xn; v = vn + kickV; tk = tn; }
            const double c = std::cos(w * (t - tk)), s = std::sin(w * (t - tk)); const double xn = x * c + v / w * s, vn = -x * w * s + v * c; x = xn; v = vn;
        };
        if (form == 0) {
            p.nq = 1; p.y0.q = {x0}; p.y0.u = {v0};
            p.rhs = [w](Real, const Vector& q, const Vector&, const Vector&, const Vector&, Vector& udot, Vector&) { udot[0] = -w * w * q[0]; };
            p.exact = [=](double t) { double x, v; xv(t, x, v); Y y; y.q = {x}; y.u = {v}; return y; };
        } else {
            p.nz = 2; p.y0.z = {x0, v0 / w};
            p.rhs = [w](Real, const Vector&, const Vector&, const Vector& z, const Vector&, Vector&, Vector& zdot) { zdot[0] = w * z[1]; zdot[1] = -w * z[0]; };
            p.exact = [=](double t) { double x, v; xv(t, x, v); Y y; y.z = {x, v / w}; return y; };
        }
        P.push_back(p);
    }
    return P;
}
class KickHandler : public ScheduledEventHandler {
public:
    KickHandler(const odesys::OdeSystem& sys, const Problem& p) : sys(sys), times(p.kickTimes), kick(p.kick), passive(p.passive), onZ(p.nz > 0) {}
    Real getNextEventTime(const State& s, bool includeCurrent) const override {
        for (double t : times) if (s.getTime() < t || (includeCurrent && s.getTime() == t)) return t;
        return Infinity;
    }
    void handleEvent(State& s, Real, bool&) const override {
        if (passive) return;                                  // no state access at all: nothing is invalidated
        if (onZ) s.updZ(sys.subsys())[1] += kick; else sys.setU(s, 0, sys.u(s, 0) + kick);
    }
    const odesys::OdeSystem& sys; std::vector<double> times; double kick; bool passive, onZ;
};

// ---------------------------------------------------------------- running one configuration
struct Fixture {
    std::unique_ptr<odesys::OdeSystem> sys; State init; const Problem* prob;
    Fixture(const Problem& p) : prob(&p) {
        sys.reset(new odesys::OdeSystem(p.nq, p.nz, p.rhs, 0));
        if (!p.kickTimes.empty()) sys->addEventHandler(new KickHandler(*sys, p));
        Vector q(p.nq), u(p.nq), z(p.nz);
        for (int i = 0; i < p.nq; ++i) { q[i] = p.y0.q[i]; u[i] = p.y0.u[i]; }
        for (int i = 0; i < p.nz; ++i) z[i] = p.y0.z[i];
        init = sys->makeState(0, q, u, z);
    }
    // scaled error of a state against the exact solution: absolute for |y|<=1, relative above (the integrators' own scaling rule)
    void error(const State& s, double& rms, double& inf) const {
        Y e = prob->exact(s.getTime());
        double ss = 0; inf = 0; int n = 0;
        if (!prob->group.empty() || prob->envelope) { errorGrouped(s, e, rms, inf); return; }
        auto acc = [&](double got, double want) { double d = std::abs(got - want) / std::max(1.0, std::abs(want)); ss += d * d; inf = std::max(inf, d); n++; };
        for (int i = 0; i < prob->nq; ++i) { acc(sys->q(s, i), e.q[i]); acc(sys->u(s, i), e.u[i]); }
        for (int i = 0; i < prob->nz; ++i) acc(sys->z(s, i), e.z[i]);
        rms = std::sqrt(ss / std::max(1, n));
    }
    // the same rule with the scale taken over a group of coupled components: |got - want| / max(1, max_{j in group} |want_j|).
    // (A rotating pair (A cos, A sin) is accurate relative to A; the component that happens to cross zero cannot be accurate
    // relative to itself, and the documentation promises only the local error in the weighted norm.)  Weaker than per component.
    void errorGrouped(const State& s, const Y& e, double& rms, double& inf) const {
        std::vector<double> got, want;
        for (int i = 0; i < prob->nq; ++i) { got.push_back(sys->q(s, i)); want.push_back(e.q[i]); got.push_back(sys->u(s, i)); want.push_back(e.u[i]); }
        for (int i = 0; i < prob->nz; ++i) { got.push_back(sys->z(s, i)); want.push_back(e.z[i]); }
        const int n = (int)got.size(); double ss = 0; inf = 0;
        std::vector<double> env; if (prob->envelope) env = prob->envelope(s.getTime());
        for (int i = 0; i < n; ++i) {
            double scale = 1;
            if (prob->envelope) scale = std::max(scale, env[i]);      // an oscillating component is accurate relative to its amplitude, not to itself
            else for (int j = 0; j < n; ++j) if (prob->group[j] == prob->group[i]) scale = std::max(scale, std::abs(want[j]));
            const double d = std::abs(got[i] - want[i]) / scale; ss += d * d; inf = std::max(inf, d);
        }
        rms = std::sqrt(ss / std::max(1, n));
    }
};
static Integrator* makeIntegrator(int integ, const System& sys, double hFixed) {
    switch (integ) {
        case 0: return new ExplicitEulerIntegrator(sys);
        case 1: return new RungeKutta2Integrator(sys);
        case 2: return new RungeKutta3Integrator(sys);
        case 3: return new RungeKuttaFeldbergIntegrator(sys);
        case 4: return new RungeKuttaMersonIntegrator(sys);
        case 5: return new VerletIntegrator(sys);
        case 6: return new SemiExplicitEuler2Integrator(sys);
        case 7: return new CPodesIntegrator(sys, CPodes::BDF);
        case 8: return new CPodesIntegrator(sys, CPodes::Adams);
        default: return new SemiExplicitEulerIntegrator(sys, hFixed > 0 ? hFixed : 0.01);
    }
}
static std::vector<double> reportGrid(int grid, double T = TEND) {
    std::vector<double> g;
    if (grid == 1) for (int k = 1; k < 10; ++k) g.push_back(T * k / 10.0);
    if (grid == 2) { const double f[] = {0.013, 0.09, 0.1, 0.37, 0.371, 0.8, 0.93}; for (double x : f) g.push_back(T * x); }
    g.push_back(T);
    return g;
}
struct RunResult { double errRep = 0, errStep = 0, errInterp = 0; int steps = 0, nInterp = 0; bool ok = true; std::string what; };
// norm: 0 RMS, 1 infinity.  everyStep: also return (and measure) at every internal step.
static RunResult integrate(const Fixture& fx, int integ, double accuracy, int norm, int grid, double hFixed, bool everyStep) {
    RunResult R;
    std::unique_ptr<Integrator> I(makeIntegrator(integ, *fx.sys, hFixed));
    if (accuracy > 0) I->setAccuracy(accuracy);
    if (norm) I->setUseInfinityNorm(true);
    if (hFixed > 0 && integ != 9) I->setFixedStepSize(hFixed);
    if (everyStep) I->setReturnEveryInternalStep(true);
    I->setFinalTime(fx.prob->T);
    try {
        I->initialize(fx.init);
        std::vector<double> g = reportGrid(grid, fx.prob->T); size_t gi = 0; int guard = 0;
        while (!I->isSimulationOver() && guard++ < 50000000) {
            const double r = gi < g.size() ? g[gi] : (double)Infinity;
            Status st = I->stepTo(r);
            if (st == Integrator::EndOfSimulation) break;
            if (st == Integrator::StartOfContinuousInterval) continue;
            double rms, inf; fx.error(I->getState(), rms, inf);
            const double e = norm ? inf : rms;
            if (st == Integrator::ReachedReportTime && I->getTime() >= r) {
                gi++;
                if (I->isStateInterpolated()) { R.errInterp = std::max(R.errInterp, e); R.nInterp++; }
                R.errRep = std::max(R.errRep, e);
            } else if (st == Integrator::TimeHasAdvanced) R.errStep = std::max(R.errStep, e);
        }
        R.steps = I->getNumStepsTaken();
    } catch (const std::exception& e) { R.ok = false; R.what = e.what(); }
    return R;
}

// The same through a TimeStepper (event handlers are called, the integrator is re-initialised after a state change).
// consTolMode: 0 constraint tolerance left alone (default accuracy/10), 1 setConstraintTolerance(accuracy/10), 2 1e-3, 3 1e-1.
// The systems have no constraints, so the value is irrelevant to the mathematics.
static double consTolOf(int mode, double accuracy) { return mode == 1 ? accuracy / 10 : mode == 2 ? 1e-3 : 1e-1; }
static RunResult integrateTS(const Fixture& fx, int integ, double accuracy, int norm, int grid, int consTolMode, uint64_t* stateHash = nullptr) {
    RunResult R;
    std::unique_ptr<Integrator> I(makeIntegrator(integ, *fx.sys, -1));
    I->setAccuracy(accuracy);
    if (consTolMode) I->setConstraintTolerance(consTolOf(consTolMode, accuracy));
    if (norm) I->setUseInfinityNorm(true);
    try {
        TimeStepper ts(*fx.sys, *I);
        ts.initialize(fx.init);
        uint64_t h = 1469598103934665603ull;
        for (double r : reportGrid(grid, fx.prob->T)) {
            Status st = ts.stepTo(r);
            if (st == Integrator::EndOfSimulation) break;
            if (st != Integrator::ReachedReportTime || ts.getTime() != r) { R.ok = false; R.what = "TimeStepper::stepTo(" + verif::fmtd(r) + ") returned " + std::string(Integrator::getSuccessfulStepStatusString(st).c_str()) + " at t=" + verif::fmtd(ts.getTime()); return R; }
            double rms, inf; fx.error(ts.getState(), rms, inf);
            R.errRep = std::max(R.errRep, norm ? inf : rms);
            const Vector& y = ts.getState().getY(); for (int i = 0; i < y.size(); ++i) h = verif::hashPod(y[i], h);
        }
        R.steps = I->getNumStepsTaken();
        if (stateHash) *stateHash = h;
    } catch (const std::exception& e) { R.ok = false; R.what = e.what(); }
    return R;
}

static void quietWorker(verif::Run& run) {
    static bool done = false;
    if (done || run.replaying()) return;
    done = true;
    int fd = open("/dev/null", O_WRONLY);
    if (fd >= 0) { dup2(fd, 2); close(fd); }
}

// K(method) for oracle A, err <= K * accuracy * steps.  Measured worst values of err/(accuracy*steps) on the unchanged
// tree over all three value sets, both tiers (notes/C20.md): ExplicitEuler 1.34, RK2 0.060, RK3 0.068, RKFeldberg 4.19,
// RKMerson 1.03, Verlet 0.33, SemiExplicitEuler2 0.85, CPodes(BDF) 1.14, CPodes(Adams) 0.49.  Bounds are ~100x above.
static double boundK(int integ) {
    static const double K[N_CONTROLLED] = {150, 6, 7, 450, 110, 35, 90, 120, 50};
    return K[integ];
}
// Extension families: K(family, method) for err <= K * accuracy * steps * gain and K2(family, method) for err <= K2 * accuracy * gain,
// both >= 100x the worst value measured on the unchanged tree over all value sets, both tiers (table in notes/C20.md).
static const char* FAMILIES[] = {"forced", "decay", "grow", "kick", "fastdecay", "fastgrow"};
static int familyIndex(const std::string& f) { for (int i = 0; i < 6; ++i) if (f == FAMILIES[i]) return i; return -1; }
static const double UNCLAIMED = 1e300;      // row measured only: Verlet in milliseconds (its error control depends on the time unit, oracle T)
static double boundKext(const std::string& fam, int integ) {
    static const double K[6][N_CONTROLLED] = {  // ExplicitEuler RK2 RK3 RKFeldberg RKMerson Verlet SemiExplicitEuler2 CPodes CPodesAdams
        /* forced   : worst 1.33 .0677 .077 5.83 .734 .789 1.25 .481 .318     */ {140,   7,   8, 600,  75, 80, 130,  50, 32},
        /* decay    : worst .611 .0295 .0621 1.46 .763 .567 .613 2.5 .381     */ { 62,   3, 6.5, 150,  80, 60,  62, 250, 40},
        /* grow     : worst .935 .0373 .0656 .806 .978 .914 .937 2.05 .512    */ { 95,   4,   7,  85, 100, 95,  95, 210, 52},
        /* kick     : worst .874 .0463 .0314 .771 .634 .306 .918 .328 .326    */ { 90,   5, 3.2,  80,  65, 31,  95,  33, 33},
        /* fastdecay: worst .252 .011 .016 1.23 .792 (80.5) .25 .395 .135     */ { 26, 1.1, 1.6, 125,  80, UNCLAIMED, 25, 40, 14},
        /* fastgrow : worst .259 .00746 .0151 .546 .613 (27.5) .258 .712 .214 */ { 26, 0.8, 1.6,  55,  62, UNCLAIMED, 26, 72, 22}};
    return K[familyIndex(fam)][integ];
}
static double boundK2ext(const std::string& fam, int integ) {
    static const double K[6][N_CONTROLLED] = {
        /* forced   : worst 6.51e3 3.94 1.54 405 16.1 1.38e3 4.69e3 59.8 21    */ {6.6e5, 400, 160, 4.1e4, 1700, 1.4e5, 4.7e5, 6000, 2100},
        /* decay    : worst 5.51e3 2.65 1.99 113 81.7 1.46e3 3.9e3 375 34.5    */ {5.6e5, 270, 200, 1.2e4, 8200, 1.5e5, 3.9e5, 3.8e4, 3500},
        /* grow     : worst 8.73e3 4.66 2.88 109 135 2.27e3 6.18e3 501 68.1    */ {8.8e5, 470, 290, 1.1e4, 1.4e4, 2.3e5, 6.2e5, 5.1e4, 6900},
        /* kick     : worst 3.22e3 2.18 .965 38.2 37.6 464 2.25e3 39.3 25.4    */ {3.3e5, 220, 100, 3900, 3800, 4.7e4, 2.3e5, 4000, 2600},
        /* fastdecay: worst 4.19e3 1.41 .864 76.9 48.8 (3.6e4) 3e3 62.8 17.9   */ {4.2e5, 150,  90, 7700, 4900, UNCLAIMED, 3e5, 6300, 1800},
        /* fastgrow : worst 4.97e3 1.58 1.09 78.7 89.6 (4.71e4) 3.35e3 115 25  */ {5e5, 160, 110, 7900, 9000, UNCLAIMED, 3.4e5, 1.2e4, 2500}};
    return K[familyIndex(fam)][integ];
}
// Oracle D on the extension families.  The cubic Hermite interpolant's error is O(h^4 d4y/dt4) whatever the accuracy, and
// RungeKuttaFeldberg takes the longest steps: on the forced oscillator at 3 w0 its interpolated reports are 31x worse than its
// step states (1.26x the allowance of the original problems).  setAllowInterpolation documents that interpolated states "may be
// less accurate", so the allowance is widened to >= 100x the measured worst (RKFeldberg 1.26, all others <= 0.163).
static double boundDext(int integ) { return integ == 3 ? 150.0 : 20.0; }
static const double FLOOR = 2e-11;      // below this the error is roundoff / CPODES' own floor, not the controller
// Nothing is promised when the absolute tolerance (amplified by the growth of the problem) exceeds 5% of the largest magnitude the
// state has during the whole run (amplitude 1e-4 with accuracy 1e-2, 1e-4): the integrators then take unstable steps that are
// "accurate enough", and the errors are erratic.  Such runs are not judged (counted unspecified:...).
static bool vacuousTolerance(const Problem& p, double accuracy) { return accuracy * p.gain > 0.05 * std::min(1.0, p.stateMax); }

int main(int argc, char** argv) {
    verif::Run run("C20", argc, argv);
    run.setDeadline(1200, 3600);   // safety net only: quick needs ~20-40 s on 16 idle cores (about 320 CPU-s), see notes
    const bool thorough = run.thorough();
    std::vector<int> vss; if (thorough) vss = {0, 1, 2}; else vss = {(int)(((run.seed % 3) + 3) % 3)};
    const double ACC[4] = {1e-2, 1e-4, 1e-6, 1e-8};
    run.rule = "a case = (value set, problem, integrator, norm, report grid) with the whole accuracy ladder {1e-2,1e-4,1e-6,1e-8} (sections ladder, ladder-ext: oracles A,B,D), "
               "(value set, kicked problem {(q,u), z} x {state-changing, passive handler}, integrator, norm) with constraint tolerance {default, accuracy/10, 1e-3, 1e-1} x the accuracy ladder through a TimeStepper (section kicks: A,B,E), "
               "(value set, decay/grow, amplitude, integrator, norm) with the z spiral in seconds and in milliseconds x the accuracy ladder (section time-unit: T), or (value set, problem, method) with the "
               "fixed-step ladder h0..h0/8 (sections order, order-forced: C, C'); every case integrates to the end of its interval and compares every report with the closed-form solution; distinct = distinct tuple, all non-trivial";
    run.assumptions = {"global error is measured with the integrators' own scaling rule (absolute below 1, relative above) in the norm the controller uses; for rotating pairs / oscillating components the scale is the amplitude of the pair (weaker than per component)",
                       "K(method), K(family,method), K2(family,method) and the widened interpolation allowance of the extension families are calibrated on the unchanged tree (>= 100x the measured worst, notes/C20.md); they are not derived from theory",
                       "the factors 2 (oracles B, E) and 10 (oracle T) are the property's 'not substantially worse', not calibrated numbers (worst measured: B 1.45, E 1.0, T 1.81 except Verlet)",
                       "growing problems started below 1: the analytic amplification min(e^{kT}, 1/A) of an absolute error is divided out; runs whose (amplified) absolute tolerance exceeds 5% of the largest magnitude of the state are not judged (counted)",
                       "rows (Verlet, fastdecay/fastgrow) of oracle A are measured only: Verlet's error control depends on the time unit (finding, judged by T)",
                       "(q,u) growth from 1e4 to 1e8 is not constructed: q is controlled absolutely and 1e-8 of 1e8 is below double precision",
                       "pendulum references: harness-written RK4 tables with h=5e-5 (error ~1e-16), the forced one for the non-autonomous system",
                       "VERIF_SEED selects one of three parameter sets (rotation angles, frequencies, amplitudes, forcing, kick period) in the quick tier; thorough runs all"};

    struct Case { int vs, prob, integ, norm, grid; };
    std::vector<Case> cases; int nProb = 8;
    for (int vs : vss) for (int prob = 0; prob < nProb; ++prob) for (int integ = 0; integ < N_CONTROLLED; ++integ) for (int norm = 0; norm < 2; ++norm) for (int grid = 0; grid < 3; ++grid) {
        if (!thorough && grid == 1) continue;
        cases.push_back({vs, prob, integ, norm, grid});
    }
    auto caseStr = [&](const Case& c, const std::vector<Problem>& P) {
        return "vs=" + std::to_string(c.vs) + " problem=" + P[c.prob].name + " integ=" + INTEG_NAMES[c.integ] + " norm=" + (c.norm ? "inf" : "rms") + " grid=" + std::to_string(c.grid);
    };
    std::map<int, std::vector<Problem>> problemSets;
    for (int vs : vss) problemSets[vs] = makeProblems(vs);

    // ---- sections A, B, D
    run.parallel("ladder", (int64_t)cases.size(), [&](int64_t i) {
        quietWorker(run);
        const Case& c = cases[i]; const std::vector<Problem>& P = problemSets[c.vs]; const Problem& prob = P[c.prob];
        Fixture fx(prob);
        const std::string name = INTEG_NAMES[c.integ];
        double err[4]; bool ok[4];
        std::string line = caseStr(c, P) + " ->";
        for (int a = 0; a < 4; ++a) {
            // explicit methods on the stiff problem at 1e-8 with first/second order need > 1e6 steps: skipped and counted
            if ((c.integ == 0 || c.integ == 6) && ACC[a] < 1e-7) { ok[a] = false; err[a] = NaN; run.count("skipped_first_order_method_at_1e-8"); continue; }
            RunResult R = integrate(fx, c.integ, ACC[a], c.norm, c.grid, -1, false);
            run.evaluation(verif::hashStr(caseStr(c, P) + " acc=" + std::to_string(a)), true);
            ok[a] = R.ok; err[a] = R.errRep;
            char b[120]; snprintf(b, sizeof b, " acc=%g: err=%.3g (%d steps, %d interpolated)", ACC[a], R.errRep, R.steps, R.nInterp); line += b;
            if (!R.ok) { run.expect(false, name + "/integration-failed", [&] { return caseStr(c, P) + " accuracy " + verif::fmtd(ACC[a]) + ": " + R.what.substr(0, 300); }, [&] { return run.replayHeader(); }); continue; }
            run.outcome(verif::hashPod(R.steps, verif::hashStr(name)));
            // A: global error.  A fixed multiple of the accuracy is not a sound bound for low-order methods (the local
            // error per step is what is controlled; the global error is at most the sum over the steps for these
            // non-expansive problems), so the judged quantity is err / (accuracy * steps); err/accuracy is recorded.
            run.residual("A:global-error-over-(accuracy*steps)/" + name, R.errRep / (ACC[a] * std::max(1, R.steps)), boundK(c.integ),
                         [&] { return caseStr(c, P) + " accuracy " + verif::fmtd(ACC[a]) + " error " + verif::fmtd(R.errRep) + " steps " + std::to_string(R.steps); }, [&] { return run.replayHeader() + line + "\n"; });
            run.residual("A:global-error-over-accuracy(measured-only)/" + name, R.errRep / ACC[a], 1e300,
                         [&] { return caseStr(c, P) + " accuracy " + verif::fmtd(ACC[a]) + " error " + verif::fmtd(R.errRep) + " steps " + std::to_string(R.steps); });
        }
        // B: the ladder
        for (int a = 0; a + 1 < 4; ++a) {
            if (!ok[a] || !ok[a + 1]) continue;
            // "never substantially worse": compared with the looser run's error, or with the tighter accuracy itself when
            // the looser run was already far inside its tolerance (stability-limited steps on the stiff problem)
            const double ratio = err[a + 1] / std::max(std::max(err[a], ACC[a + 1]), FLOOR);
            run.residual("B:error-growth-when-accuracy-tightened-100x/" + name, ratio, 2.0,
                         [&] { return caseStr(c, P) + " accuracy " + verif::fmtd(ACC[a]) + " -> " + verif::fmtd(ACC[a + 1]) + ": error " + verif::fmtd(err[a]) + " -> " + verif::fmtd(err[a + 1]); },
                         [&] { return run.replayHeader() + line + "\n"; });
        }
        // D: interpolated reports against the step states of the same run (irregular grid, return every step)
        if (c.grid == 2) {
            for (int a = 0; a < 3; ++a) {
                if ((c.integ == 0 || c.integ == 6) && ACC[a] < 1e-5) continue;
                RunResult R = integrate(fx, c.integ, ACC[a], c.norm, c.grid, -1, true);
                run.evaluation(verif::hashStr(caseStr(c, P) + " every-step acc=" + std::to_string(a)), true);
                if (!R.ok) { run.expect(false, name + "/integration-failed", [&] { return caseStr(c, P) + " (every step) accuracy " + verif::fmtd(ACC[a]) + ": " + R.what.substr(0, 300); }, [&] { return run.replayHeader(); }); continue; }
                if (R.nInterp == 0) { run.count("D_no_interpolated_report_in_run"); continue; }
                const double allow = std::max(10 * R.errStep, 100.0 * ACC[a]);
                run.residual("D:interpolated-report-error-over-allowance/" + name, R.errInterp / allow, 1.0,
                             [&] { return caseStr(c, P) + " accuracy " + verif::fmtd(ACC[a]) + ": interpolated " + verif::fmtd(R.errInterp) + " vs step states " + verif::fmtd(R.errStep); },
                             [&] { return run.replayHeader(); });
                run.residual("D:interpolated-over-step-error(measured-only)/" + name, R.errInterp / std::max(R.errStep, FLOOR), 1e300, [&] { return caseStr(c, P) + " accuracy " + verif::fmtd(ACC[a]); });
            }
        }
        if (i % 37 == 0) run.sample(line);
        if (run.verbose) printf("%s\n", line.c_str());
    });

    // ---- section C: fixed step, observed order
    struct OCase { int vs, prob, integ; };
    std::vector<OCase> ocases;
    const int orderProblems[3] = {2, 5, 7};      // spiral, harmonic, large pendulum: smooth and not stiff
    const int fixedMethods[8] = {0, 1, 2, 3, 4, 5, 6, 9};
    for (int vs : vss) for (int pi = 0; pi < 3; ++pi) for (int m = 0; m < 8; ++m) ocases.push_back({vs, orderProblems[pi], fixedMethods[m]});
    run.parallel("order", (int64_t)ocases.size(), [&](int64_t i) {
        quietWorker(run);
        const OCase& c = ocases[i]; const std::vector<Problem>& P = problemSets[c.vs]; const Problem& prob = P[c.prob];
        Fixture fx(prob);
        const std::string name = INTEG_NAMES[c.integ];
        const int p = DOC_ORDER[c.integ];
        // h0 chosen per order so that the errors stay above roundoff and inside the asymptotic regime
        const double h0 = p >= 4 ? 0.1 : p == 3 ? 0.05 : p == 2 ? 0.02 : 0.004;
        double err[4]; std::string line = "vs=" + std::to_string(c.vs) + " problem=" + prob.name + " integ=" + name + " fixed step:";
        bool ok = true;
        for (int k = 0; k < 4; ++k) {
            const double h = h0 / (1 << k);
            // a tight accuracy only tightens Verlet's inner fixed-point iteration; the step size stays fixed
            RunResult R = integrate(fx, c.integ, 1e-10, 0, 0, h, false);
            run.evaluation(verif::hashStr(line + std::to_string(k)), true);
            if (!R.ok) { ok = false; run.expect(false, name + "/integration-failed", [&] { return line + " h=" + verif::fmtd(h) + ": " + R.what.substr(0, 300); }, [&] { return run.replayHeader(); }); break; }
            err[k] = R.errRep;
            char b[100]; snprintf(b, sizeof b, " h=%g: err=%.3g (%d steps)", h, R.errRep, R.steps); line += b;
        }
        if (ok) {
            const double o1 = std::log2(err[1] / err[2]), o2 = std::log2(err[2] / err[3]);
            char b[100]; snprintf(b, sizeof b, " observed order %.2f, %.2f (documented %d)", o1, o2, p); line += b;
            if (err[3] < 1e-12) run.count("C_order_not_judged_error_at_roundoff");
            else run.residual("C:documented-minus-observed-order/" + name, p - std::min(o1, o2), 0.3, [&] { return line; }, [&] { return run.replayHeader() + line + "\n"; });
        }
        if (i % 5 == 0) run.sample(line);
        if (run.verbose) printf("%s\n", line.c_str());
    });

    // =====================================================================================================================
    // Extension sections: non-autonomous problems, state-scale families, event handlers with constraint-tolerance settings
    // =====================================================================================================================
    std::map<int, std::vector<Problem>> extSets, kickSets;
    for (int vs : vss) {
        std::vector<Problem> a = makeForcedProblems(vs), b = makeScaleProblems(vs);
        a.insert(a.end(), b.begin(), b.end()); extSets[vs] = a; kickSets[vs] = makeKickProblems(vs);
    }
    const int nExt = (int)extSets[vss[0]].size();
    for (int vs : vss) for (double tk : kickSets[vs][0].kickTimes) for (double r : reportGrid(2))      // which of report / handler comes first at equal times is not documented
        if (std::abs(tk - r) < 1e-3) run.harnessError("kick time " + verif::fmtd(tk) + " coincides with a report time (value set " + std::to_string(vs) + ")");
    run.count("excluded_problem_(q,u)-growth-from-1e4_absolute_q_control_below_double_precision", 2 * (int64_t)vss.size());     // spiral(q,u) and fast-cyclic-spiral(q,u)

    // ---- section ladder-ext: oracles A, A2, B, D on the forced / decay / grow families (raw stepTo loop)
    std::vector<Case> xcases;
    for (int vs : vss) for (int prob = 0; prob < nExt; ++prob) for (int integ = 0; integ < N_CONTROLLED; ++integ) for (int norm = 0; norm < 2; ++norm) for (int grid = 0; grid < 3; ++grid) {
        if (!thorough && grid == 1) continue;
        xcases.push_back({vs, prob, integ, norm, grid});
    }
    run.parallel("ladder-ext", (int64_t)xcases.size(), [&](int64_t i) {
        quietWorker(run);
        const Case& c = xcases[i]; const std::vector<Problem>& P = extSets[c.vs]; const Problem& prob = P[c.prob];
        Fixture fx(prob);
        const std::string name = INTEG_NAMES[c.integ], fam = prob.family, fn = fam + "/" + name;
        const bool firstOrder = c.integ == 0 || c.integ == 6;
        double err[4]; bool ok[4];
        std::string line = caseStr(c, P) + " ->";
        auto skipped = [&](int a, bool everyStep) {
            if (vacuousTolerance(prob, ACC[a])) { if (!everyStep) run.count("unspecified:not_judged_tolerance_exceeds_5%_of_the_state_over_the_whole_run"); return true; }
            if (firstOrder && ACC[a] < (everyStep ? 1e-5 : 1e-7)) { if (!everyStep) run.count("skipped_first_order_method_at_1e-8"); return true; }
            // q of magnitude 1e4 is controlled absolutely: a first-order method needs > 1e6 steps from 1e-6 on
            if (firstOrder && prob.largeQ && ACC[a] < 1e-5) { if (!everyStep) run.count("skipped_first_order_method_on_q~1e4_at_1e-6"); return true; }
            return false;
        };
        for (int a = 0; a < 4; ++a) {
            ok[a] = false; err[a] = NaN;
            if (skipped(a, false)) continue;
            RunResult R = integrate(fx, c.integ, ACC[a], c.norm, c.grid, -1, false);
            run.evaluation(verif::hashStr(caseStr(c, P) + " acc=" + std::to_string(a)), true);
            ok[a] = R.ok; err[a] = R.errRep;
            char b[120]; snprintf(b, sizeof b, " acc=%g: err=%.3g (%d steps, %d interpolated)", ACC[a], R.errRep, R.steps, R.nInterp); line += b;
            if (!R.ok) { run.expect(false, fn + "/integration-failed", [&] { return caseStr(c, P) + " accuracy " + verif::fmtd(ACC[a]) + ": " + R.what.substr(0, 300); }, [&] { return run.replayHeader(); }); continue; }
            run.outcome(verif::hashPod(R.steps, verif::hashStr(name)));
            run.count("ext_runs_family_" + fam);
            auto where = [&] { return caseStr(c, P) + " accuracy " + verif::fmtd(ACC[a]) + " error " + verif::fmtd(R.errRep) + " steps " + std::to_string(R.steps) + " gain " + verif::fmtd(prob.gain); };
            if (boundKext(fam, c.integ) > 1e299) run.count("unclaimed:A/" + fn + "(measured-only)");
            run.residual("A:global-error-over-(accuracy*steps)/" + fn, R.errRep / (ACC[a] * std::max(1, R.steps) * prob.gain), boundKext(fam, c.integ), where, [&] { return run.replayHeader() + line + "\n"; });
            run.residual("A:global-error-over-accuracy/" + fn, R.errRep / (ACC[a] * prob.gain), boundK2ext(fam, c.integ), where, [&] { return run.replayHeader() + line + "\n"; });
        }
        for (int a = 0; a + 1 < 4; ++a) {
            if (!ok[a] || !ok[a + 1]) continue;
            const double ratio = err[a + 1] / std::max(std::max(err[a], ACC[a + 1] * prob.gain), FLOOR);
            run.residual("B:error-growth-when-accuracy-tightened-100x/" + fn, ratio, 2.0,
                         [&] { return caseStr(c, P) + " accuracy " + verif::fmtd(ACC[a]) + " -> " + verif::fmtd(ACC[a + 1]) + ": error " + verif::fmtd(err[a]) + " -> " + verif::fmtd(err[a + 1]); },
                         [&] { return run.replayHeader() + line + "\n"; });
        }
        if (c.grid == 2) {
            for (int a = 0; a < 3; ++a) {
                if (skipped(a, true)) continue;
                RunResult R = integrate(fx, c.integ, ACC[a], c.norm, c.grid, -1, true);
                run.evaluation(verif::hashStr(caseStr(c, P) + " every-step acc=" + std::to_string(a)), true);
                if (!R.ok) { run.expect(false, fn + "/integration-failed", [&] { return caseStr(c, P) + " (every step) accuracy " + verif::fmtd(ACC[a]) + ": " + R.what.substr(0, 300); }, [&] { return run.replayHeader(); }); continue; }
                // the step states of the run are judged too (the error of a decaying problem is largest in the middle of the run)
                const double eAll = std::max(R.errStep, R.errRep);
                auto where = [&] { return caseStr(c, P) + " (every step) accuracy " + verif::fmtd(ACC[a]) + " error " + verif::fmtd(eAll) + " steps " + std::to_string(R.steps) + " gain " + verif::fmtd(prob.gain); };
                run.residual("A:global-error-over-(accuracy*steps)/" + fn, eAll / (ACC[a] * std::max(1, R.steps) * prob.gain), boundKext(fam, c.integ), where, [&] { return run.replayHeader(); });
                run.residual("A:global-error-over-accuracy/" + fn, eAll / (ACC[a] * prob.gain), boundK2ext(fam, c.integ), where, [&] { return run.replayHeader(); });
                if (R.nInterp == 0) { run.count("D_no_interpolated_report_in_run"); continue; }
                const double allow = std::max(10 * R.errStep, 100.0 * ACC[a] * prob.gain);
                run.residual("D:interpolated-report-error-over-allowance/" + fn, R.errInterp / allow, boundDext(c.integ),
                             [&] { return caseStr(c, P) + " accuracy " + verif::fmtd(ACC[a]) + ": interpolated " + verif::fmtd(R.errInterp) + " vs step states " + verif::fmtd(R.errStep); },
                             [&] { return run.replayHeader(); });
            }
        }
        if (i % 61 == 0) run.sample(line);
        if (run.verbose) printf("%s\n", line.c_str());
    });

    // ---- section kicks: TimeStepper + scheduled handler x constraint-tolerance setting; oracles A, A2, B and
    //      E (the constraint tolerance of a system without constraints must not cost accuracy)
    struct KCase { int vs, prob, integ, norm; };
    std::vector<KCase> kcases;
    for (int vs : vss) for (int prob = 0; prob < (int)kickSets[vs].size(); ++prob) for (int integ = 0; integ < N_CONTROLLED; ++integ) for (int norm = 0; norm < 2; ++norm) kcases.push_back({vs, prob, integ, norm});
    static const char* CT_NAMES[4] = {"default", "accuracy/10", "1e-3", "1e-1"};
    run.parallel("kicks", (int64_t)kcases.size(), [&](int64_t i) {
        quietWorker(run);
        const KCase& c = kcases[i]; const Problem& prob = kickSets[c.vs][c.prob];
        Fixture fx(prob);
        const std::string name = INTEG_NAMES[c.integ], fn = "kick/" + name;
        const std::string cs = "vs=" + std::to_string(c.vs) + " problem=" + prob.name + " integ=" + name + " norm=" + (c.norm ? "inf" : "rms") + " TimeStepper, irregular report grid";
        const bool firstOrder = c.integ == 0 || c.integ == 6;
        double err[4][4]; bool ok[4][4]; uint64_t hsh[4][4];
        std::string line = cs + " ->";
        for (int ct = 0; ct < 4; ++ct) {
            line += std::string(" [constraint tolerance ") + CT_NAMES[ct] + "]";
            for (int a = 0; a < 4; ++a) {
                ok[ct][a] = false; err[ct][a] = NaN; hsh[ct][a] = 0;
                if (firstOrder && ACC[a] < 1e-7) { run.count("skipped_first_order_method_at_1e-8"); continue; }
                RunResult R = integrateTS(fx, c.integ, ACC[a], c.norm, 2, ct, &hsh[ct][a]);
                run.evaluation(verif::hashStr(cs + " ct=" + std::to_string(ct) + " acc=" + std::to_string(a)), true);
                ok[ct][a] = R.ok; err[ct][a] = R.errRep;
                char b[120]; snprintf(b, sizeof b, " acc=%g: err=%.3g (%d steps)", ACC[a], R.errRep, R.steps); line += b;
                if (!R.ok) { run.expect(false, fn + "/integration-failed", [&] { return cs + " constraint tolerance " + CT_NAMES[ct] + " accuracy " + verif::fmtd(ACC[a]) + ": " + R.what.substr(0, 300); }, [&] { return run.replayHeader(); }); continue; }
                run.outcome(verif::hashPod(R.steps, verif::hashStr(name)));
                run.count(prob.passive ? "kick_runs_passive_handler" : "kick_runs_state_changing_handler");
                auto where = [&] { return cs + " constraint tolerance " + CT_NAMES[ct] + " accuracy " + verif::fmtd(ACC[a]) + " error " + verif::fmtd(R.errRep) + " steps " + std::to_string(R.steps); };
                run.residual("A:global-error-over-(accuracy*steps)/" + fn, R.errRep / (ACC[a] * std::max(1, R.steps)), boundKext("kick", c.integ), where, [&] { return run.replayHeader() + line + "\n"; });
                run.residual("A:global-error-over-accuracy/" + fn, R.errRep / ACC[a], boundK2ext("kick", c.integ), where, [&] { return run.replayHeader() + line + "\n"; });
                if (ct > 0 && ok[0][a]) {
                    // E: same system, same accuracy, only the (irrelevant) constraint tolerance differs
                    run.count(hsh[ct][a] == hsh[0][a] ? "E_reports_bitwise_equal_to_default_constraint_tolerance" : "E_reports_differ_from_default_constraint_tolerance");
                    run.residual("E:error-growth-with-constraint-tolerance-on-unconstrained-system/" + name, R.errRep / std::max(std::max(err[0][a], ACC[a]), FLOOR), 2.0,
                                 [&] { return cs + " accuracy " + verif::fmtd(ACC[a]) + ": error " + verif::fmtd(err[0][a]) + " with the default constraint tolerance, " + verif::fmtd(R.errRep) + " with " + CT_NAMES[ct]; },
                                 [&] { return run.replayHeader() + line + "\n"; });
                }
            }
            for (int a = 0; a + 1 < 4; ++a) {
                if (!ok[ct][a] || !ok[ct][a + 1]) continue;
                const double ratio = err[ct][a + 1] / std::max(std::max(err[ct][a], ACC[a + 1]), FLOOR);
                run.residual("B:error-growth-when-accuracy-tightened-100x/" + fn, ratio, 2.0,
                             [&] { return cs + " constraint tolerance " + CT_NAMES[ct] + " accuracy " + verif::fmtd(ACC[a]) + " -> " + verif::fmtd(ACC[a + 1]) + ": error " + verif::fmtd(err[ct][a]) + " -> " + verif::fmtd(err[ct][a + 1]); },
                             [&] { return run.replayHeader() + line + "\n"; });
            }
        }
        if (i % 7 == 0) run.sample(line);
        if (run.verbose) printf("%s\n", line.c_str());
    });


    // ---- section time-unit: oracle T.  The spiral in z written in seconds and in milliseconds is exactly the same dimensionless
    //      problem (no q; weights and accuracy are dimensionless), so an error-controlled integrator must deliver comparable
    //      scaled errors in both: err(ms) <= 10 x max(err(s), accuracy).
    struct TCase { int vs, dir, amp, integ, norm; };
    std::vector<TCase> tcases;
    for (int vs : vss) for (int dir = 0; dir < 2; ++dir) for (int amp = 0; amp < 3; ++amp) for (int integ = 0; integ < N_CONTROLLED; ++integ) for (int norm = 0; norm < 2; ++norm) {
        tcases.push_back({vs, dir, amp, integ, norm});
    }
    run.parallel("time-unit", (int64_t)tcases.size(), [&](int64_t i) {
        quietWorker(run);
        const TCase& c = tcases[i]; const double AMP[3] = {1e-4, 1.0, 1e4};
        const Problem slow = zSpiral(c.vs, c.dir, AMP[c.amp], 1.0), fast = zSpiral(c.vs, c.dir, AMP[c.amp], 1e-3);
        Fixture fs(slow), ff(fast);
        const std::string name = INTEG_NAMES[c.integ];
        const std::string cs = "vs=" + std::to_string(c.vs) + " problem=" + slow.name + " in seconds and in milliseconds integ=" + name + " norm=" + (c.norm ? "inf" : "rms") + " grid=2";
        const bool firstOrder = c.integ == 0 || c.integ == 6;
        std::string line = cs + " ->";
        for (int a = 0; a < 4; ++a) {
            if (vacuousTolerance(slow, ACC[a])) { run.count("unspecified:not_judged_tolerance_exceeds_5%_of_the_state_over_the_whole_run"); continue; }
            if (firstOrder && ACC[a] < 1e-7) { run.count("T_skipped_first_order_method_at_1e-8"); continue; }
            RunResult Rs = integrate(fs, c.integ, ACC[a], c.norm, 2, -1, false), Rf = integrate(ff, c.integ, ACC[a], c.norm, 2, -1, false);
            run.evaluation(verif::hashStr(cs + " acc=" + std::to_string(a)), true);
            char b[160]; snprintf(b, sizeof b, " acc=%g: err %.3g (%d steps) in s, %.3g (%d steps) in ms;", ACC[a], Rs.errRep, Rs.steps, Rf.errRep, Rf.steps); line += b;
            if (!Rs.ok || !Rf.ok) { run.expect(false, "time-unit/" + name + "/integration-failed", [&] { return cs + " accuracy " + verif::fmtd(ACC[a]) + ": " + (Rs.ok ? Rf.what : Rs.what).substr(0, 300); }, [&] { return run.replayHeader(); }); continue; }
            run.outcome(verif::hashPod(Rf.steps, verif::hashPod(Rs.steps, verif::hashStr(name))));
            run.residual("T:error-in-milliseconds-over-error-in-seconds/" + name, Rf.errRep / std::max(std::max(Rs.errRep, ACC[a] * slow.gain), FLOOR), 10.0,
                         [&] { return cs + " accuracy " + verif::fmtd(ACC[a]) + ": error " + verif::fmtd(Rs.errRep) + " (" + std::to_string(Rs.steps) + " steps) in seconds, " + verif::fmtd(Rf.errRep) + " (" + std::to_string(Rf.steps) + " steps) in milliseconds"; },
                         [&] { return run.replayHeader() + line + "\n"; });
        }
        if (i % 11 == 0) run.sample(line);
        if (run.verbose) printf("%s\n", line.c_str());
    });

    // ---- section order-forced: fixed-step order on the NON-autonomous problems.  Besides the documented order (oracle C)
    //      the order observed on the autonomous problems of section `order` is the reference (C'): an explicit
    //      one-step method has the same order with and without explicit time dependence.
    struct FCase { int vs, prob, integ; };
    std::vector<FCase> fcases; std::vector<int> forcedIdx;
    for (int k = 0; k < nExt; ++k) if (extSets[vss[0]][k].family == "forced") forcedIdx.push_back(k);
    for (int vs : vss) for (int pi : forcedIdx) for (int m = 0; m < 8; ++m) fcases.push_back({vs, pi, fixedMethods[m]});
    run.parallel("order-forced", (int64_t)fcases.size(), [&](int64_t i) {
        quietWorker(run);
        const FCase& c = fcases[i]; const Problem& prob = extSets[c.vs][c.prob];
        const std::string name = INTEG_NAMES[c.integ];
        const int p = DOC_ORDER[c.integ];
        // as in section `order`, but half the step for the methods of order >= 4: the forcing frequencies reach 7.5 rad/s and
        // h = 0.1 is not yet in the asymptotic regime (observed 3.8 instead of 4.0 on the unchanged tree)
        const double h0 = p >= 4 ? 0.05 : p == 3 ? 0.05 : p == 2 ? 0.02 : 0.004;
        // observed order of the last two halvings on one problem; false when an integration failed or the errors are at roundoff
        auto observe = [&](const Problem& pr, double& order, std::string& text, bool judgeFailure) {
            Fixture fx(pr); double err[4];
            text = "problem=" + pr.name + ":";
            for (int k = 0; k < 4; ++k) {
                const double h = h0 / (1 << k);
                RunResult R = integrate(fx, c.integ, 1e-10, 0, 0, h, false);
                if (judgeFailure) run.evaluation(verif::hashStr("order-forced vs=" + std::to_string(c.vs) + pr.name + name + std::to_string(k)), true);
                if (!R.ok) { if (judgeFailure) run.expect(false, "forced/" + name + "/integration-failed", [&] { return text + " fixed step h=" + verif::fmtd(h) + ": " + R.what.substr(0, 300); }, [&] { return run.replayHeader(); }); return false; }
                err[k] = R.errRep;
                char b[100]; snprintf(b, sizeof b, " h=%g: err=%.3g", h, R.errRep); text += b;
            }
            if (err[3] < 1e-12) return false;
            order = std::min(std::log2(err[1] / err[2]), std::log2(err[2] / err[3]));
            char b[60]; snprintf(b, sizeof b, " order %.2f;", order); text += b;
            return true;
        };
        double oF = 0, oRef = Infinity; std::string tF, line = "vs=" + std::to_string(c.vs) + " integ=" + name + " fixed step: ";
        if (!observe(prob, oF, tF, true)) { run.count("C_order_not_judged_error_at_roundoff_or_failed"); return; }
        line += tF;
        run.residual("C:documented-minus-observed-order/" + name, p - oF, 0.3, [&] { return line; }, [&] { return run.replayHeader() + line + "\n"; });
        int nRef = 0;
        for (int pi = 0; pi < 3; ++pi) { double o; std::string t; if (observe(problemSets[c.vs][orderProblems[pi]], o, t, false)) { oRef = std::min(oRef, o); nRef++; line += " " + t; } }
        if (nRef == 0) { run.count("C'_no_autonomous_reference_order"); return; }
        run.residual("C':autonomous-minus-nonautonomous-observed-order/" + name, oRef - oF, 0.3, [&] { return line; }, [&] { return run.replayHeader() + line + "\n"; });
        run.outcome(verif::hashPod((int)std::lround(oF * 10), verif::hashStr(name)));
        if (i % 5 == 0) run.sample(line);
        if (run.verbose) printf("%s\n", line.c_str());
    });
    return run.finish();
}
