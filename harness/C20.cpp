// C20 -- Error-controlled integrators deliver the requested accuracy.
// Engine E3 (configurations): closed-form ODE family x integrators x accuracy ladder x norm x report grid.
// Oracles (tolerance-based, calibrated on the unchanged tree, see notes/C20.md):
//   A  global error at every report <= K(method) * accuracy * (steps taken)   [no method-independent K*accuracy bound is sound];
//   B  tightening the accuracy by 100 never makes the error more than 2x worse (ladder);
//   C  with a fixed step the error falls at (at least) the documented order as h is halved;
//   D  interpolated report states are not worse than max(10 x the step states of the run, K * accuracy).
// Finding on the unchanged tree: RungeKuttaFeldberg is documented as fifth order but propagates the fourth-order solution.
#include "SimTKmath.h"
#include "odesys.h"
#include "verif.h"

#include <fcntl.h>
#include <memory>

using namespace SimTK;
typedef Integrator::SuccessfulStepStatus Status;

static const char* INTEG_NAMES[] = {"ExplicitEuler", "RungeKutta2", "RungeKutta3", "RungeKuttaFeldberg", "RungeKuttaMerson",
                                    "Verlet", "SemiExplicitEuler2", "CPodes", "CPodesAdams", "SemiExplicitEuler"};
static const int N_CONTROLLED = 9;            // SemiExplicitEuler (index 9) has no error control: fixed-step section only
static const int DOC_ORDER[] = {1, 2, 3, 5, 4, 2, 1, 0, 0, 1};     // getMethodMinOrder(); CPodes is variable order (not in section C)
static const double TEND = 2.0;

// ---------------------------------------------------------------- problems with closed-form (or harness-integrated) solutions
struct Y { std::vector<double> q, u, z; };
struct Problem {
    std::string name; int nq = 0, nz = 0; Y y0; bool stiff = false;
    odesys::RhsFn rhs;
    std::function<Y(double)> exact;
};
static void matvec(const std::vector<double>& A, int n, const double* x, double* y) { for (int i = 0; i < n; ++i) { double s = 0; for (int j = 0; j < n; ++j) s += A[i * n + j] * x[j]; y[i] = s; } }
// linear system zdot = A z with A = P L P^T, P orthogonal, L real block diagonal: 1x1 blocks (lambda) and 2x2 blocks [[a,-b],[b,a]]
struct Block { int size; double a, b; };
static Problem linearProblem(const std::string& name, const std::vector<Block>& blocks, const std::vector<double>& w0, bool stiff, int seedRot) {
    int n = 0; for (auto& b : blocks) n += b.size;
    std::vector<double> P(n * n, 0.0);
    // orthogonal P: product of plane rotations with fixed angles
    for (int i = 0; i < n; ++i) P[i * n + i] = 1;
    const double angles[3] = {0.6 + 0.1 * seedRot, 0.4 + 0.07 * seedRot, 1.1 - 0.05 * seedRot};
    int k = 0;
    for (int i = 0; i < n; ++i) for (int j = i + 1; j < n; ++j, ++k) {
        const double c = std::cos(angles[k % 3]), s = std::sin(angles[k % 3]);
        for (int r = 0; r < n; ++r) { const double a = P[r * n + i], b = P[r * n + j]; P[r * n + i] = c * a - s * b; P[r * n + j] = s * a + c * b; }
    }
    std::vector<double> L(n * n, 0.0);
    { int o = 0; for (auto& b : blocks) { if (b.size == 1) L[o * n + o] = b.a; else { L[o * n + o] = b.a; L[o * n + o + 1] = -b.b; L[(o + 1) * n + o] = b.b; L[(o + 1) * n + o + 1] = b.a; } o += b.size; } }
    std::vector<double> A(n * n, 0.0), PL(n * n, 0.0);
    for (int i = 0; i < n; ++i) for (int j = 0; j < n; ++j) { double s = 0; for (int m = 0; m < n; ++m) s += P[i * n + m] * L[m * n + j]; PL[i * n + j] = s; }
    for (int i = 0; i < n; ++i) for (int j = 0; j < n; ++j) { double s = 0; for (int m = 0; m < n; ++m) s += PL[i * n + m] * P[j * n + m]; A[i * n + j] = s; }
    Problem p; p.name = name; p.nz = n; p.stiff = stiff;
    std::vector<double> z0(n); matvec(P, n, w0.data(), z0.data());
    p.y0.z = z0;
    p.rhs = [A, n](Real, const Vector&, const Vector&, const Vector& z, const Vector&, Vector&, Vector& zdot) {
        double x[8], y[8]; for (int i = 0; i < n; ++i) x[i] = z[i]; matvec(A, n, x, y); for (int i = 0; i < n; ++i) zdot[i] = y[i]; };
    p.exact = [P, blocks, w0, n](double t) {
        std::vector<double> w(n); int o = 0;
        for (auto& b : blocks) {
            if (b.size == 1) w[o] = std::exp(b.a * t) * w0[o];
            else { const double e = std::exp(b.a * t), c = std::cos(b.b * t), s = std::sin(b.b * t); w[o] = e * (c * w0[o] - s * w0[o + 1]); w[o + 1] = e * (s * w0[o] + c * w0[o + 1]); }
            o += b.size;
        }
        Y y; y.z.resize(n); matvec(P, n, w.data(), y.z.data()); return y; };
    return p;
}
// pendulum q'' = -sin q: reference by a harness-written RK4 table (h = 5e-5, error ~1e-16), evaluated with one more RK4 step
struct PendulumRef {
    double h; std::vector<double> q, u;
    static void f(double q, double u, double& dq, double& du) { dq = u; du = -std::sin(q); }
    static void rk4(double& q, double& u, double h) {
        double k1q, k1u, k2q, k2u, k3q, k3u, k4q, k4u;
        f(q, u, k1q, k1u); f(q + h / 2 * k1q, u + h / 2 * k1u, k2q, k2u); f(q + h / 2 * k2q, u + h / 2 * k2u, k3q, k3u); f(q + h * k3q, u + h * k3u, k4q, k4u);
        q += h / 6 * (k1q + 2 * k2q + 2 * k3q + k4q); u += h / 6 * (k1u + 2 * k2u + 2 * k3u + k4u);
    }
    PendulumRef(double q0, double u0) : h(5e-5) {
        int n = (int)std::ceil(TEND / h) + 2; q.resize(n); u.resize(n); q[0] = q0; u[0] = u0;
        for (int i = 1; i < n; ++i) { q[i] = q[i - 1]; u[i] = u[i - 1]; rk4(q[i], u[i], h); }
    }
    Y at(double t) const { int k = (int)std::floor(t / h); if (k < 0) k = 0; if (k > (int)q.size() - 1) k = (int)q.size() - 1; double qq = q[k], uu = u[k]; rk4(qq, uu, t - k * h); Y y; y.q = {qq}; y.u = {uu}; return y; }
};
static std::vector<Problem> makeProblems(int vs) {
    std::vector<Problem> P;
    P.push_back(linearProblem("lin2-real(-1,-10)", {{1, -1, 0}, {1, -10, 0}}, {1.0, 0.8}, false, vs));
    P.push_back(linearProblem("lin2-rot(+-i)", {{2, 0, 1}}, {1.0, 0.5}, false, vs));
    P.push_back(linearProblem("lin2-spiral(-.1+-2i)", {{2, -0.1, 2}}, {1.0, -0.5}, false, vs));
    P.push_back(linearProblem("lin3(-1,-.1+-2i)", {{1, -1, 0}, {2, -0.1, 2}}, {0.7, 1.0, 0.3}, false, vs));
    P.push_back(linearProblem("lin3-stiff(-50,-1,-10)", {{1, -50, 0}, {1, -1, 0}, {1, -10, 0}}, {1.0, 0.6, -0.8}, true, vs));
    {   // harmonic oscillator in (q,u)
        const double w = 2.0 + 0.25 * vs, q0 = 1.0, u0 = 0.5;
        Problem p; p.name = "harmonic(q,u)"; p.nq = 1; p.y0.q = {q0}; p.y0.u = {u0};
        p.rhs = [w](Real, const Vector& q, const Vector&, const Vector&, const Vector&, Vector& udot, Vector&) { udot[0] = -w * w * q[0]; };
        p.exact = [w, q0, u0](double t) { Y y; y.q = {q0 * std::cos(w * t) + u0 / w * std::sin(w * t)}; y.u = {-q0 * w * std::sin(w * t) + u0 * std::cos(w * t)}; return y; };
        P.push_back(p);
    }
    for (int big = 0; big < 2; ++big) {
        const double q0 = big ? 2.5 - 0.2 * vs : 0.1 + 0.05 * vs, u0 = 0;
        std::shared_ptr<PendulumRef> ref(new PendulumRef(q0, u0));
        Problem p; p.name = big ? "pendulum-large" : "pendulum-small"; p.nq = 1; p.y0.q = {q0}; p.y0.u = {u0};
        p.rhs = [](Real, const Vector& q, const Vector&, const Vector&, const Vector&, Vector& udot, Vector&) { udot[0] = -std::sin(q[0]); };
        p.exact = [ref](double t) { return ref->at(t); };
        P.push_back(p);
    }
    return P;
}

// ---------------------------------------------------------------- running one configuration
struct Fixture {
    std::unique_ptr<odesys::OdeSystem> sys; State init; const Problem* prob;
    Fixture(const Problem& p) : prob(&p) {
        sys.reset(new odesys::OdeSystem(p.nq, p.nz, p.rhs, 0));
        Vector q(p.nq), u(p.nq), z(p.nz);
        for (int i = 0; i < p.nq; ++i) { q[i] = p.y0.q[i]; u[i] = p.y0.u[i]; }
        for (int i = 0; i < p.nz; ++i) z[i] = p.y0.z[i];
        init = sys->makeState(0, q, u, z);
    }
    // scaled error of a state against the exact solution: absolute for |y|<=1, relative above (the integrators' own scaling rule)
    void error(const State& s, double& rms, double& inf) const {
        Y e = prob->exact(s.getTime());
        double ss = 0; inf = 0; int n = 0;
        auto acc = [&](double got, double want) { double d = std::abs(got - want) / std::max(1.0, std::abs(want)); ss += d * d; inf = std::max(inf, d); n++; };
        for (int i = 0; i < prob->nq; ++i) { acc(sys->q(s, i), e.q[i]); acc(sys->u(s, i), e.u[i]); }
        for (int i = 0; i < prob->nz; ++i) acc(sys->z(s, i), e.z[i]);
        rms = std::sqrt(ss / std::max(1, n));
    }
};
static Integrator* makeIntegrator(int integ, const System& sys, double hFixed) {
    switch (integ) {
        case 0: return new ExplicitEulerIntegrator(sys);
        case 1: return new RungeKutta2Integrator(sys);
        case 2: return new RungeKutta3Integrator(sys);
        case 3: return new RungeKuttaFeldbergIntegrator(sys);
        case 4: return new RungeKuttaMersonIntegrator(sys);
        case 5: return new VerletIntegrator(sys);
        case 6: return new SemiExplicitEuler2Integrator(sys);
        case 7: return new CPodesIntegrator(sys, CPodes::BDF);
        case 8: return new CPodesIntegrator(sys, CPodes::Adams);
        default: return new SemiExplicitEulerIntegrator(sys, hFixed > 0 ? hFixed : 0.01);
    }
}
static std::vector<double> reportGrid(int grid) {
    std::vector<double> g;
    if (grid == 1) for (int k = 1; k < 10; ++k) g.push_back(TEND * k / 10.0);
    if (grid == 2) { const double f[] = {0.013, 0.09, 0.1, 0.37, 0.371, 0.8, 0.93}; for (double x : f) g.push_back(TEND * x); }
    g.push_back(TEND);
    return g;
}
struct RunResult { double errRep = 0, errStep = 0, errInterp = 0; int steps = 0, nInterp = 0; bool ok = true; std::string what; };
// norm: 0 RMS, 1 infinity.  everyStep: also return (and measure) at every internal step.
static RunResult integrate(const Fixture& fx, int integ, double accuracy, int norm, int grid, double hFixed, bool everyStep) {
    RunResult R;
    std::unique_ptr<Integrator> I(makeIntegrator(integ, *fx.sys, hFixed));
    if (accuracy > 0) I->setAccuracy(accuracy);
    if (norm) I->setUseInfinityNorm(true);
    if (hFixed > 0 && integ != 9) I->setFixedStepSize(hFixed);
    if (everyStep) I->setReturnEveryInternalStep(true);
    I->setFinalTime(TEND);
    try {
        I->initialize(fx.init);
        std::vector<double> g = reportGrid(grid); size_t gi = 0; int guard = 0;
        while (!I->isSimulationOver() && guard++ < 50000000) {
            const double r = gi < g.size() ? g[gi] : (double)Infinity;
            Status st = I->stepTo(r);
            if (st == Integrator::EndOfSimulation) break;
            if (st == Integrator::StartOfContinuousInterval) continue;
            double rms, inf; fx.error(I->getState(), rms, inf);
            const double e = norm ? inf : rms;
            if (st == Integrator::ReachedReportTime && I->getTime() >= r) {
                gi++;
                if (I->isStateInterpolated()) { R.errInterp = std::max(R.errInterp, e); R.nInterp++; }
                R.errRep = std::max(R.errRep, e);
            } else if (st == Integrator::TimeHasAdvanced) R.errStep = std::max(R.errStep, e);
        }
        R.steps = I->getNumStepsTaken();
    } catch (const std::exception& e) { R.ok = false; R.what = e.what(); }
    return R;
}

static void quietWorker(verif::Run& run) {
    static bool done = false;
    if (done || run.replaying()) return;
    done = true;
    int fd = open("/dev/null", O_WRONLY);
    if (fd >= 0) { dup2(fd, 2); close(fd); }
}

// K(method) for oracle A, err <= K * accuracy * steps.  Measured worst values of err/(accuracy*steps) on the unchanged
// tree over all three value sets, both tiers (notes/C20.md): ExplicitEuler 1.34, RK2 0.060, RK3 0.068, RKFeldberg 4.19,
// RKMerson 1.03, Verlet 0.33, SemiExplicitEuler2 0.85, CPodes(BDF) 1.14, CPodes(Adams) 0.49.  Bounds are ~100x above.
static double boundK(int integ) {
    static const double K[N_CONTROLLED] = {150, 6, 7, 450, 110, 35, 90, 120, 50};
    return K[integ];
}
static const double FLOOR = 2e-11;      // below this the error is roundoff / CPODES' own floor, not the controller

int main(int argc, char** argv) {
    verif::Run run("C20", argc, argv);
    run.setDeadline(1200, 5400);   // safety net only: quick needs ~20-40 s on 16 idle cores (about 320 CPU-s), see notes
    const bool thorough = run.thorough();
    std::vector<int> vss; if (thorough) vss = {0, 1, 2}; else vss = {(int)(((run.seed % 3) + 3) % 3)};
    const double ACC[4] = {1e-2, 1e-4, 1e-6, 1e-8};
    run.rule = "a case = (value set, problem, integrator, norm, report grid) with the whole accuracy ladder {1e-2,1e-4,1e-6,1e-8} (sections A,B,D), or (value set, problem, method) with the "
               "fixed-step ladder h0..h0/8 (section C); every case integrates to T=2 and compares every report with the closed-form solution; distinct = distinct tuple, all non-trivial";
    run.assumptions = {"global error is measured with the integrators' own scaling rule (absolute below 1, relative above) in the norm the controller uses",
                       "K(method) and the ladder factor are calibrated on the unchanged tree (notes/C20.md); they are not derived from theory",
                       "pendulum reference: harness-written RK4 table with h=5e-5 (error ~1e-16)",
                       "VERIF_SEED selects one of three parameter sets (rotation angles, frequencies, amplitudes) in the quick tier; thorough runs all"};

    struct Case { int vs, prob, integ, norm, grid; };
    std::vector<Case> cases; int nProb = 8;
    for (int vs : vss) for (int prob = 0; prob < nProb; ++prob) for (int integ = 0; integ < N_CONTROLLED; ++integ) for (int norm = 0; norm < 2; ++norm) for (int grid = 0; grid < 3; ++grid) {
        if (!thorough && grid == 1) continue;
        cases.push_back({vs, prob, integ, norm, grid});
    }
    auto caseStr = [&](const Case& c, const std::vector<Problem>& P) {
        return "vs=" + std::to_string(c.vs) + " problem=" + P[c.prob].name + " integ=" + INTEG_NAMES[c.integ] + " norm=" + (c.norm ? "inf" : "rms") + " grid=" + std::to_string(c.grid);
    };
    std::map<int, std::vector<Problem>> problemSets;
    for (int vs : vss) problemSets[vs] = makeProblems(vs);

    // ---- sections A, B, D
    run.parallel("ladder", (int64_t)cases.size(), [&](int64_t i) {
        quietWorker(run);
        const Case& c = cases[i]; const std::vector<Problem>& P = problemSets[c.vs]; const Problem& prob = P[c.prob];
        Fixture fx(prob);
        const std::string name = INTEG_NAMES[c.integ];
        double err[4]; bool ok[4];
        std::string line = caseStr(c, P) + " ->";
        for (int a = 0; a < 4; ++a) {
            // explicit methods on the stiff problem at 1e-8 with first/second order need > 1e6 steps: skipped and counted
            if ((c.integ == 0 || c.integ == 6) && ACC[a] < 1e-7) { ok[a] = false; err[a] = NaN; run.count("skipped_first_order_method_at_1e-8"); continue; }
            RunResult R = integrate(fx, c.integ, ACC[a], c.norm, c.grid, -1, false);
            run.evaluation(verif::hashStr(caseStr(c, P) + " acc=" + std::to_string(a)), true);
            ok[a] = R.ok; err[a] = R.errRep;
            char b[120]; snprintf(b, sizeof b, " acc=%g: err=%.3g (%d steps, %d interpolated)", ACC[a], R.errRep, R.steps, R.nInterp); line += b;
            if (!R.ok) { run.expect(false, name + "/integration-failed", [&] { return caseStr(c, P) + " accuracy " + verif::fmtd(ACC[a]) + ": " + R.what.substr(0, 300); }, [&] { return run.replayHeader(); }); continue; }
            run.outcome(verif::hashPod(R.steps, verif::hashStr(name)));
            // A: global error.  A fixed multiple of the accuracy is not a sound bound for low-order methods (the local
            // error per step is what is controlled; the global error is at most the sum over the steps for these
            // non-expansive problems), so the judged quantity is err / (accuracy * steps); err/accuracy is recorded.
            run.residual("A:global-error-over-(accuracy*steps)/" + name, R.errRep / (ACC[a] * std::max(1, R.steps)), boundK(c.integ),
                         [&] { return caseStr(c, P) + " accuracy " + verif::fmtd(ACC[a]) + " error " + verif::fmtd(R.errRep) + " steps " + std::to_string(R.steps); }, [&] { return run.replayHeader() + line + "\n"; });
            run.residual("A:global-error-over-accuracy(measured-only)/" + name, R.errRep / ACC[a], 1e300,
                         [&] { return caseStr(c, P) + " accuracy " + verif::fmtd(ACC[a]) + " error " + verif::fmtd(R.errRep) + " steps " + std::to_string(R.steps); });
        }
        // B: the ladder
        for (int a = 0; a + 1 < 4; ++a) {
            if (!ok[a] || !ok[a + 1]) continue;
            // "never substantially worse": compared with the looser run's error, or with the tighter accuracy itself when
            // the looser run was already far inside its tolerance (stability-limited steps on the stiff problem)
            const double ratio = err[a + 1] / std::max(std::max(err[a], ACC[a + 1]), FLOOR);
            run.residual("B:error-growth-when-accuracy-tightened-100x/" + name, ratio, 2.0,
                         [&] { return caseStr(c, P) + " accuracy " + verif::fmtd(ACC[a]) + " -> " + verif::fmtd(ACC[a + 1]) + ": error " + verif::fmtd(err[a]) + " -> " + verif::fmtd(err[a + 1]); },
                         [&] { return run.replayHeader() + line + "\n"; });
        }
        // D: interpolated reports against the step states of the same run (irregular grid, return every step)
        if (c.grid == 2) {
            for (int a = 0; a < 3; ++a) {
                if ((c.integ == 0 || c.integ == 6) && ACC[a] < 1e-5) continue;
                RunResult R = integrate(fx, c.integ, ACC[a], c.norm, c.grid, -1, true);
                run.evaluation(verif::hashStr(caseStr(c, P) + " every-step acc=" + std::to_string(a)), true);
                if (!R.ok) { run.expect(false, name + "/integration-failed", [&] { return caseStr(c, P) + " (every step) accuracy " + verif::fmtd(ACC[a]) + ": " + R.what.substr(0, 300); }, [&] { return run.replayHeader(); }); continue; }
                if (R.nInterp == 0) { run.count("D_no_interpolated_report_in_run"); continue; }
                const double allow = std::max(10 * R.errStep, 100.0 * ACC[a]);
                run.residual("D:interpolated-report-error-over-allowance/" + name, R.errInterp / allow, 1.0,
                             [&] { return caseStr(c, P) + " accuracy " + verif::fmtd(ACC[a]) + ": interpolated " + verif::fmtd(R.errInterp) + " vs step states " + verif::fmtd(R.errStep); },
                             [&] { return run.replayHeader(); });
                run.residual("D:interpolated-over-step-error(measured-only)/" + name, R.errInterp / std::max(R.errStep, FLOOR), 1e300, [&] { return caseStr(c, P) + " accuracy " + verif::fmtd(ACC[a]); });
            }
        }
        if (i % 37 == 0) run.sample(line);
        if (run.verbose) printf("%s\n", line.c_str());
    });

    // ---- section C: fixed step, observed order
    struct OCase { int vs, prob, integ; };
    std::vector<OCase> ocases;
    const int orderProblems[3] = {2, 5, 7};      // spiral, harmonic, large pendulum: smooth and not stiff
    const int fixedMethods[8] = {0, 1, 2, 3, 4, 5, 6, 9};
    for (int vs : vss) for (int pi = 0; pi < 3; ++pi) for (int m = 0; m < 8; ++m) ocases.push_back({vs, orderProblems[pi], fixedMethods[m]});
    run.parallel("order", (int64_t)ocases.size(), [&](int64_t i) {
        quietWorker(run);
        const OCase& c = ocases[i]; const std::vector<Problem>& P = problemSets[c.vs]; const Problem& prob = P[c.prob];
        Fixture fx(prob);
        const std::string name = INTEG_NAMES[c.integ];
        const int p = DOC_ORDER[c.integ];
        // h0 chosen per order so that the errors stay above roundoff and inside the asymptotic regime
        const double h0 = p >= 4 ? 0.1 : p == 3 ? 0.05 : p == 2 ? 0.02 : 0.004;
        double err[4]; std::string line = "vs=" + std::to_string(c.vs) + " problem=" + prob.name + " integ=" + name + " fixed step:";
        bool ok = true;
        for (int k = 0; k < 4; ++k) {
            const double h = h0 / (1 << k);
            // a tight accuracy only tightens Verlet's inner fixed-point iteration; the step size stays fixed
            RunResult R = integrate(fx, c.integ, 1e-10, 0, 0, h, false);
            run.evaluation(verif::hashStr(line + std::to_string(k)), true);
            if (!R.ok) { ok = false; run.expect(false, name + "/integration-failed", [&] { return line + " h=" + verif::fmtd(h) + ": " + R.what.substr(0, 300); }, [&] { return run.replayHeader(); }); break; }
            err[k] = R.errRep;
            char b[100]; snprintf(b, sizeof b, " h=%g: err=%.3g (%d steps)", h, R.errRep, R.steps); line += b;
        }
        if (ok) {
            const double o1 = std::log2(err[1] / err[2]), o2 = std::log2(err[2] / err[3]);
            char b[100]; snprintf(b, sizeof b, " observed order %.2f, %.2f (documented %d)", o1, o2, p); line += b;
            if (err[3] < 1e-12) run.count("C_order_not_judged_error_at_roundoff");
            else run.residual("C:documented-minus-observed-order/" + name, p - std::min(o1, o2), 0.3, [&] { return line; }, [&] { return run.replayHeader() + line + "\n"; });
        }
        if (i % 5 == 0) run.sample(line);
        if (run.verbose) printf("%s\n", line.c_str());
    });
    return run.finish();
}
