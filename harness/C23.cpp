// VERIF_FLAGS: -O2
// C23 -- Measures compute what their definitions say.
// Engine E2/E3 hybrid: every expression tree of depth <= 2 over the leaves {Constant, Time, Variable, Sinusoid} and the
// operators {Plus, Minus, Scale}, wrapped by each of {none, Integrate, Differentiate, Differentiate(forced approximation),
// Minimum, Maximum, MinAbs, MaxAbs, Delay(0.1), Delay(0.35)}, is simulated with every integrator over every report grid and
// every history {plain, set the Variable mid-run, re-initialize mid-run, copy the state at every return}; at every returned
// state the measure value is compared with a closed form: the operand is c0 + c1 t + sum a sin(w t + p) + cv v(t), so value,
// integral and derivative are formulas, and the step-memory measures (Extreme, Delay, approximate Differentiate) are their
// documented definitions evaluated on the observed step grid (setReturnEveryInternalStep(true) reveals every step end).
// Measure::SampleAndHold is declared in Measure.h but has no Implementation anywhere in the tree: that clause of the property
// has nothing to run against (reported as unexercisable, not faked).
#include "SimTKmath.h"
#include "odesys.h"
#include "verif.h"

#include <fcntl.h>
#include <memory>

using namespace SimTK;

namespace {

// ------------------------------------------------------------------ parameter alphabets (VERIF_SEED selects the set)
struct Params { double c[3][3]; double v0[3][3]; double v1[3][3]; double a[3], w[3], p[3]; double sf[2]; double ic[3]; };
const Params PSETS[] = {
    { {{0.7, -1.3, 2.1}, {-0.4, 0.9, 0.3}, {1.6, 0.2, -0.8}}, {{0.5, -0.6, 1.1}, {-0.9, 0.4, 0.7}, {0.3, 0.3, -0.2}}, {{-1.2, 0.8, -0.5}, {0.6, -1.4, 0.1}, {-0.7, 0.9, 1.3}},
      {1.3, -0.8, 0.45}, {5.0, 11.0, 2.3}, {0.4, -1.1, 2.0}, {-1.5, 2.0}, {0.3, -0.2, 1.0} },
    { {{-2.0, 0.5, 1.0}, {1.25, -0.75, 0.1}, {0.6, 1.9, -1.1}}, {{1.0, 0.2, -0.3}, {-0.5, -0.5, 0.8}, {0.9, -1.6, 0.4}}, {{0.4, -0.9, 1.7}, {1.1, 0.3, -0.6}, {-0.2, 0.5, 0.5}},
      {0.9, 1.7, -0.35}, {7.0, 3.1, 13.0}, {-0.7, 0.2, 1.3}, {2.5, -0.5}, {-1.0, 0.6, 0.0} },
    { {{0.11, 3.0, -0.9}, {-1.7, 0.45, 0.85}, {2.2, -0.15, 0.65}}, {{-0.8, 1.5, 0.25}, {0.35, 0.95, -1.2}, {1.4, -0.1, -0.45}}, {{0.9, -0.3, -1.8}, {-1.05, 0.7, 0.2}, {0.15, 1.2, 0.6}},
      {-1.1, 0.6, 2.0}, {4.0, 9.5, 1.7}, {1.0, 0.0, -0.6}, {-0.75, 3.0}, {0.5, 0.5, -0.5} },
};
const int NPSETS = 3;
const Params* PP = &PSETS[0];

// ------------------------------------------------------------------ expression trees and their closed forms
enum NodeKind { N_CONST, N_TIME, N_VAR, N_SIN, N_PLUS, N_MINUS, N_SCALE };
struct Node { int kind; int l = -1, r = -1; int slot = 0; };
struct Tree { std::vector<Node> n; int root = -1; std::string desc; int nvar = 0; int depth = 0; bool hasTime = false, hasSin = false; bool staleSub = false; };

struct SinT { double a, w, p; };
struct CF {   // c0 + c1 t + sum a sin(w t + p) + sum_k cv[k] v_k(t)   (v_k piecewise constant)
    double c0 = 0, c1 = 0; std::vector<SinT> s; double cv[3] = {0, 0, 0};
    CF scaled(double f) const { CF r = *this; r.c0 *= f; r.c1 *= f; for (auto& x : r.s) x.a *= f; for (auto& x : r.cv) x *= f; return r; }
    CF plus(const CF& o, double sign) const { CF r = *this; r.c0 += sign * o.c0; r.c1 += sign * o.c1; for (auto x : o.s) { x.a *= sign; r.s.push_back(x); } for (int k = 0; k < 3; ++k) r.cv[k] += sign * o.cv[k]; return r; }
};
struct VarHist { double v0[3], v1[3]; double tSet; };   // value of variable slot k: v0 before tSet, v1 from tSet on (tSet = inf: never)
double cfVal(const CF& f, double t, const VarHist& h) {
    double x = f.c0 + f.c1 * t; for (auto& s : f.s) x += s.a * std::sin(s.w * t + s.p);
    for (int k = 0; k < 3; ++k) x += f.cv[k] * (t >= h.tSet ? h.v1[k] : h.v0[k]);
    return x;
}
double cfDer(const CF& f, double t) { double x = f.c1; for (auto& s : f.s) x += s.a * s.w * std::cos(s.w * t + s.p); return x; }
double cfDer2Max(const CF& f) { double x = 0; for (auto& s : f.s) x += std::fabs(s.a) * s.w * s.w; return x; }
double cfDer1Max(const CF& f) { double x = std::fabs(f.c1); for (auto& s : f.s) x += std::fabs(s.a * s.w); return x; }
double cfScale(const CF& f, const VarHist& h, double T) {
    double x = std::fabs(f.c0) + std::fabs(f.c1) * T; for (auto& s : f.s) x += std::fabs(s.a);
    for (int k = 0; k < 3; ++k) x += std::fabs(f.cv[k]) * std::max(std::fabs(h.v0[k]), std::fabs(h.v1[k]));
    return std::max(x, 1e-3);
}
double cfInt(const CF& f, double ta, double tb, const VarHist& h) {   // integral over [ta, tb]
    double x = f.c0 * (tb - ta) + f.c1 * (tb * tb - ta * ta) / 2;
    for (auto& s : f.s) x += -s.a / s.w * (std::cos(s.w * tb + s.p) - std::cos(s.w * ta + s.p));
    for (int k = 0; k < 3; ++k) {
        double before = std::max(0.0, std::min(tb, h.tSet) - ta), after = std::max(0.0, tb - std::max(ta, h.tSet));
        x += f.cv[k] * (h.v0[k] * before + h.v1[k] * after);
    }
    return x;
}

// all trees: leaves; op(leaf[,leaf]); Plus(d1, leaf), Minus(leaf, d1), Scale(d1)
std::vector<Tree> makeTrees(bool vec) {
    std::vector<int> leaves = vec ? std::vector<int>{N_CONST, N_VAR} : std::vector<int>{N_CONST, N_TIME, N_VAR, N_SIN};
    const char* LN[] = {"C", "T", "V", "S"};
    std::vector<Tree> out;
    auto leafTree = [&](int k, int slot) { Tree t; Node n; n.kind = k; n.slot = slot; t.n.push_back(n); t.root = 0; t.desc = LN[k] + std::to_string(slot); t.nvar = k == N_VAR ? slot + 1 : 0; t.hasTime = k == N_TIME; t.hasSin = k == N_SIN; return t; };
    auto combine = [&](int op, const Tree& a, const Tree* b) {
        Tree t = a; int off = (int)t.n.size();
        Node n; n.kind = op; n.l = a.root;
        if (b) { for (auto x : b->n) { if (x.l >= 0) x.l += off; if (x.r >= 0) x.r += off; t.n.push_back(x); } n.r = b->root + off; t.nvar = std::max(a.nvar, b->nvar); t.hasTime |= b->hasTime; t.hasSin |= b->hasSin; }
        n.slot = a.depth;    // scale factor index
        t.n.push_back(n); t.root = (int)t.n.size() - 1;
        t.depth = std::max(a.depth, b ? b->depth : 0) + 1;
        // an operator node whose whole subtree is time independent and contains a Variable: its result is cached "at Model stage"
        t.staleSub = a.staleSub || (b && b->staleSub) || (!t.hasTime && !t.hasSin && t.nvar > 0);
        t.desc = op == N_SCALE ? "Scale(" + a.desc + ")" : std::string(op == N_PLUS ? "Plus(" : "Minus(") + a.desc + "," + b->desc + ")";
        return t;
    };
    std::vector<Tree> d0, d1;
    for (int k : leaves) d0.push_back(leafTree(k, 0));
    for (auto& a : d0) for (int k : leaves) { Tree b = leafTree(k, 1); d1.push_back(combine(N_PLUS, a, &b)); d1.push_back(combine(N_MINUS, a, &b)); }
    for (auto& a : d0) d1.push_back(combine(N_SCALE, a, nullptr));
    for (auto& t : d0) out.push_back(t);
    for (auto& t : d1) out.push_back(t);
    for (auto& a : d1) for (int k : leaves) { Tree b = leafTree(k, 2); out.push_back(combine(N_PLUS, a, &b)); out.push_back(combine(N_MINUS, b, &a)); }
    for (auto& a : d1) out.push_back(combine(N_SCALE, a, nullptr));
    return out;
}

template <class T> struct Num;
template <> struct Num<Real> { enum { N = 1 }; static Real make(const double* x) { return x[0]; } static double get(const Real& v, int) { return v; } static const char* name() { return "Real"; } };
template <> struct Num<Vec3> { enum { N = 3 }; static Vec3 make(const double* x) { return Vec3(x[0], x[1], x[2]); } static double get(const Vec3& v, int i) { return v[i]; } static const char* name() { return "Vec3"; } };

template <class T> struct BuiltExpr {
    Measure_<T> m; CF cf[3];
    std::vector<typename Measure_<T>::Variable> vars; std::vector<int> varSlots;
};
template <class T> struct LeafMaker;
template <> struct LeafMaker<Real> {
    static Measure_<Real> time(Subsystem& sub) { return Measure::Time(sub); }
    static Measure_<Real> sinus(Subsystem& sub, int slot) { return Measure::Sinusoid(sub, PP->a[slot], PP->w[slot], PP->p[slot]); }
};
template <> struct LeafMaker<Vec3> {
    static Measure_<Vec3> time(Subsystem&) { throw std::logic_error("Measure_<Vec3>::Time has no implementation"); }
    static Measure_<Vec3> sinus(Subsystem&, int) { throw std::logic_error("Measure_<Vec3>::Sinusoid does not compile"); }
};

template <class T> void buildRec(Subsystem& sub, const Tree& t, int i, BuiltExpr<T>& out, Measure_<T>& m, CF* cf) {
    const int NC = Num<T>::N;
    const Node& n = t.n[i];
    switch (n.kind) {
        case N_CONST: { m = typename Measure_<T>::Constant(sub, Num<T>::make(PP->c[n.slot])); for (int c = 0; c < NC; ++c) { cf[c] = CF(); cf[c].c0 = PP->c[n.slot][c]; } break; }
        case N_TIME: { m = LeafMaker<T>::time(sub); for (int c = 0; c < NC; ++c) { cf[c] = CF(); cf[c].c1 = 1; } break; }
        case N_VAR: {
            // Stage::Instance is the lowest stage a run-time variable can invalidate without destroying the continuous variables
            typename Measure_<T>::Variable v(sub, Stage::Instance, Num<T>::make(PP->v0[n.slot]));
            out.vars.push_back(v); out.varSlots.push_back(n.slot); m = v;
            // component c of variable slot k is tracked as its own scalar "variable" with index k; values differ per component
            for (int c = 0; c < NC; ++c) { cf[c] = CF(); cf[c].cv[n.slot] = 1; }
            break;
        }
        case N_SIN: { m = LeafMaker<T>::sinus(sub, n.slot); for (int c = 0; c < NC; ++c) { cf[c] = CF(); cf[c].s.push_back({PP->a[n.slot], PP->w[n.slot], PP->p[n.slot]}); } break; }
        case N_PLUS: case N_MINUS: {
            Measure_<T> l, r; CF cl[3], cr[3]; buildRec(sub, t, n.l, out, l, cl); buildRec(sub, t, n.r, out, r, cr);
            if (n.kind == N_PLUS) m = typename Measure_<T>::Plus(sub, l, r); else m = typename Measure_<T>::Minus(sub, l, r);
            for (int c = 0; c < NC; ++c) cf[c] = cl[c].plus(cr[c], n.kind == N_PLUS ? 1.0 : -1.0);
            break;
        }
        case N_SCALE: {
            Measure_<T> l; CF cl[3]; buildRec(sub, t, n.l, out, l, cl);
            m = typename Measure_<T>::Scale(sub, PP->sf[n.slot % 2], l);
            for (int c = 0; c < NC; ++c) cf[c] = cl[c].scaled(PP->sf[n.slot % 2]);
            break;
        }
    }
}

// ------------------------------------------------------------------ dimensions
enum Wrap { W_NONE, W_INT, W_DIFF, W_DIFFA, W_MIN, W_MAX, W_MINABS, W_MAXABS, W_DELAY1, W_DELAY2, W_N };
const char* WN[] = {"none", "Integrate", "Differentiate", "Differentiate-forced-approx", "Minimum", "Maximum", "MinAbs", "MaxAbs", "Delay(0.1)", "Delay(0.35)"};
enum Integ { I_EE, I_RK2, I_RK3, I_RKF, I_RKM, I_SEE, I_SEE2, I_VERLET, I_CPODES, I_N };
const char* IN_[] = {"ExplicitEuler", "RungeKutta2", "RungeKutta3", "RungeKuttaFeldberg", "RungeKuttaMerson", "SemiExplicitEuler", "SemiExplicitEuler2", "Verlet", "CPodes"};
enum Grid { G_NONE, G_COARSE, G_FINE, G_IRREG, G_N };
const char* GN[] = {"none", "coarse", "fine", "irregular"};
enum Hist { H_PLAIN, H_SETVAR, H_REINIT, H_COPY, H_N };
const char* HN[] = {"plain", "set-variable-mid-run", "re-initialize-mid-run", "copy-state-at-every-return"};
const double TEND = 1.0, TMID = 0.4, ACC = 1e-5, HFIX = 0.02;
// bound on |integral error| / (accuracy * scale) per error-controlled integrator: >= 100x the worst ratio measured on the unchanged tree
// requested accuracy per integrator (first-order methods would need thousands of steps at 1e-5)
const double ACCI[] = {1e-2, 1e-3, 1e-4, 1e-5, 1e-5, 1e-5, 1e-2, 1e-3, 1e-5};
const double INTBOUND[] = {500, 50, 5, 5000, 150, 0, 400, 500, 300};

std::unique_ptr<Integrator> makeInteg(int k, const System& sys) {
    switch (k) {
        case I_EE: return std::unique_ptr<Integrator>(new ExplicitEulerIntegrator(sys));
        case I_RK2: return std::unique_ptr<Integrator>(new RungeKutta2Integrator(sys));
        case I_RK3: return std::unique_ptr<Integrator>(new RungeKutta3Integrator(sys));
        case I_RKF: return std::unique_ptr<Integrator>(new RungeKuttaFeldbergIntegrator(sys));
        case I_RKM: return std::unique_ptr<Integrator>(new RungeKuttaMersonIntegrator(sys));
        case I_SEE: return std::unique_ptr<Integrator>(new SemiExplicitEulerIntegrator(sys, HFIX));
        case I_SEE2: return std::unique_ptr<Integrator>(new SemiExplicitEuler2Integrator(sys));
        case I_VERLET: return std::unique_ptr<Integrator>(new VerletIntegrator(sys));
        default: return std::unique_ptr<Integrator>(new CPodesIntegrator(sys));
    }
}
std::vector<double> gridTimes(int g) {
    std::vector<double> r;
    if (g == G_COARSE) for (int i = 1; i <= 4; ++i) r.push_back(0.25 * i);
    if (g == G_FINE) for (int i = 1; i <= 50; ++i) r.push_back(0.02 * i);
    if (g == G_IRREG) r = {0.013, 0.2, 0.21, 0.2100001, 0.5, 0.77, 0.770001, 0.95, 1.0};
    if (g == G_NONE) r = {TEND};
    return r;
}

struct Sample { double t; double f[3]; };

// documented Extreme fold: strict comparison keeps the first occurrence
double extFold(int w, double prev, double cur) {
    switch (w) {
        case W_MAX: return cur > prev ? cur : prev;
        case W_MIN: return cur < prev ? cur : prev;
        case W_MAXABS: return std::fabs(cur) > std::fabs(prev) ? cur : prev;
        default: return std::fabs(cur) < std::fabs(prev) ? cur : prev;
    }
}
bool extNew(int w, double prev, double cur) {
    switch (w) {
        case W_MAX: return cur > prev; case W_MIN: return cur < prev;
        case W_MAXABS: return std::fabs(cur) > std::fabs(prev); default: return std::fabs(cur) < std::fabs(prev);
    }
}

// documented Delay evaluation on a buffer of samples (linear interpolation; flat before the first sample; extrapolation
// from the last two samples beyond the last one); returns the class of the evaluation in `cls`
double delayRef(const std::vector<Sample>& buf, int nbuf, int comp, double td, int& cls, double& hLocal) {
    int firstLater = -1;
    for (int i = 0; i < nbuf; ++i) if (buf[i].t >= td) { firstLater = i; break; }
    hLocal = 0;
    if (firstLater > 0) { const Sample &a = buf[firstLater - 1], &b = buf[firstLater]; cls = 0; hLocal = b.t - a.t; double fr = (td - a.t) / (b.t - a.t); return a.f[comp] + fr * (b.f[comp] - a.f[comp]); }
    if (firstLater == 0) { cls = 1; return buf[0].f[comp]; }
    if (nbuf == 1) { cls = 2; return buf[0].f[comp]; }
    const Sample &a = buf[nbuf - 2], &b = buf[nbuf - 1]; cls = 3; hLocal = b.t - a.t;
    double fr = (td - a.t) / (b.t - a.t); return a.f[comp] + fr * (b.f[comp] - a.f[comp]);
}

struct CaseId { int vec, tree, wrap, integ, grid, hist; };

// ------------------------------------------------------------------ one simulation
template <class T>
void runCase(verif::Run& run, const std::vector<Tree>& trees, const CaseId& id, const std::string& where) {
    const int NC = Num<T>::N;
    const Tree& tree = trees[id.tree];
    auto wh = [&] { return where; };
    auto rp = [&] { return run.replayHeader() + "case=" + where + "\n"; };
    const std::string wname = WN[id.wrap];
    const std::string ikey = std::string(id.integ == I_CPODES ? "CPodes" : "AbstractIntegratorRep-family");

    odesys::OdeSystem sys(1, 0, [](Real, const Vector&, const Vector&, const Vector&, const Vector&, Vector& udot, Vector&) { udot = 0; });
    Subsystem& sub = sys.updDefaultSubsystem();
    BuiltExpr<T> ex; Measure_<T> opnd;
    buildRec<T>(sub, tree, tree.root, ex, opnd, ex.cf);
    Measure_<T> m = opnd;
    typename Measure_<T>::Extreme ext; typename Measure_<T>::Differentiate dif;
    bool isExt = false;
    const double tau = id.wrap == W_DELAY1 ? 0.1 : 0.35;
    switch (id.wrap) {
        case W_NONE: break;
        case W_INT: m = typename Measure_<T>::Integrate(sub, opnd, typename Measure_<T>::Constant(sub, Num<T>::make(PP->ic)), T(0)); break;
        case W_DIFF: dif = typename Measure_<T>::Differentiate(sub, opnd); m = dif; break;
        case W_DIFFA: dif = typename Measure_<T>::Differentiate(sub, opnd); dif.setForceUseApproximation(true); m = dif; break;
        case W_MIN: ext = typename Measure_<T>::Minimum(sub, opnd); m = ext; isExt = true; break;
        case W_MAX: ext = typename Measure_<T>::Maximum(sub, opnd); m = ext; isExt = true; break;
        case W_MINABS: ext = typename Measure_<T>::MinAbs(sub, opnd); m = ext; isExt = true; break;
        case W_MAXABS: ext = typename Measure_<T>::MaxAbs(sub, opnd); m = ext; isExt = true; break;
        case W_DELAY1: case W_DELAY2: m = typename Measure_<T>::Delay(sub, opnd, tau); break;
    }
    // step driver: an (unjudged) integral of a sinusoid makes the error-controlled integrators take a few dozen steps, so that
    // the step-memory measures see a rich, integrator-specific step grid instead of two or three steps
    Measure::Integrate driver(sub, Measure::Sinusoid(sub, 0.3, 12.0, 0.3), Measure::Constant(sub, 0.0));
    // per component variable histories (component c of slot k)
    VarHist vhc[3]; for (int c = 0; c < 3; ++c) { vhc[c].tSet = Infinity; for (int k = 0; k < 3; ++k) { vhc[c].v0[k] = PP->v0[k][c]; vhc[c].v1[k] = PP->v0[k][c]; } }
    auto F = [&](int c, double t) { return cfVal(ex.cf[c], t, vhc[c]); };

    State init = sys.makeState(0, Vector(1, 0.0), Vector(1, 1.0), Vector());
    std::unique_ptr<Integrator> integ = makeInteg(id.integ, sys);
    integ->setAccuracy(ACCI[id.integ]); integ->setReturnEveryInternalStep(true);
    const bool approxDiff = (id.wrap == W_DIFFA) || (id.wrap == W_DIFF && tree.depth > 0);
    // Measure::Variable reports Stage::Model as the depends-on stage of its value, but setValue() invalidates only the stage given
    // at construction (>= Instance at run time).  Everything cached "at Model stage" (Plus/Minus/Scale results, Extreme's update
    // entries, ...) of an operand without time dependence therefore survives a setValue().  All oracle failures of that class
    // after the change are keyed under this prefix.
    const bool staleClass = id.hist == H_SETVAR && ((!tree.hasTime && !tree.hasSin) || tree.staleSub);
    bool staleNow = false;      // set once the Variable has been changed in a staleClass case
    // all oracles go through here; in the stale class every failure is reported under one precise key
    auto resid = [&](const std::string& name, double value, double bound, const std::function<std::string()>& where_, const std::function<std::string()>& replay_) {
        if (!staleNow) return run.residual(name, value, bound, where_, replay_);
        bool ok = value <= bound;
        run.count(std::string("stale-class:") + name + (ok ? ":ok" : ":FAIL"));
        return run.expect(ok, "Variable-setValue/not-seen-by-values-cached-at-Model-stage",
                          [&] { return name + ": residual " + verif::fmtd(value) + " > bound " + verif::fmtd(bound) + " after Measure::Variable::setValue at " + where_(); }, replay_);
    };

    try { integ->initialize(init); }
    catch (const std::exception& e) {
        // Differentiate by approximation allocates its auto-update variable with invalidates = operand.getDependsOnStage(); for an
        // operand built from Constants/Variables only that is Topology/Model, and initialize() then un-models the State.
        bool lowOperand = !tree.hasTime && !tree.hasSin;
        std::string key = approxDiff && lowOperand ? "Differentiate-approx/operand-without-time-dependence/initialize-fails"
                                                   : "initialize-throws/" + wname;
        run.expect(false, key, [&] { return std::string("Integrator::initialize threw: ") + std::string(e.what()).substr(0, 260) + " at " + where; }, rp);
        run.count("cases-ending-in-initialize-exception");
        return;
    }

    std::vector<Sample> G;          // step boundaries since (re)initialization, with the operand value there
    std::vector<double> D[3]; std::vector<char> Dgood;   // approximate-derivative recurrence at the boundaries
    double tInit = 0; int nReturns = 0, nInterp = 0;
    double recAmp = 0;     // sum over the steps so far of 2/h: rounding of (f-f0)/(t-t0) is carried undamped by the recurrence
    double icv[3]; for (int c = 0; c < NC; ++c) icv[c] = PP->ic[c];
    double intBase[3] = {0, 0, 0};      // integral value at tInit
    for (int c = 0; c < NC; ++c) intBase[c] = icv[c];
    auto startRecord = [&](double t0) {
        G.clear(); for (auto& d : D) d.clear(); Dgood.clear(); tInit = t0; recAmp = 0;
        Sample s; s.t = t0; for (int c = 0; c < NC; ++c) s.f[c] = F(c, t0); G.push_back(s);
        for (int c = 0; c < NC; ++c) D[c].push_back(0.0); Dgood.push_back(0);
    };
    startRecord(0);
    double hMaxSeen = 0;     // sum over the steps so far of 1/h: rounding of (f-f0)/(t-t0) is carried undamped by the recurrence
    State firstCopy; bool haveFirstCopy = false; double firstCopyVal[3] = {0, 0, 0}; double firstCopyT = 0;

    // ---- judge one returned state
    auto judge = [&](const State& x, bool interpolated, bool alsoCopy) {
        const double t = x.getTime();
        sys.realize(x, Stage::Acceleration);
        const T& val = m.getValue(x);
        // which step does this state belong to?
        int nb = (int)G.size();
        if (run.verbose) printf("  return t=%.17g interpolated=%d lastBoundary=%.17g nBoundaries=%d value=%.17g operand-now=%.17g\n", t, (int)interpolated, G.back().t, nb, Num<T>::get(val, 0), F(0, t));
        bool newEnd = !interpolated && t > G.back().t;
        int nbuf = (interpolated || newEnd) ? nb : std::max(1, nb - 1);     // samples held in the auto-update variable
        if (!interpolated && !newEnd && nb == 1) nbuf = 1;
        const Sample& start = G[nbuf - 1];
        double scaleAll = 0;
        for (int c = 0; c < NC; ++c) {
            const double v = Num<T>::get(val, c);
            const double sc = cfScale(ex.cf[c], vhc[c], TEND); scaleAll = std::max(scaleAll, sc);
            const double fNow = F(c, t);
            switch (id.wrap) {
                case W_NONE:
                    resid("value/expression", std::fabs(v - fNow) / sc, 1e-13, wh, rp);
                    break;
                case W_INT: {
                    double exact = intBase[c] + cfInt(ex.cf[c], tInit, t, vhc[c]);
                    double err = std::fabs(v - exact);
                    if (id.integ == I_SEE) resid("integral/fixed-step-first-order-bound", err / (HFIX * TEND * cfDer1Max(ex.cf[c]) / 2 + 1e-12 * sc), 2.0, wh, rp);
                    else resid(std::string("integral/error-controlled/") + IN_[id.integ], err / (ACCI[id.integ] * sc), INTBOUND[id.integ], wh, rp);
                    break;
                }
                case W_DIFF: case W_DIFFA: {
                    if (!approxDiff) { resid("derivative/analytic", std::fabs(v - cfDer(ex.cf[c], t)) / (cfDer1Max(ex.cf[c]) + sc), 1e-13, wh, rp); break; }
                    double d;
                    if (t == start.t) d = D[c][nbuf - 1];
                    else { d = (fNow - start.f[c]) / (t - start.t); if (Dgood[nbuf - 1]) d = 2 * d - D[c][nbuf - 1]; }
                    double h = std::max(t - start.t, 1e-300);
                    resid("derivative/documented-recurrence/" + ikey, std::fabs(v - d) / (sc * (recAmp + 1 / h) + std::fabs(d)), 1e-13, wh, rp);
                    if (newEnd) D[c].push_back(d);
                    break;
                }
                case W_MIN: case W_MAX: case W_MINABS: case W_MAXABS: {
                    // documented fold over the samples held at the step start plus the current value; samples whose comparison
                    // metric ties with the optimum within rounding are all acceptable (the operand is evaluated by the library in
                    // a different operation order than the closed form)
                    auto metric = [&](double x) { return id.wrap == W_MAX ? x : id.wrap == W_MIN ? -x : id.wrap == W_MAXABS ? std::fabs(x) : -std::fabs(x); };
                    double best = metric(fNow); for (int i = 0; i < nbuf; ++i) best = std::max(best, metric(G[i].f[c]));
                    double res = Infinity; int ties = 0;
                    auto consider = [&](double x) { if (metric(x) >= best - 1e-12 * sc) { res = std::min(res, std::fabs(v - x)); ties++; } };
                    for (int i = 0; i < nbuf; ++i) consider(G[i].f[c]);
                    consider(fNow);
                    resid("extreme/documented-fold/" + ikey, res / sc, 1e-13, wh, rp);
                    if (NC == 1) {
                        double got = ext.getTimeOfExtremeValue(x); double rt = Infinity;
                        for (int i = 0; i < nbuf; ++i) if (metric(G[i].f[c]) >= best - 1e-12 * sc) rt = std::min(rt, std::fabs(got - G[i].t));
                        if (metric(fNow) >= best - 1e-12 * sc) rt = std::min(rt, std::fabs(got - t));
                        resid("extreme/time-of-extreme-value/" + ikey, rt, 1e-13, wh, rp);
                    }
                    break;
                }
                case W_DELAY1: case W_DELAY2: {
                    int cls; double hl; double ref = delayRef(G, nbuf, c, t - tau, cls, hl);
                    static const char* CN[] = {"interpolated", "before-start", "single-sample", "extrapolated"};
                    run.count(std::string("delay-class:") + CN[cls]);
                    resid("delay/documented-buffer-algorithm/" + ikey, std::fabs(v - ref) / sc, 1e-10, wh, rp);
                    if (cls == 0 && !(vhc[c].tSet > t - tau - hl && vhc[c].tSet <= t - tau + hl))     // accuracy of linear interpolation: h^2/8 max|f''|
                        resid("delay/interpolation-accuracy", std::fabs(v - F(c, t - tau)) / (hl * hl / 8 * cfDer2Max(ex.cf[c]) + 1e-12 * sc), 1.0 + 1e-9, wh, rp);
                    break;
                }
            }
        }
        if (approxDiff && (id.wrap == W_DIFF || id.wrap == W_DIFFA) && newEnd) Dgood.push_back(1);
        if (newEnd) recAmp += 2 / (t - G.back().t);
        if (newEnd) { Sample s; s.t = t; for (int c = 0; c < NC; ++c) s.f[c] = F(c, t); hMaxSeen = std::max(hMaxSeen, t - G.back().t); G.push_back(s); }
        uint64_t oh = verif::hashPod(id.wrap); for (int c = 0; c < NC; ++c) { double v = Num<T>::get(val, c); oh = verif::hashPod(v, oh); }
        run.outcome(oh);
        if (alsoCopy) {
            // a copy of the returned state, realized again, must report the same value; and must not change afterwards
            State cp(x); sys.realize(cp, Stage::Acceleration);
            const T& v2 = m.getValue(cp);
            double dmax = 0; for (int c = 0; c < NC; ++c) dmax = std::max(dmax, std::fabs(Num<T>::get(v2, c) - Num<T>::get(val, c)));
            resid("copy/value-equals-original/" + wname, dmax / scaleAll, id.wrap == W_INT ? 1e-13 : 1e-12, wh, rp);
            if (!haveFirstCopy && t >= 0.3) { firstCopy = cp; haveFirstCopy = true; firstCopyT = t; sys.realize(firstCopy, Stage::Acceleration); const T& v3 = m.getValue(firstCopy); for (int c = 0; c < NC; ++c) firstCopyVal[c] = Num<T>::get(v3, c); }
        }
    };

    std::vector<double> grid = gridTimes(id.grid);
    size_t gi = 0; bool midDone = id.hist == H_PLAIN || id.hist == H_COPY;
    try {
        judge(integ->getState(), false, id.hist == H_COPY);
        int guard = 0;
        while (gi < grid.size() && guard++ < 200000) {
            Integrator::SuccessfulStepStatus st = integ->stepTo(grid[gi]);
            if (st == Integrator::EndOfSimulation) break;
            const bool interp = integ->isStateInterpolated();
            nReturns++; nInterp += interp;
            judge(integ->getState(), interp, id.hist == H_COPY);
            const double t = integ->getState().getTime();
            if (st == Integrator::ReachedReportTime && t >= grid[gi]) gi++;
            if (!midDone && !interp && t >= TMID) {
                midDone = true;
                if (id.hist == H_SETVAR) {
                    State& adv = integ->updAdvancedState();
                    for (size_t k = 0; k < ex.vars.size(); ++k) ex.vars[k].setValue(adv, Num<T>::make(PP->v1[ex.varSlots[k]]));
                    for (int c = 0; c < NC; ++c) { vhc[c].tSet = t; for (int k = 0; k < 3; ++k) vhc[c].v1[k] = PP->v1[k][c]; }
                    integ->reinitialize(Stage::Instance, false);
                    if (staleClass) staleNow = true;
                    run.count(ex.vars.empty() ? "set-variable-history-without-variable" : "set-variable-history-applied");
                    // the state is judged again at the same time with the new variable value (as the same step end)
                    if (G.size() > 1) { G.pop_back(); if (!Dgood.empty() && Dgood.size() > G.size()) { Dgood.pop_back(); for (int c = 0; c < NC; ++c) D[c].pop_back(); } }
                    judge(integ->getState(), false, false);
                } else {   // H_REINIT: start a new study from the current state
                    State now = integ->getAdvancedState();
                    integ->initialize(now);
                    // Integrate restarts from its initial-condition measure, Extreme/Delay/Differentiate restart from the current value
                    for (int c = 0; c < NC; ++c) intBase[c] = icv[c];
                    startRecord(t);
                    run.count("re-initialize-history-applied");
                    judge(integ->getState(), false, false);
                }
            }
        }
        if (haveFirstCopy) {
            sys.realize(firstCopy, Stage::Acceleration);
            const T& v3 = m.getValue(firstCopy); double dmax = 0;
            for (int c = 0; c < NC; ++c) dmax = std::max(dmax, std::fabs(Num<T>::get(v3, c) - firstCopyVal[c]));
            run.residual("copy/unaffected-by-continuing-the-original", dmax, 0.0, wh, rp);
            run.expect(firstCopy.getTime() == firstCopyT, "copy/time-unchanged", wh, rp);
        }
    } catch (const std::exception& e) {
        run.expect(false, "exception-during-run/" + wname + "/" + ikey, [&] { return std::string(e.what()).substr(0, 300) + " at " + where; }, rp);
    }
    run.count("returns", nReturns); run.count("interpolated-returns", nInterp); run.count(std::string("steps:") + IN_[id.integ], (int64_t)G.size() - 1);
    if (run.verbose) printf("case %s: returns=%d interpolated=%d boundaries=%zu\n", where.c_str(), nReturns, nInterp, G.size());
}

// Differentiate over an operand that supplies its own derivative: evaluated statically (no realize(Acceleration)).
template <class T>
void staticAnalyticDiff(verif::Run& run, const std::vector<Tree>& trees, const CaseId& id, const std::string& where) {
    const int NC = Num<T>::N;
    const Tree& tree = trees[id.tree];
    auto wh = [&] { return where + " (static evaluation)"; };
    auto rp = [&] { return run.replayHeader() + "case=" + where + "\n"; };
    odesys::OdeSystem sys(1, 0, [](Real, const Vector&, const Vector&, const Vector&, const Vector&, Vector& udot, Vector&) { udot = 0; });
    Subsystem& sub = sys.updDefaultSubsystem();
    BuiltExpr<T> ex; Measure_<T> opnd;
    buildRec<T>(sub, tree, tree.root, ex, opnd, ex.cf);
    typename Measure_<T>::Differentiate dif(sub, opnd);
    State s = sys.makeState(0, Vector(1, 0.0), Vector(1, 1.0), Vector());
    run.expect(!dif.isUsingApproximation(), "derivative/analytic-operand-uses-approximation", wh, rp);
    for (double t : {0.0, 0.13, 0.5, 0.77, 1.0}) {
        s.updTime() = t; sys.realize(s, Stage::Velocity);
        const T& v = dif.getValue(s);
        for (int c = 0; c < NC; ++c) run.residual("derivative/analytic", std::fabs(Num<T>::get(v, c) - cfDer(ex.cf[c], t)) / (cfDer1Max(ex.cf[c]) + 1.0), 1e-13, wh, rp);
    }
}

// run fn in a forked child (the code under test may abort).  Violations found by the child's oracles are passed back and
// recorded in this process; returns 0 if the child ended normally, 2 if it was killed by a signal.
int isolated(verif::Run& run, const std::function<void()>& fn, const std::function<std::string()>& rp, int& sig) {
    fflush(stdout); fflush(stderr);
    int fds[2]; if (pipe(fds) != 0) { run.harnessError("pipe failed"); return 0; }
    pid_t p = fork();
    if (p == 0) {
        close(fds[0]);
        if (!run.verbose) { int fd = open("/dev/null", O_WRONLY); if (fd >= 0) { dup2(fd, 2); } }
        run.acc = verif::Acc();
        try { fn(); } catch (const std::exception& e) { run.violation("uncaught-exception/isolated-case", e.what(), ""); }
        std::string out;
        for (auto& v : run.acc.viols) out += verif::recEscape(v.key) + "\t" + verif::recEscape(v.what) + "\n";
        size_t off = 0; while (off < out.size()) { ssize_t w = write(fds[1], out.data() + off, out.size() - off); if (w <= 0) break; off += (size_t)w; }
        _exit(0);
    }
    close(fds[1]);
    std::string in; char buf[4096]; ssize_t r;
    while ((r = read(fds[0], buf, sizeof buf)) > 0) in.append(buf, (size_t)r);
    close(fds[0]);
    int st = 0; waitpid(p, &st, 0);
    std::istringstream is(in); std::string l;
    while (std::getline(is, l)) { auto f = verif::splitTabs(l); if (f.size() >= 2) { run.acc.transitions++; run.violation(verif::recUnescape(f[0]), verif::recUnescape(f[1]), rp()); } }
    if (WIFSIGNALED(st)) { sig = WTERMSIG(st); return 2; }
    return 0;
}

}  // namespace

int main(int argc, char** argv) {
    verif::Run run("C23", argc, argv);
    run.setDeadline(900, 3600);
    const bool thorough = run.thorough();
    PP = &PSETS[((run.seed % NPSETS) + NPSETS) % NPSETS];

    std::vector<Tree> treesR = makeTrees(false), treesV = makeTrees(true);
    run.rule = "case = (value type, expression tree, wrapper, integrator, report grid, history); every case is one simulation of the real measure "
               "on a minimal ODE system (q = t) over [0,1] with setReturnEveryInternalStep(true); every returned state (step ends and interpolated "
               "reports) is judged against the closed form of the operand c0 + c1 t + sum a sin(w t + p) + cv v(t) and the documented definition of "
               "the wrapper evaluated on the observed step grid. distinct = distinct tuple; non-trivial = the simulation returned at least one state "
               "after the initial one";
    run.assumptions = {"operands are polynomials of degree <= 1 plus up to three sinusoids plus piecewise-constant discrete variables; parameters come from a fixed alphabet selected by VERIF_SEED",
                       "Measure_<Vec3>::Time has no Implementation and Measure_<Vec3>::Sinusoid does not compile, so Vec3 trees use Constant and Variable leaves only",
                       "Measure::SampleAndHold is declared but not implemented: that clause of the property is unexercisable",
                       "depth-2 trees are the shapes Plus(d1,leaf), Minus(leaf,d1), Scale(d1) (d1 = every depth-1 tree)",
                       "Extreme, Delay and approximate Differentiate are judged by their documented algorithms on the observed step grid (every step end is returned), Delay additionally by the linear-interpolation error bound h^2/8 max|f''|",
                       "Variables invalidate Stage::Instance (the lowest stage that does not destroy the continuous variables)"};

    // quick: Real depth<=1 all dims; thorough: Real depth<=2 and Vec3
    std::vector<CaseId> cases;
    auto addCases = [&](int vec, const std::vector<Tree>& trees, int maxDepth, const std::vector<int>& hists, const std::vector<int>& integs, const std::vector<int>& grids) {
        for (int tr = 0; tr < (int)trees.size(); ++tr) {
            if (trees[tr].depth > maxDepth) continue;
            for (int w = 0; w < W_N; ++w) for (int in : integs) for (int g : grids) for (int h : hists) {
                if (h == H_SETVAR && trees[tr].nvar == 0) continue;    // nothing to set
                cases.push_back({vec, tr, w, in, g, h});
            }
        }
    };
    std::vector<int> allI, allG, allH;
    for (int i = 0; i < I_N; ++i) allI.push_back(i);
    for (int i = 0; i < G_N; ++i) allG.push_back(i);
    for (int i = 0; i < H_N; ++i) allH.push_back(i);
    if (thorough) {
        addCases(0, treesR, 1, allH, allI, allG);
        addCases(0, treesR, 2, allH, {I_EE, I_RK3, I_RKM, I_SEE, I_CPODES}, {G_NONE, G_IRREG});
        addCases(1, treesV, 2, allH, {I_EE, I_RKM, I_SEE, I_CPODES}, {G_NONE, G_IRREG});
    }
    else {
        addCases(0, treesR, 1, allH, allI, {G_NONE, G_IRREG});
        addCases(0, treesR, 1, allH, {I_RKM, I_CPODES}, {G_COARSE, G_FINE});
        addCases(0, treesR, 2, {H_PLAIN}, {I_RKM, I_SEE}, {G_IRREG});
        addCases(1, treesV, 1, allH, {I_RKM, I_EE, I_CPODES}, {G_NONE, G_IRREG});
    }
    std::string filter; for (const std::string& a : run.extra) if (a.rfind("--filter=", 0) == 0) filter = a.substr(9);
    auto describe = [&](const CaseId& c) {
        const Tree& t = (c.vec ? treesV : treesR)[c.tree];
        return std::string("type=") + (c.vec ? "Vec3" : "Real") + " expr=" + t.desc + " wrapper=" + WN[c.wrap] + " integrator=" + IN_[c.integ] + " grid=" + GN[c.grid] + " history=" + HN[c.hist];
    };
    if (!filter.empty()) {   // development / mutation runs: only the cases whose description contains the given text
        std::vector<CaseId> kept; for (auto& c : cases) if (describe(c).find(filter) != std::string::npos) kept.push_back(c);
        cases.swap(kept); run.exhaustive = false; run.extraCoverage["filter"] = "\"" + verif::jsonEscape(filter) + "\"";
    }
    auto body = [&](int64_t i) {
        const CaseId& c = cases[i];
        std::string where = describe(c);
        if (getenv("C23_TRACE")) { fprintf(stderr, "CASE %lld %s\n", (long long)i, where.c_str()); fflush(stderr); }
        int64_t before = run.acc.counters["returns"];
        const Tree& tr = (c.vec ? treesV : treesR)[c.tree];
        const bool analyticDiff = c.wrap == W_DIFF && tr.depth == 0;
        const bool approxLow = (c.wrap == W_DIFFA || (c.wrap == W_DIFF && tr.depth > 0)) && !tr.hasTime && !tr.hasSin;
        if ((analyticDiff || approxLow) && c.grid != G_NONE && c.grid != G_IRREG) {
            // these cases end inside Integrator::initialize() whatever the report grid is: simulate them for two grids only
            run.count("isolated-class-cases-skipped-for-other-grids"); run.evaluation(verif::hashStr(where), false); return;
        }
        if (analyticDiff || approxLow) {
            // Run in a child process because the code under test may abort:
            //  * operand supplies its own derivative: Differentiate::Implementation::realizeMeasureAccelerationVirtual() touches its
            //    (unallocated) auto-update variable; the value is therefore checked statically (no realize(Acceleration));
            //  * approximation over an operand that depends on Topology/Model stage only (Constants, Variables): the auto-update
            //    variable is allocated with invalidates = operand.getDependsOnStage(), i.e. Topology or Model.
            if (analyticDiff && c.integ == 0 && c.grid == 0 && c.hist == 0) { if (c.vec) staticAnalyticDiff<Vec3>(run, treesV, c, where); else staticAnalyticDiff<Real>(run, treesR, c, where); }
            int sig = 0;
            auto rp = [&] { return run.replayHeader() + "case=" + where + "\n"; };
            int rc = isolated(run, [&] { if (c.vec) runCase<Vec3>(run, treesV, c, where); else runCase<Real>(run, treesR, c, where); }, rp, sig);
            run.count("isolated-cases");
            if (rc == 2) run.expect(false, analyticDiff ? "Differentiate-analytic/realize-Acceleration-aborts" : "Differentiate-approx/operand-without-time-dependence/aborts",
                                    [&] { return "the simulation terminated with signal " + std::to_string(sig) + " at " + where; }, rp);
            else run.count(analyticDiff ? "isolated:analytic-ended-normally" : "isolated:approx-low-operand-ended-normally");
            run.evaluation(verif::hashStr(where), true);
            return;
        }
        if (c.vec) runCase<Vec3>(run, treesV, c, where); else runCase<Real>(run, treesR, c, where);
        run.evaluation(verif::hashStr(where), run.acc.counters["returns"] > before);
        if (i % 4999 == 0) run.sample(where);
    };
    if (run.replaying()) {     // replay by case description (independent of tier and filter)
        std::string want = run.replayField("case"); int64_t found = -1;
        std::vector<CaseId> all; cases.swap(all); cases.clear();
        // search the complete space
        addCases(0, treesR, 2, allH, allI, allG); addCases(1, treesV, 2, allH, allI, allG);
        for (size_t i = 0; i < cases.size(); ++i) if (describe(cases[i]) == want) { found = (int64_t)i; break; }
        if (found < 0) { fprintf(stderr, "replay: case not found: %s\n", want.c_str()); return 2; }
        body(found);
        for (auto& v : run.acc.viols) printf("  ORACLE key=%s %s\n", v.key.c_str(), v.what.c_str());
        if (!run.acc.viols.empty()) { printf("VIOLATION property=C23 replay=%s\n", run.replayPath.c_str()); return 1; }
        return 0;
    }
    run.parallel("sim", (int64_t)cases.size(), body);
    // ---- every derivative order every leaf and every arithmetic combination offers: getValue(s, k) for k = 0..min(getNumTimeDerivatives(), 6),
    //      and k-fold nested Differentiate (k <= 4) over operands that supply their own derivatives, against closed forms
    {
        struct DItem { int kind, slot, comb; };   // kind: 0 Constant, 1 Time, 2 Sinusoid; comb: 0 leaf, 1 Plus(leaf, Sinusoid slot+1), 2 Minus(Time, leaf), 3 Scale(-1.7, leaf)
        std::vector<DItem> items;
        for (int kind = 0; kind < 3; ++kind) for (int slot = 0; slot < (kind == 1 ? 1 : 3); ++slot) for (int comb = 0; comb < 4; ++comb) items.push_back({kind, slot, comb});
        run.parallel("derivative-orders", (int64_t)items.size(), [&](int64_t idx) {
            const DItem it = items[idx];
            static const char* kn[3] = {"Constant", "Time", "Sinusoid"}; static const char* cn[4] = {"leaf", "Plus(leaf,Sinusoid)", "Minus(Time,leaf)", "Scale(-1.7,leaf)"};
            const std::string where = std::string("leaf=") + kn[it.kind] + "#" + std::to_string(it.slot) + " comb=" + cn[it.comb];
            auto wh = [&] { return where; }; auto rp = [&] { return run.replayHeader() + "case=" + where + "\n"; };
            odesys::OdeSystem sys(1, 0, [](Real, const Vector&, const Vector&, const Vector&, const Vector&, Vector& udot, Vector&) { udot = 0; });
            Subsystem& sub = sys.updDefaultSubsystem();
            // closed form of the k-th derivative of a leaf at time t
            auto leafD = [&](int kind, int slot, int k, double t) -> long double {
                if (kind == 0) return k == 0 ? (long double)PP->c[slot][0] : 0.0L;
                if (kind == 1) return k == 0 ? (long double)t : k == 1 ? 1.0L : 0.0L;
                const long double a = PP->a[slot], w = PP->w[slot], p = PP->p[slot];
                return a * powl(w, k) * sinl(w * t + p + k * 1.57079632679489661923132169163975144L);
            };
            auto mk = [&](int kind, int slot) -> Measure_<Real> {
                if (kind == 0) return Measure_<Real>::Constant(sub, PP->c[slot][0]);
                if (kind == 1) return Measure::Time(sub);
                return Measure::Sinusoid(sub, PP->a[slot], PP->w[slot], PP->p[slot]); };
            Measure_<Real> leaf = mk(it.kind, it.slot), m = leaf;
            const int s2 = (it.slot + 1) % 3;
            if (it.comb == 1) m = Measure_<Real>::Plus(sub, leaf, mk(2, s2));
            else if (it.comb == 2) m = Measure_<Real>::Minus(sub, mk(1, 0), leaf);
            else if (it.comb == 3) m = Measure_<Real>::Scale(sub, -1.7, leaf);
            auto refD = [&](int k, double t) -> long double {
                const long double l = leafD(it.kind, it.slot, k, t);
                if (it.comb == 1) return l + leafD(2, s2, k, t);
                if (it.comb == 2) return leafD(1, 0, k, t) - l;
                if (it.comb == 3) return -1.7L * l;
                return l; };
            std::vector<Measure_<Real>> nest; nest.push_back(m);
            for (int k = 1; k <= 4; ++k) nest.push_back(Measure_<Real>::Differentiate(sub, nest.back()));
            State s = sys.makeState(0, Vector(1, 0.0), Vector(1, 1.0), Vector());
            const int nd = std::min(m.getNumTimeDerivatives(), 6);
            run.evaluation(verif::hashStr(where), true);
            run.count(std::string("derivative-orders-offered:") + kn[it.kind] + "/" + cn[it.comb] + "=" + std::to_string(m.getNumTimeDerivatives()));
            for (double t : {0.0, 0.13, 0.5, 0.77, 1.0}) {
                s.updTime() = t; sys.realize(s, Stage::Velocity);
                for (int k = 0; k <= nd; ++k) {
                    const long double r = refD(k, t); long double sc = 1; for (int j = 0; j < 3; ++j) sc += fabsl((long double)PP->a[j]) * powl(fabsl((long double)PP->w[j]), k);
                    run.residual("derivative-order/getValue(s,k)/k=" + std::to_string(k), (double)(fabsl((long double)m.getValue(s, k) - r) / sc), 1e-13, wh, rp);
                }
                for (int k = 1; k <= 4 && k <= m.getNumTimeDerivatives(); ++k) {
                    if (nest[k].isEmptyHandle()) break;
                    const long double r = refD(k, t); long double sc = 1; for (int j = 0; j < 3; ++j) sc += fabsl((long double)PP->a[j]) * powl(fabsl((long double)PP->w[j]), k);
                    if (Measure_<Real>::Differentiate::getAs(nest[k]).isUsingApproximation()) { run.count("unspecified:nested-differentiate-uses-approximation/k=" + std::to_string(k)); break; }
                    run.residual("derivative-order/nested-Differentiate/k=" + std::to_string(k), (double)(fabsl((long double)nest[k].getValue(s) - r) / sc), 1e-13, wh, rp);
                }
            }
        });
    }
    run.extraCoverage["trees_real"] = std::to_string(treesR.size());
    run.extraCoverage["trees_vec3"] = std::to_string(treesV.size());
    run.extraCoverage["unexercisable_clause"] = "\"SampleAndHold: declared in Measure.h, no Implementation in the tree\"";
    return run.finish();
}
