// C44 -- Impulse solvers return impulses satisfying contact conditions.
//
// Engine E3: every small impulse subproblem of a stated alphabet is handed to the real
// PLUSImpulseSolver / PGSImpulseSolver; the returned impulses, updated constraint-space
// velocities and reported conditions are judged against the documented inequalities and,
// where the problem is a strictly convex box-constrained one, against the unique solution
// found by brute force over active sets in the harness.  See notes/C44.md.
#include "simbody/internal/common.h"
#include "simbody/internal/ImpulseSolver.h"
#include "simbody/internal/PLUSImpulseSolver.h"
#include "simbody/internal/PGSImpulseSolver.h"
#include "verif.h"

#include <csetjmp>
#include <csignal>
#include <sys/time.h>

using namespace SimTK;

// ---------------------------------------------------------------- problem description
enum Kind { kU, kN, kNm, kO, kK, kS, kSm, kB, kT, kTT, kC2, kC3, kF, kFK, kFO, kNKINDS };
static const char* const KNAME[kNKINDS] = {"U", "N", "Nm", "O", "K", "S", "Sm", "B", "T", "TT", "C2", "C3", "F", "FK", "FO"};
static const int KSIZE[kNKINDS] = {1, 1, 1, 1, 1, 1, 1, 1, 1, 2, 2, 3, 3, 3, 3};
// U unconditional; N/Nm frictionless unilateral contact (participating, sign +1/-1); O same but Observing; K same but Known with
// expansion impulse; S/Sm unilateral speed constraint (sign +1/-1); B bounded [-1/2,1/2]; T/TT state-limited friction (1/2 rows,
// known N=1); C2/C3 unconditional normal row + 1/2 constraint-limited friction rows; F/FK/FO unilateral contact with 2 friction rows
// (rows z,x,y), Participating / Known (expanding) / Observing.
static bool plusImplements(Kind k) { return k == kU || k == kN || k == kNm || k == kO || k == kK || k == kF || k == kFK || k == kFO; }
static bool isBoxKind(Kind k) { return k == kU || k == kN || k == kNm || k == kO || k == kK || k == kS || k == kSm || k == kB || k == kT; }

static const double MU = 0.5, PIE = -1.0, KNOWN_N = 1.0, LB = -0.5, UB = 0.5, VROLL = 0.01;

struct Problem {
    int m = 0;
    std::vector<Kind> blocks;
    std::vector<int> L;        // lower triangle, row-major: L(0,0); L(1,0),L(1,1); ...
    int dflag = 0;             // D = dflag * 0.1 * I
    std::vector<int> rhs;      // verrStart pattern in {-1,0,1}
    int applied = 0;           // 0: verrApplied empty; 1: verrApplied = (+.5,-.5,+.5,..)
    std::string str() const {
        std::ostringstream o; o << "m=" << m << " roles=";
        for (size_t i = 0; i < blocks.size(); ++i) o << (i ? "," : "") << KNAME[blocks[i]];
        o << " L="; for (size_t i = 0; i < L.size(); ++i) o << (i ? "," : "") << L[i];
        o << " D=" << dflag << " rhs="; for (size_t i = 0; i < rhs.size(); ++i) o << (i ? "," : "") << rhs[i];
        o << " applied=" << applied;
        return o.str();
    }
};
static std::vector<std::string> splitc(const std::string& s, char c) { std::vector<std::string> v; std::string cur; for (char ch : s) { if (ch == c) { v.push_back(cur); cur.clear(); } else cur += ch; } v.push_back(cur); return v; }
static Problem parseProblem(const std::string& text) {
    Problem p; std::istringstream is(text); std::string tok;
    while (is >> tok) {
        size_t e = tok.find('='); if (e == std::string::npos) continue;
        std::string k = tok.substr(0, e), v = tok.substr(e + 1);
        if (k == "m") p.m = atoi(v.c_str());
        else if (k == "roles") { for (auto& r : splitc(v, ',')) for (int q = 0; q < kNKINDS; ++q) if (r == KNAME[q]) p.blocks.push_back((Kind)q); }
        else if (k == "L") { for (auto& r : splitc(v, ',')) p.L.push_back(atoi(r.c_str())); }
        else if (k == "D") p.dflag = atoi(v.c_str());
        else if (k == "rhs") { for (auto& r : splitc(v, ',')) p.rhs.push_back(atoi(r.c_str())); }
        else if (k == "applied") p.applied = atoi(v.c_str());
    }
    return p;
}

// ---------------------------------------------------------------- small dense helpers (independent of the library's factorizations)
typedef std::vector<double> DV;
struct DM { int n; DV a; DM(int n = 0) : n(n), a(n * n, 0.0) {} double& operator()(int i, int j) { return a[i * n + j]; } double operator()(int i, int j) const { return a[i * n + j]; } };
static bool gaussSolve(DM M, DV b, DV& x) {   // partial pivoting; false if singular
    const int n = M.n; x.assign(n, 0.0);
    for (int c = 0; c < n; ++c) {
        int piv = c; for (int r = c + 1; r < n; ++r) if (std::fabs(M(r, c)) > std::fabs(M(piv, c))) piv = r;
        if (std::fabs(M(piv, c)) < 1e-12) return false;
        if (piv != c) { for (int j = 0; j < n; ++j) std::swap(M(piv, j), M(c, j)); std::swap(b[piv], b[c]); }
        for (int r = c + 1; r < n; ++r) { double f = M(r, c) / M(c, c); for (int j = c; j < n; ++j) M(r, j) -= f * M(c, j); b[r] -= f * b[c]; }
    }
    for (int r = n - 1; r >= 0; --r) { double s = b[r]; for (int j = r + 1; j < n; ++j) s -= M(r, j) * x[j]; x[r] = s / M(r, r); }
    return true;
}
static double minCholPivot(DM M) {    // smallest pivot of an unpivoted Cholesky (<=0 if not PD)
    const int n = M.n; double mn = 1e300;
    for (int c = 0; c < n; ++c) {
        double d = M(c, c); for (int k = 0; k < c; ++k) d -= M(c, k) * M(c, k);
        if (d <= 1e-12) return d;
        mn = std::min(mn, d); d = std::sqrt(d); M(c, c) = d;
        for (int r = c + 1; r < n; ++r) { double s = M(r, c); for (int k = 0; k < c; ++k) s -= M(r, k) * M(c, k); M(r, c) = s / d; }
    }
    return mn;
}

// ---------------------------------------------------------------- the instantiated problem
struct Instance {
    int m; DM A; DV D, verr0, applied, piE; std::vector<int> participating, expanding;
    struct Row { Kind kind; int block; int role; };   // role: 0 normal/scalar, 1,2 friction components
    std::vector<Row> rows;
    std::vector<int> blockRow;        // first row of each block
    bool hasApplied;
};
static Instance instantiate(const Problem& p) {
    Instance I; I.m = p.m; I.A = DM(p.m); I.D.assign(p.m, 0.1 * p.dflag); I.verr0.assign(p.m, 0.0); I.applied.assign(p.m, 0.0); I.piE.assign(p.m, 0.0);
    DM L(p.m); int q = 0; for (int i = 0; i < p.m; ++i) for (int j = 0; j <= i; ++j) L(i, j) = p.L[q++];
    for (int i = 0; i < p.m; ++i) for (int j = 0; j < p.m; ++j) { double s = 0; for (int k = 0; k < p.m; ++k) s += L(i, k) * L(j, k); I.A(i, j) = s; }
    for (int i = 0; i < p.m; ++i) { I.verr0[i] = p.rhs[i]; if (p.applied) I.applied[i] = (i % 2) ? -0.5 : 0.5; }
    I.hasApplied = p.applied != 0;
    int r = 0;
    for (size_t b = 0; b < p.blocks.size(); ++b) {
        Kind k = p.blocks[b]; I.blockRow.push_back(r);
        for (int s = 0; s < KSIZE[k]; ++s) I.rows.push_back({k, (int)b, s});
        switch (k) {
            case kU: case kN: case kNm: case kS: case kSm: case kB: case kT: I.participating.push_back(r); break;
            case kTT: case kC2: I.participating.push_back(r); I.participating.push_back(r + 1); break;
            case kC3: case kF: I.participating.push_back(r); I.participating.push_back(r + 1); I.participating.push_back(r + 2); break;
            case kFK: I.participating.push_back(r + 1); I.participating.push_back(r + 2); I.expanding.push_back(r); I.piE[r] = PIE; break;
            case kK: I.expanding.push_back(r); I.piE[r] = PIE; break;
            default: break;   // kO, kFO: nothing participates
        }
        r += KSIZE[k];
    }
    return I;
}

// ---------------------------------------------------------------- running the real solver (guarded)
struct Result {
    bool ran = false, converged = false; long long iters = 0; double plusErrNorm = 0; std::string fault;       // fault: exception text, "timeout", "signal N"
    DV pi, verrOut, appliedOut;
    std::vector<int> uniCond, fricCond, bndCond, speedCond, stateCond, consCond;   // per block (-99 where not applicable)
};
static sigjmp_buf g_jmp; static volatile sig_atomic_t g_armed = 0;
static void onSignal(int sig) { if (g_armed) { g_armed = 0; siglongjmp(g_jmp, sig); } _exit(70); }
static void installGuards() {
    struct sigaction sa; memset(&sa, 0, sizeof sa); sa.sa_handler = onSignal; sa.sa_flags = SA_NODEFER;
    for (int s : {SIGVTALRM, SIGSEGV, SIGBUS, SIGFPE, SIGABRT}) sigaction(s, &sa, nullptr);
}
static void setTimer(double sec) { itimerval t; memset(&t, 0, sizeof t); t.it_value.tv_sec = (long)sec; t.it_value.tv_usec = (long)((sec - (long)sec) * 1e6); setitimer(ITIMER_VIRTUAL, &t, nullptr); }

static Result runSolver(const Problem& p, const Instance& I, bool plus, double cpuLimit = 2.0, int pgsFixedSweeps = 0) {
    Result R; const int m = I.m;
    Matrix A(m, m); Vector D(m), piExpand(m), verrStart(m), verrApplied, pi;
    for (int i = 0; i < m; ++i) { for (int j = 0; j < m; ++j) A(i, j) = I.A(i, j); D[i] = I.D[i]; piExpand[i] = I.piE[i]; verrStart[i] = I.verr0[i]; }
    if (I.hasApplied) { verrApplied.resize(m); for (int i = 0; i < m; ++i) verrApplied[i] = I.applied[i]; }
    Array_<MultiplierIndex> participating, expanding;
    for (int r : I.participating) participating.push_back(MultiplierIndex(r));
    for (int r : I.expanding) expanding.push_back(MultiplierIndex(r));
    Array_<ImpulseSolver::UncondRT> unc; Array_<ImpulseSolver::UniContactRT> uni; Array_<ImpulseSolver::UniSpeedRT> spd; Array_<ImpulseSolver::BoundedRT> bnd;
    Array_<ImpulseSolver::ConstraintLtdFrictionRT> cons; Array_<ImpulseSolver::StateLtdFrictionRT> stl;
    std::vector<int> where(p.blocks.size(), -1);   // index into the respective RT array
    for (size_t b = 0; b < p.blocks.size(); ++b) {
        const Kind k = p.blocks[b]; const int r = I.blockRow[b];
        auto mi = [](int x) { return MultiplierIndex(x); };
        if (k == kU || k == kC2 || k == kC3) { ImpulseSolver::UncondRT rt; rt.m_constraint = ConstraintIndex((int)b); rt.m_mults.push_back(mi(r)); unc.push_back(rt); }
        if (k == kU) where[b] = (int)unc.size() - 1;
        if (k == kN || k == kNm || k == kO || k == kK || k == kF || k == kFK || k == kFO) {
            ImpulseSolver::UniContactRT rt; rt.m_ucx = UnilateralContactIndex((int)uni.size()); rt.m_Nk = mi(r); rt.m_sign = k == kNm ? -1 : 1;
            rt.m_type = (k == kO || k == kFO) ? ImpulseSolver::Observing : (k == kK || k == kFK) ? ImpulseSolver::Known : ImpulseSolver::Participating;
            rt.m_effCOR = 0; rt.m_effMu = MU;
            if (k == kF || k == kFK || k == kFO) { rt.m_Fk.push_back(mi(r + 1)); rt.m_Fk.push_back(mi(r + 2)); }
            uni.push_back(rt); where[b] = (int)uni.size() - 1;
        }
        if (k == kS || k == kSm) { spd.push_back(ImpulseSolver::UniSpeedRT(mi(r), k == kS ? 1 : -1)); where[b] = (int)spd.size() - 1; }
        if (k == kB) { bnd.push_back(ImpulseSolver::BoundedRT(mi(r), LB, UB)); where[b] = (int)bnd.size() - 1; }
        if (k == kT || k == kTT) { Array_<MultiplierIndex> Fk; Fk.push_back(mi(r)); if (k == kTT) Fk.push_back(mi(r + 1)); stl.push_back(ImpulseSolver::StateLtdFrictionRT(Fk, KNOWN_N, MU)); where[b] = (int)stl.size() - 1; }
        if (k == kC2 || k == kC3) { Array_<MultiplierIndex> Fk, Nk; Nk.push_back(mi(r)); Fk.push_back(mi(r + 1)); if (k == kC3) Fk.push_back(mi(r + 2)); cons.push_back(ImpulseSolver::ConstraintLtdFrictionRT(Fk, Nk, MU)); where[b] = (int)cons.size() - 1; }
    }
    PLUSImpulseSolver plusSolver(VROLL); PGSImpulseSolver pgsSolver(VROLL);
    if (pgsFixedSweeps > 0) { pgsSolver.setConvergenceTol(0); pgsSolver.setMaxIterations(pgsFixedSweeps); }   // never "converged": exactly that many sweeps
    const ImpulseSolver& solver = plus ? (const ImpulseSolver&)plusSolver : (const ImpulseSolver&)pgsSolver;
    int sig = sigsetjmp(g_jmp, 1);
    if (sig == 0) {
        g_armed = 1; setTimer(cpuLimit);
        try { R.converged = solver.solve(0, participating, A, D, expanding, piExpand, verrStart, verrApplied, pi, unc, uni, spd, bnd, cons, stl); R.ran = true; }
        catch (const std::exception& e) { R.fault = std::string("exception: ") + e.what(); }
        setTimer(0); g_armed = 0;
    } else { setTimer(0); R.fault = sig == SIGVTALRM ? "timeout" : "signal " + std::to_string(sig); return R; }
    if (!R.ran) return R;
    R.iters = solver.m_nIters[0];
    if (plus && plusSolver.m_errActive.size() > 0) R.plusErrNorm = plusSolver.m_errActive.norm();
    R.pi.assign(m, 0.0); R.verrOut.assign(m, 0.0);
    if (pi.size() != m || verrStart.size() != m) { R.ran = false; R.fault = "result vectors have the wrong size"; return R; }
    for (int i = 0; i < m; ++i) { R.pi[i] = pi[i]; R.verrOut[i] = verrStart[i]; }
    const size_t nb = p.blocks.size();
    R.uniCond.assign(nb, -99); R.fricCond.assign(nb, -99); R.bndCond.assign(nb, -99); R.speedCond.assign(nb, -99); R.stateCond.assign(nb, -99); R.consCond.assign(nb, -99);
    for (size_t b = 0; b < nb; ++b) {
        const Kind k = p.blocks[b]; if (where[b] < 0) continue;
        if (k == kN || k == kNm || k == kO || k == kK || k == kF || k == kFK || k == kFO) { R.uniCond[b] = uni[where[b]].m_contactCond; R.fricCond[b] = uni[where[b]].m_frictionCond; }
        if (k == kS || k == kSm) R.speedCond[b] = spd[where[b]].m_speedCond;
        if (k == kB) R.bndCond[b] = bnd[where[b]].m_boundedCond;
        if (k == kT || k == kTT) R.stateCond[b] = stl[where[b]].m_frictionCond;
        if (k == kC2 || k == kC3) R.consCond[b] = cons[where[b]].m_frictionCond;
    }
    return R;
}

// Pre-flight in a forked child: does solve() return at all?  PLUS can loop forever on frictional problems (finding PLUS/hang); leaving a
// hung call by siglongjmp from a signal handler may abandon malloc in mid-operation and crash the worker much later, so the class of
// cases where that was observed is tried in a throw-away child first and run in-process only if the child came back.
static std::string preflight(const Problem& p, const Instance& I, bool plus, double cpuLimit = 2.0) {
    fflush(stdout); fflush(stderr);
    pid_t c = fork();
    if (c < 0) return "";
    if (c == 0) {
        for (int sg : {SIGVTALRM, SIGSEGV, SIGBUS, SIGFPE, SIGABRT}) signal(sg, SIG_DFL);
        setTimer(cpuLimit);
        g_armed = 0;
        Result R = runSolver(p, I, plus, cpuLimit);   // inside the child the in-process guard is harmless: any outcome ends the child
        _exit(R.ran ? 0 : R.fault == "timeout" ? 71 : R.fault.rfind("exception", 0) == 0 ? 73 : 72);
    }
    int st = 0; waitpid(c, &st, 0);
    if (WIFEXITED(st) && WEXITSTATUS(st) == 0) return "";
    if (WIFEXITED(st) && WEXITSTATUS(st) == 71) return "timeout";
    if (WIFSIGNALED(st) && WTERMSIG(st) == SIGVTALRM) return "timeout";
    if (WIFEXITED(st) && WEXITSTATUS(st) == 73) return "exception: thrown in the pre-flight child";
    return WIFSIGNALED(st) ? "signal " + std::to_string(WTERMSIG(st)) : "crash (child exit " + std::to_string(WEXITSTATUS(st)) + ")";
}

// ---------------------------------------------------------------- reference: unique solution of the box-constrained problem
// min 1/2 pi'(A+D)pi - rhs'pi  s.t. lo<=pi<=hi on participating rows, pi=0 elsewhere; brute force over active sets.
struct Box { DV lo, hi; };
static bool boxReference(const Instance& I, const DV& Duse, const Box& bx, const DV& rhs, DV& pistar) {
    const int m = I.m; const std::vector<int>& P = I.participating; const int p = (int)P.size();
    int64_t combos = 1; for (int i = 0; i < p; ++i) combos *= 3;
    for (int64_t c = 0; c < combos; ++c) {
        std::vector<int> st(p); int64_t cc = c; bool ok = true;
        for (int i = 0; i < p; ++i) { st[i] = (int)(cc % 3); cc /= 3; if (st[i] == 1 && !std::isfinite(bx.lo[P[i]])) ok = false; if (st[i] == 2 && !std::isfinite(bx.hi[P[i]])) ok = false; }
        if (!ok) continue;
        DV pi(m, 0.0); std::vector<int> fr;
        for (int i = 0; i < p; ++i) { if (st[i] == 0) fr.push_back(P[i]); else pi[P[i]] = st[i] == 1 ? bx.lo[P[i]] : bx.hi[P[i]]; }
        if (!fr.empty()) {
            DM M((int)fr.size()); DV b(fr.size());
            for (size_t a = 0; a < fr.size(); ++a) { double s = rhs[fr[a]]; for (int j = 0; j < m; ++j) { bool isFree = std::find(fr.begin(), fr.end(), j) != fr.end(); if (!isFree) s -= (I.A(fr[a], j) + (j == fr[a] ? Duse[j] : 0)) * pi[j]; } b[a] = s;
                for (size_t c2 = 0; c2 < fr.size(); ++c2) M((int)a, (int)c2) = I.A(fr[a], fr[c2]) + (a == c2 ? Duse[fr[a]] : 0); }
            DV x; if (!gaussSolve(M, b, x)) continue;
            for (size_t a = 0; a < fr.size(); ++a) pi[fr[a]] = x[a];
        }
        // KKT
        bool kkt = true;
        for (int i = 0; i < p && kkt; ++i) {
            const int r = P[i]; double w = rhs[r]; for (int j = 0; j < m; ++j) w -= (I.A(r, j) + (j == r ? Duse[j] : 0)) * pi[j];
            if (st[i] == 0) { if (pi[r] < bx.lo[r] - 1e-12 || pi[r] > bx.hi[r] + 1e-12) kkt = false; }
            else if (st[i] == 1) { if (w > 1e-12) kkt = false; }      // at the lower bound the residual must push down
            else { if (w < -1e-12) kkt = false; }                   // at the upper bound the residual must push up
        }
        if (kkt) { pistar = pi; return true; }
    }
    return false;
}

// ---------------------------------------------------------------- oracle
struct Fails { std::vector<std::pair<std::string, std::string>> v; int64_t n = 0; void add(const std::string& k, const std::string& w) { v.emplace_back(k, w); } };
struct Resid { std::map<std::string, std::pair<double, double>> worst; };   // name -> (value, bound) of the worst seen in this case

// Evaluate everything the documentation promises.  `Dpi` is the diagonal applied to the unknown impulse (the true D, or 0 to
// model a solver that ignores D for pi); the expansion impulse always sees the true D.  With equalities=false only the
// inequalities (which the solvers enforce by projection / pruning regardless of convergence) and the verr update are judged.
static void judge(const Problem& p, const Instance& I, const Result& R, bool plus, const DV& Dpi, Fails& F,
                  const std::function<void(const char*, double, double)>& resid, bool equalities = true) {
    const int m = I.m; const std::string S = plus ? "PLUS" : "PGS";
    auto num = [](double v) { return verif::fmtd(v); };
    double piScale = 1; for (double v : R.pi) piScale = std::max(piScale, std::fabs(v));
    for (int i = 0; i < m; ++i) if (!std::isfinite(R.pi[i]) || !std::isfinite(R.verrOut[i])) { ++F.n; F.add(S + "/non-finite-result", "pi or verr is not finite at row " + std::to_string(i)); return; }
    // w = verrStart + verrApplied - (A+D)(pi+piE), computed here
    DV w(m);
    for (int i = 0; i < m; ++i) { double s = I.verr0[i] + I.applied[i]; for (int j = 0; j < m; ++j) s -= I.A(i, j) * (R.pi[j] + I.piE[j]); s -= Dpi[i] * R.pi[i] + I.D[i] * I.piE[i]; w[i] = s; }
    // the returned verr is the documented update of verrStart
    { double e = 0; for (int i = 0; i < m; ++i) e = std::max(e, std::fabs(R.verrOut[i] - w[i])); resid("verr-update", e / piScale, 1e-9); }
    // rows that do not participate get no impulse
    { std::vector<bool> part(m, false); for (int r : I.participating) part[r] = true;
      ++F.n; for (int i = 0; i < m; ++i) if (!part[i] && R.pi[i] != 0) { F.add(S + "/nonparticipating-impulse", "row " + std::to_string(i) + " does not participate but got impulse " + num(R.pi[i])); break; } }
    const double tolI = 1e-9 * piScale;
    const double tolW = (plus ? 1e-8 : 1e-3) * piScale;   // PLUS: direct solves; PGS: iteration stopped at RMS 1e-6
    const char* eqU = plus ? "PLUS-unconditional-verr" : "PGS-unconditional-verr";
    const char* eqN = plus ? "PLUS-active-normal-verr" : "PGS-active-normal-verr";
    const char* eqR = plus ? "PLUS-rolling-slip" : "PGS-rolling-slip";
    const double eqB = plus ? 1e-8 : 1e-3;
    for (size_t b = 0; b < p.blocks.size(); ++b) {
        const Kind k = p.blocks[b]; const int r = I.blockRow[b];
        const std::string at = " (block " + std::to_string(b) + " " + KNAME[k] + ", row " + std::to_string(r) + ")";
        if (k == kN || k == kNm || k == kF) {
            const double sgn = k == kNm ? -1 : 1;
            resid("normal-never-pulls", std::max(0.0, sgn * R.pi[r]) / piScale, 1e-9);
            const int uc = R.uniCond[b];
            ++F.n;
            if (uc == ImpulseSolver::UniActive) { if (equalities) resid(eqN, std::fabs(w[r]) / piScale, eqB); }
            else if (uc == ImpulseSolver::UniOff) {
                // PGS: the projection sets the impulse to exactly 0.  PLUS: the condition describes the LAST sliding interval; impulse
                // accumulated in earlier intervals legitimately remains (then the velocity clause below is what matters).
                if (!plus && R.pi[r] != 0) F.add(S + "/uniOff-with-impulse", "contact reported UniOff but normal impulse is " + num(R.pi[r]) + at);
                if (equalities && sgn * w[r] < -tolW) F.add(S + "/uniOff-approaching", "contact reported UniOff (no impulse) but the resulting normal velocity " + num(w[r]) + " is approaching" + at);
            } else F.add(S + "/contact-condition-unset", "participating contact has condition " + std::to_string(uc) + at);
        }
        if (k == kO || k == kFO || k == kK || k == kFK) { ++F.n; if (R.pi[r] != 0) F.add(S + "/nonparticipating-impulse", "observing/known normal row got impulse " + num(R.pi[r]) + at); }
        if (k == kF || k == kFK) {
            const double N = std::fabs(R.pi[r] + I.piE[r]); const double fx = R.pi[r + 1], fy = R.pi[r + 2], f = std::sqrt(fx * fx + fy * fy);
            resid(plus ? "PLUS-friction-cone" : "PGS-friction-cone", std::max(0.0, f - MU * N) / piScale, 1e-7);
            const int fc = R.fricCond[b]; const double wt = std::sqrt(w[r + 1] * w[r + 1] + w[r + 2] * w[r + 2]);
            ++F.n;
            const bool normalOff = k == kF && R.uniCond[b] == ImpulseSolver::UniOff;
            if (normalOff) { if (!plus && f > tolI) F.add(S + "/friction-without-normal", "normal is off but friction impulse is " + num(f) + at); }   // PLUS: see above; the cone clause covers it
            else if (fc == ImpulseSolver::Rolling) { if (equalities) resid(eqR, wt / piScale, eqB); }
            else if (fc == ImpulseSolver::Sliding || fc == ImpulseSolver::Impending) {
                if (!plus && equalities) {   // PGS: scaled onto the cone, and (fixed point of the projection) not adding energy
                    resid("PGS-sliding-on-cone", std::fabs(f - MU * N) / piScale, 1e-7);
                    resid("PGS-sliding-dissipative", std::max(0.0, -(fx * w[r + 1] + fy * w[r + 2])) / (piScale * (1 + wt)), 1e-3);
                }
            } else if (!(plus && fc == ImpulseSolver::FricOff)) F.add(S + "/friction-condition-unset", "friction condition is " + std::to_string(fc) + at);
        }
        if (k == kS || k == kSm) { const double sgn = k == kS ? 1 : -1; ++F.n; if (sgn * R.pi[r] > tolI) F.add(S + "/uniSpeed-sign", "unilateral speed impulse " + num(R.pi[r]) + " has the forbidden sign" + at); }
        if (k == kB) {
            ++F.n; if (R.pi[r] < LB - tolI || R.pi[r] > UB + tolI) F.add(S + "/bounded-out-of-bounds", "bounded impulse " + num(R.pi[r]) + " outside [" + num(LB) + "," + num(UB) + "]" + at);
            const int bc = R.bndCond[b];
            if (!plus) { ++F.n;
                if (bc == ImpulseSolver::Engaged) { if (equalities) resid("PGS-engaged-verr", std::fabs(w[r]) / piScale, 1e-3); }
                else if (bc == ImpulseSolver::SlipHigh) { if (R.pi[r] != UB || (equalities && w[r] < -tolW)) F.add(S + "/bounded-slipHigh-inconsistent", "SlipHigh with pi=" + num(R.pi[r]) + " verr=" + num(w[r]) + at); }
                else if (bc == ImpulseSolver::SlipLow) { if (R.pi[r] != LB || (equalities && w[r] > tolW)) F.add(S + "/bounded-slipLow-inconsistent", "SlipLow with pi=" + num(R.pi[r]) + " verr=" + num(w[r]) + at); }
                else F.add(S + "/bounded-condition-unset", "bounded condition is " + std::to_string(bc) + at); }
        }
        if (k == kT || k == kTT) {
            double f = R.pi[r] * R.pi[r]; if (k == kTT) f += R.pi[r + 1] * R.pi[r + 1]; f = std::sqrt(f);
            ++F.n; if (f > MU * KNOWN_N + 1e-7 * piScale) F.add(S + "/stateLtd-cone", "state-limited friction impulse " + num(f) + " exceeds mu*N=" + num(MU * KNOWN_N) + at);
            if (!plus && equalities && R.stateCond[b] == ImpulseSolver::Rolling) { double wt = w[r] * w[r]; if (k == kTT) wt += w[r + 1] * w[r + 1]; resid(eqR, std::sqrt(wt) / piScale, eqB); }
        }
        if (k == kC2 || k == kC3) {
            double f = R.pi[r + 1] * R.pi[r + 1]; if (k == kC3) f += R.pi[r + 2] * R.pi[r + 2]; f = std::sqrt(f);
            ++F.n; if (f > MU * std::fabs(R.pi[r]) + 1e-7 * piScale) F.add(S + "/consLtd-cone", "constraint-limited friction impulse " + num(f) + " exceeds mu*|N|=" + num(MU * std::fabs(R.pi[r])) + at);
            if (equalities) resid(eqU, std::fabs(w[r]) / piScale, eqB);
            if (!plus && equalities && R.consCond[b] == ImpulseSolver::Rolling) { double wt = w[r + 1] * w[r + 1]; if (k == kC3) wt += w[r + 2] * w[r + 2]; resid(eqR, std::sqrt(wt) / piScale, eqB); }
        }
        if (k == kU && equalities) resid(eqU, std::fabs(w[r]) / piScale, eqB);
    }
    // reference solution where the problem is a strictly convex box problem
    bool box = equalities; for (Kind k : p.blocks) if (!isBoxKind(k)) box = false;
    if (box) {
        Box bx; bx.lo.assign(m, -INFINITY); bx.hi.assign(m, INFINITY);
        for (size_t b = 0; b < p.blocks.size(); ++b) { const Kind k = p.blocks[b]; const int r = I.blockRow[b];
            if (k == kN || k == kS) bx.hi[r] = 0; if (k == kNm || k == kSm) bx.lo[r] = 0; if (k == kB) { bx.lo[r] = LB; bx.hi[r] = UB; } if (k == kT) { bx.lo[r] = -MU * KNOWN_N; bx.hi[r] = MU * KNOWN_N; } }
        DV rhs(m); for (int i = 0; i < m; ++i) { double s = I.verr0[i] + I.applied[i]; for (int j = 0; j < m; ++j) s -= I.A(i, j) * I.piE[j]; s -= I.D[i] * I.piE[i]; rhs[i] = s; }
        DV pistar;
        if (boxReference(I, Dpi, bx, rhs, pistar)) {
            double e = 0, sc = 1; for (int i = 0; i < m; ++i) { e = std::max(e, std::fabs(R.pi[i] - pistar[i])); sc = std::max(sc, std::fabs(pistar[i])); }
            resid(plus ? "PLUS-vs-unique-solution" : "PGS-vs-unique-solution", e / sc, plus ? 1e-8 : 1e-3);
        } else { ++F.n; F.add("harness/no-reference", "brute force found no KKT point for a strictly convex box problem"); }
    }
    // Frictional problems whose STICK solution is feasible: treat the friction rows of every F/FK contact as unconditional and solve the
    // box problem; if every contact's friction impulse is then strictly inside its cone, that point satisfies all Coulomb conditions and,
    // the problem being strictly monotone (A+D positive definite), it is the unique solution.
    bool fric = false, stickClass = equalities; for (Kind k : p.blocks) { if (k == kF || k == kFK) fric = true; else if (!isBoxKind(k) && k != kFO) stickClass = false; }
    // PLUS classifies a contact whose START velocity slips faster than the transition speed as Sliding and applies sliding friction
    // along that direction for the interval (documented in ImpulseSolver.h), so for PLUS the stick solution is the required answer
    // only if every frictional contact starts at rest tangentially.
    if (plus && fric) for (size_t b = 0; b < p.blocks.size(); ++b) { const Kind k = p.blocks[b]; if (k != kF && k != kFK) continue; const int r = I.blockRow[b];
        if (std::hypot(I.verr0[r + 1], I.verr0[r + 2]) > VROLL) stickClass = false; }
    if (fric && stickClass) {
        Box bx; bx.lo.assign(m, -INFINITY); bx.hi.assign(m, INFINITY);
        for (size_t b = 0; b < p.blocks.size(); ++b) { const Kind k = p.blocks[b]; const int r = I.blockRow[b];
            if (k == kN || k == kS || k == kF) bx.hi[r] = 0; if (k == kNm || k == kSm) bx.lo[r] = 0; if (k == kB) { bx.lo[r] = LB; bx.hi[r] = UB; } if (k == kT) { bx.lo[r] = -MU * KNOWN_N; bx.hi[r] = MU * KNOWN_N; } }
        DV rhs(m); for (int i = 0; i < m; ++i) { double s = I.verr0[i] + I.applied[i]; for (int j = 0; j < m; ++j) s -= I.A(i, j) * I.piE[j]; s -= I.D[i] * I.piE[i]; rhs[i] = s; }
        DV ps;
        if (boxReference(I, Dpi, bx, rhs, ps)) {
            bool feasible = true;
            for (size_t b = 0; b < p.blocks.size(); ++b) { const Kind k = p.blocks[b]; if (k != kF && k != kFK) continue; const int r = I.blockRow[b];
                if (std::hypot(ps[r + 1], ps[r + 2]) > MU * std::fabs(ps[r] + I.piE[r]) - 1e-6) feasible = false; }
            if (feasible) { double e = 0, sc = 1; for (int i = 0; i < m; ++i) { e = std::max(e, std::fabs(R.pi[i] - ps[i])); sc = std::max(sc, std::fabs(ps[i])); }
                resid(plus ? "PLUS-vs-feasible-stick-solution" : "PGS-vs-feasible-stick-solution", e / sc, plus ? 1e-8 : 1e-3); }
        }
    }
}

// ---------------------------------------------------------------- enumeration helpers
static void compositions(int m, const std::vector<Kind>& kinds, std::vector<Kind>& cur, std::vector<std::vector<Kind>>& out) {
    if (m == 0) { out.push_back(cur); return; }
    for (Kind k : kinds) if (KSIZE[k] <= m) { cur.push_back(k); compositions(m - KSIZE[k], kinds, cur, out); cur.pop_back(); }
}
struct AFamily { std::vector<std::vector<int>> Ls; };
static AFamily makeLs(int m, const std::vector<int>& diagAlpha, const std::vector<int>& offAlpha, bool alsoLastZero) {
    AFamily F; const int nOff = m * (m - 1) / 2;
    std::vector<std::vector<int>> diags;
    { std::vector<int> d(m, 0); std::function<void(int)> rec = [&](int i) { if (i == m) { diags.push_back(d); return; } for (int v : diagAlpha) { d[i] = v; rec(i + 1); } }; rec(0); }
    if (alsoLastZero) { std::vector<int> d(m, 1); d[m - 1] = 0; diags.push_back(d); }
    std::vector<std::vector<int>> offs;
    { std::vector<int> o(nOff, 0); std::function<void(int)> rec = [&](int i) { if (i == nOff) { offs.push_back(o); return; } for (int v : offAlpha) { o[i] = v; rec(i + 1); } }; rec(0); }
    for (auto& d : diags) for (auto& o : offs) { std::vector<int> L; int q = 0; for (int i = 0; i < m; ++i) for (int j = 0; j <= i; ++j) L.push_back(i == j ? d[i] : o[q++]); F.Ls.push_back(L); }
    return F;
}

struct Item { int m; int roleIdx; int lIdx; };

// ================================================================ solveBilateral
// A bilateral case: m rows, A = L L', a D vector of one of four kinds, an ORDERED list of participating rows, rhs.
struct BCase {
    int m = 0; std::vector<int> L; int dkind = 0;      // 0: zeros (size m), 1: empty vector (size 0, documented as allowed), 2: uniform 0.1, 3: non-uniform
    int dvariant = 0;                                  // which non-uniform set: (.1,.2,.3,.4) / (.4,.3,.2,.1) / (.1,.4,.2,.3)
    std::vector<int> part, rhs;
    DV dvalues() const { static const double NU[3][4] = {{.1, .2, .3, .4}, {.4, .3, .2, .1}, {.1, .4, .2, .3}}; DV d(m, 0.0);
        for (int i = 0; i < m; ++i) d[i] = dkind == 2 ? 0.1 : dkind == 3 ? NU[dvariant][i] : 0.0; return d; }
    std::string str() const { std::ostringstream o; o << "m=" << m << " part="; for (size_t i = 0; i < part.size(); ++i) o << (i ? "," : "") << part[i];
        o << " L="; for (size_t i = 0; i < L.size(); ++i) o << (i ? "," : "") << L[i]; o << " Dkind=" << dkind << " Dvariant=" << dvariant << " rhs="; for (size_t i = 0; i < rhs.size(); ++i) o << (i ? "," : "") << rhs[i]; return o.str(); }
};
static BCase parseBCase(const std::string& text) {
    BCase c; std::istringstream is(text); std::string tok;
    while (is >> tok) { size_t e = tok.find('='); if (e == std::string::npos) continue; std::string k = tok.substr(0, e), v = tok.substr(e + 1);
        if (k == "m") c.m = atoi(v.c_str()); else if (k == "Dkind") c.dkind = atoi(v.c_str()); else if (k == "Dvariant") c.dvariant = atoi(v.c_str());
        else if (k == "part") { for (auto& r : splitc(v, ',')) c.part.push_back(atoi(r.c_str())); } else if (k == "L") { for (auto& r : splitc(v, ',')) c.L.push_back(atoi(r.c_str())); }
        else if (k == "rhs") { for (auto& r : splitc(v, ',')) c.rhs.push_back(atoi(r.c_str())); } }
    return c;
}
static DM matrixOf(int m, const std::vector<int>& Lp) { DM L(m), A(m); int q = 0; for (int i = 0; i < m; ++i) for (int j = 0; j <= i; ++j) L(i, j) = Lp[q++];
    for (int i = 0; i < m; ++i) for (int j = 0; j < m; ++j) { double s = 0; for (int k = 0; k < m; ++k) s += L(i, k) * L(j, k); A(i, j) = s; } return A; }
struct BResult { bool ran = false, ret = false; std::string fault; DV pi; };
static BResult runBilateral(const BCase& c, const DM& Ad, bool plus, int pgsFixedSweeps = 0) {
    BResult R; const int m = c.m; const DV d = c.dvalues();
    Matrix A(m, m); Vector D(c.dkind == 1 ? 0 : m), rhs(m), pi(m);
    for (int i = 0; i < m; ++i) { for (int j = 0; j < m; ++j) A(i, j) = Ad(i, j); if (c.dkind != 1) D[i] = d[i]; rhs[i] = c.rhs[i]; pi[i] = 7.0; }   // pi arrives dirty: non-participating entries must come back 0
    Array_<MultiplierIndex> part; for (int r : c.part) part.push_back(MultiplierIndex(r));
    PLUSImpulseSolver plusSolver(VROLL); PGSImpulseSolver pgsSolver(VROLL);
    if (pgsFixedSweeps > 0) { pgsSolver.setConvergenceTol(0); pgsSolver.setMaxIterations(pgsFixedSweeps); }
    const ImpulseSolver& solver = plus ? (const ImpulseSolver&)plusSolver : (const ImpulseSolver&)pgsSolver;
    int sig = sigsetjmp(g_jmp, 1);
    if (sig == 0) { g_armed = 1; setTimer(2.0);
        try { R.ret = solver.solveBilateral(part, A, D, rhs, pi); R.ran = true; } catch (const std::exception& e) { R.fault = std::string("exception: ") + e.what(); }
        setTimer(0); g_armed = 0;
    } else { setTimer(0); R.fault = sig == SIGVTALRM ? "timeout" : "signal " + std::to_string(sig); return R; }
    if (R.ran) { if (pi.size() != m) { R.ran = false; R.fault = "pi has the wrong size"; } else { R.pi.resize(m); for (int i = 0; i < m; ++i) R.pi[i] = pi[i]; } }
    return R;
}
// residual of P(A+Dx)P' pi = P rhs on the participating rows, for a given diagonal Dx, relative to max(1,|pi|,|rhs|)
static double bilateralResidual(const BCase& c, const DM& A, const DV& Dx, const DV& pi) {
    double e = 0, sc = 1; for (int r : c.part) { double s = c.rhs[r]; for (int j : c.part) s -= (A(r, j) + (j == r ? Dx[r] : 0)) * pi[j]; e = std::max(e, std::fabs(s)); sc = std::max(sc, std::max(std::fabs(pi[r]), std::fabs((double)c.rhs[r]))); }
    return e / sc;
}

struct RE { const char* name; double v, bound; };


int main(int argc, char** argv) {
    verif::Run run("C44", argc, argv);
    run.setDeadline(600, 2400);
    const bool thorough = run.thorough();
    installGuards();
    run.rule = "a case = (m rows, an assignment of row roles = composition of m into blocks from {U,N,Nm,O,K,S,Sm,B,T,TT,C2,C3,F,FK,FO}, A=L*L' with integer lower-triangular L, D in {0,0.1 I}, verrStart in {-1,0,1}^m, verrApplied in {none, alternating +-0.5}, solver); "
               "quick: m<=3, every role assignment, diag(L) in {1,2} (+ one rank-deficient family), offdiag(L) in {-1,0,1}; thorough: m<=3 with diag(L) in {0,1,2}, sign -1 contacts and verrApplied, and m=4 over roles {U,N,B,T,K,O,F,FK} with unit-diagonal L and verrStart in {-1,1}^4; "
               "PGS runs every assignment without unilateral-speed rows, PLUS every assignment over the roles it implements {U,N,Nm,O,K,F,FK,FO}; the other role/solver pairs are probed one forked child per case; cases are distinct by construction; "
               "ill-posed = A+D not positive definite on the participating rows: skipped and counted; non-trivial = at least one participating row";
    run.assumptions = {"mu=0.5, expansion impulse -1, bounds [-0.5,0.5], known normal force 1, rolling/sliding transition speed 0.01 are fixed representatives", "phase 0 only (the phase selects statistics counters only)",
                       "one multiplier per unconditional constraint", "friction rows directly follow their normal row"};

    auto collect = [](std::vector<RE>& out) { return [&out](const char* name, double v, double bound) { out.push_back({name, v, bound}); }; };
    auto anyBad = [](const std::vector<RE>& v) { for (auto& e : v) if (!(e.v <= e.bound)) return true; return false; };
    auto firstBad = [](const std::vector<RE>& v, const Fails& F) -> std::string { if (!F.v.empty()) return F.v[0].first; for (auto& e : v) if (!(e.v <= e.bound)) return e.name; return "?"; };


    // One solveBilateral case: returns (key, what) pairs; records residuals through `rec`.
    auto judgeBilateral = [&](const BCase& c, bool plus, const std::function<void(const std::string&, double, double)>& rec,
                              std::vector<std::pair<std::string, std::string>>& viol, std::map<std::string, int64_t>& cnt, bool verbose) {
        const std::string S = plus ? "PLUS" : "PGS"; const DM A = matrixOf(c.m, c.L); const DV D = c.dvalues(); const int np = (int)c.part.size();
        DM M(np); for (int a = 0; a < np; ++a) for (int b = 0; b < np; ++b) M(a, b) = A(c.part[a], c.part[b]) + (a == b ? D[c.part[a]] : 0);
        if (minCholPivot(M) < 1e-6) { cnt["bilateral:skipped:ill-posed"]++; return; }
        BResult R = runBilateral(c, A, plus);
        run.evaluationDistinct(true);
        if (!R.ran) { viol.emplace_back("solveBilateral/" + S + "/" + (R.fault == "timeout" ? "hang" : R.fault.rfind("exception", 0) == 0 ? "exception" : "crash"), "solveBilateral did not return normally: " + R.fault); return; }
        cnt["bilateral:" + S + ":solved"]++;
        run.outcome(verif::hashMix(verif::hashStr("bilateral" + S), (uint64_t)(R.ret * 64 + c.dkind * 16 + np)));
        if (verbose) { printf("returned %s\npi =", R.ret ? "true" : "false"); for (double v : R.pi) printf(" %.12g", v); printf("\n"); }
        for (double v : R.pi) if (!std::isfinite(v)) { viol.emplace_back("solveBilateral/" + S + "/non-finite-result", "pi is not finite"); return; }
        // rows that do not participate come back exactly zero (documented: Pbar*pi = 0), whatever pi held on entry
        { std::vector<bool> in(c.m, false); for (int r : c.part) in[r] = true; bool ok = true; for (int i = 0; i < c.m; ++i) if (!in[i] && R.pi[i] != 0) ok = false;
          if (!ok) viol.emplace_back("solveBilateral/" + S + "/nonparticipating-impulse", "a row that does not participate came back with a non-zero impulse"); }
        if (plus && !R.ret) viol.emplace_back("solveBilateral/PLUS/returned-false", "the direct solve reported failure on a positive definite system");
        if (!plus && !R.ret) { cnt["bilateral:PGS:returned-not-converged(equalities-not-demanded)"]++; return; }
        const double res = bilateralResidual(c, A, D, R.pi), bound = plus ? 1e-8 : 1e-3;
        if (res <= bound) { rec("solveBilateral/" + S + "/equalities", res, bound); return; }
        // The participating equations do not hold.  Which D did the solver use?  (a) none: the known kind of defect "D ignored";
        // (b) anything else (e.g. D entries of other rows): the equalities key.
        const DV zero(c.m, 0.0);
        if ((c.dkind == 2 || c.dkind == 3) && bilateralResidual(c, A, zero, R.pi) <= bound) {
            viol.emplace_back("solveBilateral/" + S + "/D-ignored", "the result solves the participating equations with D dropped, not [A+D]pi = rhs (residual " + verif::fmtd(res) + ")"); return; }
        if (!plus) {   // PGS claimed convergence: is the iteration itself sound (400 sweeps, early exit disabled)?
            BResult R2 = runBilateral(c, A, false, 400);
            if (R2.ran && bilateralResidual(c, A, D, R2.pi) <= bound) { viol.emplace_back("solveBilateral/PGS/premature-convergence", "returned true with residual " + verif::fmtd(res) + "; 400 sweeps without the early exit reach the solution"); return; } }
        rec("solveBilateral/" + S + "/equalities", res, bound);
    };

    // ---- replay of one recorded case
    if (run.replaying() && run.replayField("mode") == "bilateral") {
        BCase c = parseBCase(run.replayField("case")); const bool plus = run.replayField("solver") == "PLUS";
        printf("solveBilateral case: %s solver=%s\n", c.str().c_str(), plus ? "PLUS" : "PGS");
        DM A = matrixOf(c.m, c.L); DV D = c.dvalues();
        printf("A ="); for (int i = 0; i < c.m; ++i) { printf(i ? "\n   " : " "); for (int j = 0; j < c.m; ++j) printf(" %g", A(i, j)); } printf("\nD ="); if (c.dkind == 1) printf(" (empty vector)"); else for (double v : D) printf(" %g", v); printf("\n");
        std::vector<std::pair<std::string, std::string>> viol; std::map<std::string, int64_t> cnt; bool bad = false;
        judgeBilateral(c, plus, [&](const std::string& n, double v, double b) { printf("  residual %-36s %.3g (bound %.3g)%s\n", n.c_str(), v, b, v <= b ? "" : "  <-- exceeds"); if (!(v <= b)) bad = true; }, viol, cnt, true);
        for (auto& kv : cnt) printf("  %s\n", kv.first.c_str());
        for (auto& v : viol) printf("ORACLE %s: %s\n", v.first.c_str(), v.second.c_str());
        if (bad || !viol.empty()) { printf("VIOLATION property=C44 replay=%s\n", run.replayPath.c_str()); return 1; }
        printf("no violation on replay\n"); return 0;
    }
    if (run.replaying()) {
        Problem p = parseProblem(run.replayField("case")); const bool plus = run.replayField("solver") == "PLUS";
        Instance I = instantiate(p);
        printf("case: %s solver=%s\n", p.str().c_str(), plus ? "PLUS" : "PGS");
        printf("A ="); for (int i = 0; i < I.m; ++i) { printf(i ? "\n   " : " "); for (int j = 0; j < I.m; ++j) printf(" %g", I.A(i, j)); } printf("\nD = %g I, participating rows:", I.D.empty() ? 0.0 : I.D[0]); for (int r : I.participating) printf(" %d", r); printf("\n");
        Result R = runSolver(p, I, plus);
        if (!R.ran) { printf("solver did not return: %s\nVIOLATION property=C44 replay=%s\n", R.fault.c_str(), run.replayPath.c_str()); return 1; }
        printf("returned %s after %lld sweeps%s\npi   =", R.converged ? "true" : "false", R.iters, plus ? (" (final Newton error norm " + verif::fmtd(R.plusErrNorm) + ")").c_str() : ""); for (double v : R.pi) printf(" %.12g", v); printf("\nverr =" ); for (double v : R.verrOut) printf(" %.12g", v); printf("\n");
        for (size_t b = 0; b < p.blocks.size(); ++b) printf("block %zu %s: uniCond=%d fricCond=%d bndCond=%d speedCond=%d stateCond=%d consCond=%d\n", b, KNAME[p.blocks[b]], R.uniCond[b], R.fricCond[b], R.bndCond[b], R.speedCond[b], R.stateCond[b], R.consCond[b]);
        Fails F; std::vector<RE> res; judge(p, I, R, plus, I.D, F, collect(res), plus || R.converged);
        for (auto& e : res) printf("  residual %-28s %.3g (bound %.3g)%s\n", e.name, e.v, e.bound, e.v <= e.bound ? "" : "  <-- exceeds");
        for (auto& f : F.v) printf("ORACLE %s: %s\n", f.first.c_str(), f.second.c_str());
        if (!plus && R.converged && (anyBad(res) || !F.v.empty())) { Result R2 = runSolver(p, I, false, 4.0, 400); printf("400 sweeps without early exit: pi ="); for (double v : R2.pi) printf(" %.12g", v); printf("\n"); }
        if (anyBad(res) || !F.v.empty()) { printf("VIOLATION property=C44 replay=%s\n", run.replayPath.c_str()); return 1; }
        printf("no violation on replay\n"); return 0;
    }

    // ---- spaces
    const int MMAX = thorough ? 4 : 3;
    std::vector<Kind> allKinds = {kU, kN, kO, kK, kS, kSm, kB, kT, kTT, kC2, kC3, kF, kFK, kFO};
    if (thorough) allKinds.push_back(kNm);
    const std::vector<Kind> kinds4 = {kU, kN, kB, kT, kK, kO, kF, kFK};
    std::vector<std::vector<std::vector<Kind>>> roles(MMAX + 1);
    std::vector<AFamily> fam(MMAX + 1);
    for (int m = 1; m <= MMAX; ++m) {
        std::vector<Kind> cur; compositions(m, m <= 3 ? allKinds : kinds4, cur, roles[m]);
        if (m <= 3) fam[m] = makeLs(m, thorough ? std::vector<int>{0, 1, 2} : std::vector<int>{1, 2}, {-1, 0, 1}, !thorough);
        else fam[m] = makeLs(m, {1}, {-1, 0, 1}, false);
    }
    std::vector<Item> items; int64_t skippedSpeedOnly = 0;
    for (int m = 1; m <= MMAX; ++m) for (int ri = 0; ri < (int)roles[m].size(); ++ri) {
        bool hasSpeed = false; for (Kind k : roles[m][ri]) if (k == kS || k == kSm) hasSpeed = true;
        if (hasSpeed) { skippedSpeedOnly++; continue; }   // neither solver implements unilateral-speed rows: see the probes section
        for (int li = 0; li < (int)fam[m].Ls.size(); ++li) items.push_back({m, ri, li});
    }
    run.count("skipped:role-assignments-with-uniSpeed-rows(probed-separately)", skippedSpeedOnly);
    { std::string ra = "{", mt = "{"; for (int m = 1; m <= MMAX; ++m) { ra += (m > 1 ? ", " : "") + ("\"m" + std::to_string(m) + "\": ") + std::to_string(roles[m].size()); mt += (m > 1 ? ", " : "") + ("\"m" + std::to_string(m) + "\": ") + std::to_string(fam[m].Ls.size()); }
      run.extraCoverage["role_assignments"] = ra + "}"; run.extraCoverage["matrices"] = mt + "}"; }

    // One case on one solver, in this process.
    auto runCase = [&](const Problem& p, const Instance& I, bool plus, std::map<std::string, int64_t>& cnt, int64_t& trans) {
        const std::string S = plus ? "PLUS" : "PGS";
        bool frictionalCase = false; for (Kind k : p.blocks) if (k == kF || k == kFK) frictionalCase = true;
        Result R;
        if (plus && frictionalCase) { std::string pf = preflight(p, I, true); if (!pf.empty()) { R.ran = false; R.fault = pf; cnt["PLUS:preflight-child-did-not-return"]++; } else R = runSolver(p, I, plus); }
        else R = runSolver(p, I, plus);
        run.evaluationDistinct(!I.participating.empty());
        std::vector<std::pair<std::string, std::string>> viol;
        auto where = [&] { return p.str() + " solver=" + S; };
        auto replay = [&] { return run.replayHeader() + "case=" + p.str() + "\nsolver=" + S + "\n"; };
        // record residuals; `onlyInequalities` drops the equality-type residuals (used when their failure has been attributed to one root cause)
        auto record = [&](const std::vector<RE>& res, const Fails& F, bool onlyInequalities) {
            for (auto& e : res) { std::string n = e.name; bool ineq = n == "verr-update" || n == "normal-never-pulls" || n.find("friction-cone") != std::string::npos;
                if (onlyInequalities && !ineq) continue; run.residual(e.name, e.v, e.bound, where, replay); }
            for (auto& f : F.v) { bool ineq = f.first.find("out-of-bounds") != std::string::npos || f.first.find("-cone") != std::string::npos || f.first.find("nonparticipating") != std::string::npos || f.first.find("uniSpeed-sign") != std::string::npos
                                              || f.first.find("uniOff-with-impulse") != std::string::npos || f.first.find("condition-unset") != std::string::npos || f.first.find("non-finite") != std::string::npos || f.first.find("friction-without-normal") != std::string::npos;
                if (onlyInequalities && !ineq) continue; viol.push_back(f); }
            trans += F.n;
        };
        if (!R.ran) viol.emplace_back(S + "/" + (R.fault == "timeout" ? "hang" : R.fault.rfind("exception", 0) == 0 ? "exception" : "crash"), "solver did not return normally: " + R.fault);
        else if (!plus) {
            cnt["PGS:solved"]++;
            Fails F; std::vector<RE> res; judge(p, I, R, false, I.D, F, collect(res), R.converged);
            if (R.converged) { double worst = 0; for (auto& e : res) { std::string n = e.name; if (n.find("-verr") != std::string::npos || n.find("rolling-slip") != std::string::npos || n.find("vs-unique") != std::string::npos || n.find("vs-feasible-stick") != std::string::npos) worst = std::max(worst, e.v); }
                int dec = worst <= 0 ? -17 : (int)std::floor(std::log10(worst)); if (dec < -12) dec = -12; cnt["PGS:worst-equality-residual-decade:1e" + std::to_string(dec) + ":sweeps" + (R.iters <= 2 ? "<=2" : ">2")]++; }
            if (!R.converged) { cnt["PGS:returned-not-converged(equalities-not-demanded)"]++; record(res, F, false); }
            else if (!anyBad(res) && F.v.empty()) record(res, F, false);
            else {
                // Claimed convergence but a clause fails.  Is the iteration itself sound?  Run exactly 400 sweeps with the early exit
                // disabled; if that iterate satisfies every clause, the defect is the premature exit.
                Result R2 = runSolver(p, I, false, 4.0, 400);
                Fails F2; std::vector<RE> res2; if (R2.ran) judge(p, I, R2, false, I.D, F2, collect(res2), true);
                if (R2.ran && !anyBad(res2) && F2.v.empty()) {
                    cnt["PGS:premature-exit-after-sweeps:" + std::to_string(std::min<long long>(R.iters, 9))]++;
                    viol.emplace_back("PGS/premature-convergence", "solve() returned true after " + std::to_string(R.iters) + " sweep(s) although " + firstBad(res, F) + " fails; 400 sweeps of the same iteration without the early exit satisfy every clause");
                    record(res, F, true);
                } else record(res, F, false);
            }
        } else {
            cnt["PLUS:solved"]++;
            if (!R.converged && !I.participating.empty()) cnt["PLUS:returned-false"]++;
            Fails F; std::vector<RE> res; judge(p, I, R, true, I.D, F, collect(res), true);
            const bool failed = anyBad(res) || !F.v.empty();
            if (!failed) record(res, F, false);
            else if (p.dflag) {
                // D != 0 and the documented [A+D] semantics fails: report that, then judge the result for D dropped from the unknown impulse
                viol.emplace_back("PLUS/D-ignored", "D is not applied to the unknown impulse: " + firstBad(res, F) + " fails for [A+D]");
                const int np = (int)I.participating.size(); DM M(np); for (int a = 0; a < np; ++a) for (int b = 0; b < np; ++b) M(a, b) = I.A(I.participating[a], I.participating[b]);
                if (np > 0 && minCholPivot(M) >= 1e-6) {
                    DV zero(I.m, 0.0); Fails F0; std::vector<RE> res0; judge(p, I, R, true, zero, F0, collect(res0), true);
                    if (anyBad(res0) || !F0.v.empty()) cnt["PLUS:D-nonzero-case-also-fails-with-D-dropped(see-D=0-twin)"]++;
                    trans += F0.n;
                } else cnt["PLUS:D-ignored-and-A-singular(not-judged-further)"]++;
            } else if ([&] { for (auto& e : res) if (std::string(e.name) == "PLUS-vs-feasible-stick-solution" && !(e.v <= e.bound)) return true; return false; }()) {
                // the exact answer is the stick solution: whatever PLUS did instead is not one of the slip-related defects below
                cnt["PLUS:differs-from-feasible-stick-solution"]++;
                record(res, F, false);
            } else if (R.plusErrNorm > 1e-8) {
                cnt[std::string("PLUS:newton-not-converged:") + firstBad(res, F)]++;
                viol.emplace_back("PLUS/newton-not-converged", "the Newton iteration of the last sliding interval ended with error norm " + verif::fmtd(R.plusErrNorm) + " (tolerance 1e-10) and the returned impulse fails " + firstBad(res, F));
                // the cone clause is part of this root cause here, not a separate finding
                std::vector<RE> resF; for (auto& e : res) if (std::string(e.name).find("friction-cone") == std::string::npos) resF.push_back(e);
                record(resF, F, true);
            } else {
                bool approaching = false; for (auto& f : F.v) if (f.first == "PLUS/uniOff-approaching") approaching = true;
                // Newton converged, yet the cone is violated: which friction condition does the contact report, and is it slipping at all?
                bool coneBad = false; for (auto& e : res) if (std::string(e.name) == "PLUS-friction-cone" && !(e.v <= e.bound)) coneBad = true;
                if (coneBad) {
                    std::string cls = "other";
                    for (size_t b = 0; b < p.blocks.size(); ++b) { const Kind k = p.blocks[b]; if (k != kF && k != kFK) continue; const int r = I.blockRow[b];
                        const double N = std::fabs(R.pi[r] + I.piE[r]), f = std::hypot(R.pi[r + 1], R.pi[r + 2]);
                        if (f <= MU * N + 1e-7 * std::max(1.0, f)) continue;
                        double wx = 0, wy = 0; { double sx = I.verr0[r + 1] + I.applied[r + 1], sy = I.verr0[r + 2] + I.applied[r + 2]; for (int j = 0; j < I.m; ++j) { sx -= I.A(r + 1, j) * (R.pi[j] + I.piE[j]); sy -= I.A(r + 2, j) * (R.pi[j] + I.piE[j]); } wx = sx; wy = sy; }
                        const double wt = std::hypot(wx, wy);
                        cls = std::string(ImpulseSolver::getFricCondName((ImpulseSolver::FricCond)R.fricCond[b])) + (wt <= 1e-6 ? "-with-zero-slip" : "-slipping"); break; }
                    cnt["PLUS:cone-violated-with-converged-newton:" + cls]++;
                    if (cls == "Impending-with-zero-slip") {
                        viol.emplace_back("PLUS/impending-slip-collapses-to-stick", "a contact switched to Impending slip ends with zero slip velocity (the impending-slip equations |v|*pi_xy + mu*v*pi_z = 0 are satisfied trivially by v=0) and a friction impulse outside the cone: " + firstBad(res, F));
                        std::vector<RE> resF; for (auto& e : res) if (std::string(e.name).find("friction-cone") == std::string::npos) resF.push_back(e);
                        record(resF, F, false);
                    } else record(res, F, false);
                } else if (approaching) { viol.emplace_back("PLUS/pruned-contact-approaching", "a contact released by the active-set pruning ends with an approaching velocity and no impulse (it is never re-activated); " + F.v[0].second); record(res, F, true); }
                else record(res, F, false);
            }
        }
        if (R.ran) {
            uint64_t oh = verif::hashStr(S); for (int c : R.uniCond) oh = verif::hashMix(oh, (uint64_t)(c + 100)); for (int c : R.fricCond) oh = verif::hashMix(oh, (uint64_t)(c + 100)); for (int c : R.bndCond) oh = verif::hashMix(oh, (uint64_t)(c + 100));
            for (Kind k : p.blocks) oh = verif::hashMix(oh, (uint64_t)k);
            run.outcome(verif::hashMix(oh, R.converged));
        }
        for (auto& v : viol) {
            cnt["oracle:" + v.first + ":FAIL"]++;
            int64_t& seen = run.acc.violCountByKey[v.first];
            if (seen >= (int64_t)run.maxViolsPerKey) { seen++; continue; }   // only the first few per key carry text
            run.violation(v.first, v.second + " | " + where(), replay());
        }
    };

    std::string only; for (size_t i = 0; i + 1 < run.extra.size(); ++i) if (run.extra[i] == "--only") only = run.extra[i + 1];   // development aid: run one section
    if (!only.empty()) run.exhaustive = false;

    // (this cheap section runs first so that a deadline hit in the long "cases" section cannot skip it)
    // ---- solveBilateral: every non-empty subset of participating rows, in ascending and in descending order (thorough: every order),
    //      x A family x D kind {zeros, empty vector, uniform 0.1, non-uniform} x rhs sign patterns x both solvers; m <= 4 in both tiers.
    {
        struct BItem { int m; int lIdx; };
        std::vector<AFamily> bfam(5); std::vector<BItem> bitems;
        for (int m = 1; m <= 4; ++m) { bfam[m] = m <= 3 ? makeLs(m, {1, 2}, {-1, 0, 1}, true) : makeLs(m, {1}, {-1, 0, 1}, false);
            for (int li = 0; li < (int)bfam[m].Ls.size(); ++li) bitems.push_back({m, li}); }
        const int seedVariant = (int)(((run.seed % 3) + 3) % 3);
        run.extraCoverage["bilateral_nonuniform_D_variant"] = thorough ? "\"all three\"" : std::to_string(seedVariant);
        if (only.empty() || only == "bilateral")
        run.parallel("bilateral", (int64_t)bitems.size(), [&](int64_t idx) {
            const BItem it = bitems[idx]; const int m = it.m;
            std::map<std::string, int64_t> cnt; int64_t trans = 0;
            BCase c; c.m = m; c.L = bfam[m].Ls[it.lIdx];
            // ordered participation lists
            std::vector<std::vector<int>> lists;
            for (int mask = 1; mask < (1 << m); ++mask) { std::vector<int> asc; for (int i = 0; i < m; ++i) if (mask >> i & 1) asc.push_back(i);
                if (!thorough) { lists.push_back(asc); if (asc.size() > 1) lists.push_back(std::vector<int>(asc.rbegin(), asc.rend())); }
                else { std::vector<int> pm = asc; do lists.push_back(pm); while (std::next_permutation(pm.begin(), pm.end())); } }
            const int base = m <= 3 ? 3 : 2; int64_t nrhs = 1; for (int i = 0; i < m; ++i) nrhs *= base;
            for (auto& pl : lists) { c.part = pl;
                for (int dk = 0; dk < 4; ++dk) for (int dv = 0; dv < (dk == 3 && thorough ? 3 : 1); ++dv) { c.dkind = dk; c.dvariant = dk == 3 ? (thorough ? dv : seedVariant) : 0;
                    for (int64_t rc = 0; rc < nrhs; ++rc) {
                        c.rhs.assign(m, 0); { int64_t t = rc; for (int i = 0; i < m; ++i) { int d = (int)(t % base); c.rhs[i] = base == 3 ? d - 1 : (d ? 1 : -1); t /= base; } }
                        for (int plus = 0; plus < 2; ++plus) {
                            const std::string S = plus ? "PLUS" : "PGS";
                            auto where = [&] { return "solveBilateral " + c.str() + " solver=" + S; };
                            auto replay = [&] { return run.replayHeader() + "mode=bilateral\ncase=" + c.str() + "\nsolver=" + S + "\n"; };
                            std::vector<std::pair<std::string, std::string>> viol;
                            judgeBilateral(c, plus != 0, [&](const std::string& n, double v, double b) { run.residual(n, v, b, where, replay); }, viol, cnt, false);
                            trans += 3;
                            for (auto& v : viol) { cnt["oracle:" + v.first + ":FAIL"]++; int64_t& seen = run.acc.violCountByKey[v.first]; if (seen >= (int64_t)run.maxViolsPerKey) { seen++; continue; } run.violation(v.first, v.second + " | " + where(), replay()); }
                        } } } }
            for (auto& kv : cnt) run.count(kv.first, kv.second);
            run.transition(trans);
        });
    }

    if (only.empty() || only == "cases")
    run.parallel("cases", (int64_t)items.size(), [&](int64_t idx) {
        const Item it = items[idx];
        Problem p; p.m = it.m; p.blocks = roles[it.m][it.roleIdx]; p.L = fam[it.m].Ls[it.lIdx];
        bool plusOk = true; for (Kind k : p.blocks) if (!plusImplements(k)) plusOk = false;
        std::map<std::string, int64_t> cnt; int64_t trans = 0;
        const int base = it.m <= 3 ? 3 : 2;     // verrStart alphabet {-1,0,1} (m<=3) or {-1,1} (m=4)
        int64_t nrhs = 1; for (int i = 0; i < it.m; ++i) nrhs *= base;
        // variants (D, applied): quick (0,0),(1,0) (+(0,1) for assignments with a frictional contact); thorough adds (0,1) everywhere; m=4: (0,0) only
        std::vector<std::pair<int, int>> variants = {{0, 0}};
        bool frictional = false; for (Kind k : p.blocks) if (k == kF || k == kFK) frictional = true;
        if (it.m <= 3) { variants.push_back({1, 0}); if (thorough || frictional) variants.push_back({0, 1}); }   // quick: verrApplied only with frictional contacts
        for (auto& var : variants) {
            p.dflag = var.first; p.applied = var.second;
            for (int64_t rc = 0; rc < nrhs; ++rc) {
                p.rhs.assign(it.m, 0); { int64_t c = rc; for (int i = 0; i < it.m; ++i) { int d = (int)(c % base); p.rhs[i] = base == 3 ? d - 1 : (d ? 1 : -1); c /= base; } }
                Instance I = instantiate(p);
                const int np = (int)I.participating.size();
                if (np > 0) { DM M(np); for (int a = 0; a < np; ++a) for (int b = 0; b < np; ++b) M(a, b) = I.A(I.participating[a], I.participating[b]) + (a == b ? I.D[I.participating[a]] : 0);
                    if (minCholPivot(M) < 1e-6) { cnt["skipped:ill-posed"] += 1 + (plusOk ? 1 : 0); continue; } }
                runCase(p, I, false, cnt, trans);
                if (plusOk) runCase(p, I, true, cnt, trans);
                if (run.verbose) printf("%s\n", p.str().c_str());
            }
        }
        if (idx % 7919 == 11) { p.rhs.assign(it.m, 1); Instance I = instantiate(p); Result R = runSolver(p, I, false); std::string s = p.str() + " solver=PGS -> pi="; if (R.ran) for (double v : R.pi) s += verif::jsonNum(v) + " "; run.sample(s); }
        for (auto& kv : cnt) run.count(kv.first, kv.second);
        run.transition(trans);
    });

    // ---- probes of role/solver pairs whose implementation is missing (source: "TODO"): each case in a forked child, m <= 2
    {
        struct Probe { Problem p; bool plus; };
        std::vector<Probe> probes;
        const int PM = 2;   // one fork per probe: m <= 2 in both tiers
        for (int m = 1; m <= PM; ++m) for (auto& rl : roles[m]) {
            bool plusOk = true, hasSpeed = false; for (Kind k : rl) { if (!plusImplements(k)) plusOk = false; if (k == kS || k == kSm) hasSpeed = true; }
            if (plusOk && !hasSpeed) continue;
            AFamily f = makeLs(m, {1}, {-1, 0, 1}, false);
            for (auto& L : f.Ls) { const int64_t nrhs = (int64_t)(std::pow(3.0, m) + 0.5);
                for (int64_t rc = 0; rc < nrhs; ++rc) { Problem p; p.m = m; p.blocks = rl; p.L = L; p.rhs.assign(m, 0); int64_t c = rc; for (int i = 0; i < m; ++i) { p.rhs[i] = (int)(c % 3) - 1; c /= 3; }
                    if (!plusOk) probes.push_back({p, true}); if (hasSpeed) probes.push_back({p, false}); } }
        }
        if (only.empty() || only == "probes")
        run.parallel("probes", (int64_t)probes.size(), [&](int64_t idx) {
            const Probe& pr = probes[idx]; const std::string S = pr.plus ? "PLUS" : "PGS";
            std::string role; for (Kind k : pr.p.blocks) if (pr.plus ? !plusImplements(k) : (k == kS || k == kSm)) { role = KNAME[k]; if (role == "Sm") role = "S"; if (role == "TT") role = "T"; if (role == "C3") role = "C2"; break; }
            int fd[2]; if (pipe(fd) != 0) { run.harnessError("pipe failed"); return; }
            fflush(stdout); fflush(stderr);
            pid_t c = fork();
            if (c == 0) {
                close(fd[0]);
                Instance I = instantiate(pr.p); Result R = runSolver(pr.p, I, pr.plus, 1.0);
                std::string out;
                if (!R.ran) out = "FAULT\t" + R.fault + "\n";
                else { Fails F; std::vector<RE> res; judge(pr.p, I, R, pr.plus, I.D, F, collect(res), pr.plus || R.converged);
                    if (!F.v.empty()) out = "VIOL\t" + F.v[0].first + ": " + F.v[0].second + "\n"; else if (anyBad(res)) out = "VIOL\tresidual " + firstBad(res, F) + " exceeds its bound\n"; else out = "OK\n"; }
                ssize_t wr = write(fd[1], out.data(), out.size()); (void)wr; _exit(0);
            }
            close(fd[1]); std::string got; char buf[512]; ssize_t nr; while ((nr = read(fd[0], buf, sizeof buf)) > 0) got.append(buf, nr); close(fd[0]);
            int st = 0; waitpid(c, &st, 0);
            run.evaluationDistinct(true); run.transition(1);
            std::string outcome = got.substr(0, got.find('\t') == std::string::npos ? got.find('\n') : got.find('\t'));
            if (got.empty()) outcome = "DIED";
            run.count("probe:" + S + ":" + role + ":" + outcome);
            run.outcome(verif::hashStr(S + role + outcome));
            if (outcome != "OK") {
                std::string detail = got.empty() ? "child died (status " + std::to_string(st) + ")" : got.substr(0, got.size() - 1);
                run.violation(S + "/role-not-implemented/" + role, S + " does not implement role " + role + ": " + detail + " | " + pr.p.str(), run.replayHeader() + "case=" + pr.p.str() + "\nsolver=" + S + "\n");
            }
        });
    }
    return run.finish();
}
