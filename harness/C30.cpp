// C30 -- Polynomial roots are roots.
// Engine E3 (enum): bounded-exhaustive enumeration of polynomial inputs to the six
// PolynomialRootFinder::findRoots entry points (real/complex x quadratic closed form /
// cubic / general degree), double and float instantiations.
//   int     : ALL integer polynomials, coefficients in {-2..2}, degree 1..5 (thorough: more)
//   gauss   : ALL Gaussian-integer polynomials, coefficients in {-1,0,1}+{-1,0,1}i, degree 1..4
//   rootsC  : ALL multisets (size 2..6) of roots from an 11-value complex alphabet, expanded
//             exactly in 128-bit Gaussian integers
//   rootsR  : ALL multisets of real factors (7 linear + 2 conjugate-pair quadratics), degree 2..6
//   ladder  : degree 7..20 x {Wilkinson, Chebyshev, x^n-1, all-ones, alphabet cycle, 2^k roots,
//             x^n-i, complex alphabet cycle}
//   zerolead: leading coefficient zero => ZeroLeadingCoefficient on every entry point
// each under a table of exact coefficient scalings / root scalings ("value sets").
// Oracle (independent, long-double arithmetic written here): exact count of finite roots,
// relative backward error |p(r)| / sum|a_k||r|^(n-k), Vieta (all elementary symmetric functions
// for degree <= 6, e1 and e_n above), conjugate pairing for the real entry points, and
// condition-scaled distance to the known roots for the root-built families.
#include "SimTKcommon.h"
#include "verif.h"

#include <complex>

using namespace SimTK;
typedef __int128 i128;
typedef long double LD;
typedef std::complex<LD> CL;
typedef std::complex<double> CD;

// ------------------------------------------------------------------ exact Gaussian-integer polynomials
struct GI { i128 re = 0, im = 0; };
static GI gi(long long r, long long i = 0) { GI g; g.re = r; g.im = i; return g; }
static GI gmul(GI a, GI b) { GI r; r.re = a.re * b.re - a.im * b.im; r.im = a.re * b.im + a.im * b.re; return r; }
typedef std::vector<GI> GPoly;   // decreasing powers
// p * (a x - b)   (root b/a)
static GPoly mulLin(const GPoly& p, GI a, GI b) {
    GPoly r(p.size() + 1);
    for (size_t i = 0; i < p.size(); ++i) {
        GI t = gmul(a, p[i]); r[i].re += t.re; r[i].im += t.im;
        GI u = gmul(b, p[i]); r[i + 1].re -= u.re; r[i + 1].im -= u.im;
    }
    return r;
}
static GPoly mulPoly(const GPoly& p, const GPoly& q) {
    GPoly r(p.size() + q.size() - 1);
    for (size_t i = 0; i < p.size(); ++i) for (size_t j = 0; j < q.size(); ++j) {
        GI t = gmul(p[i], q[j]); r[i + j].re += t.re; r[i + j].im += t.im;
    }
    return r;
}

// a rational Gaussian root num/den (den real positive)
struct RootSpec { const char* name; long long nre, nim, den; };
static const RootSpec kAlphabetC[] = {
    {"0", 0, 0, 1}, {"1", 1, 0, 1}, {"-1", -1, 0, 1}, {"2", 2, 0, 1}, {"i", 0, 1, 1}, {"-i", 0, -1, 1},
    {"1+i", 1, 1, 1}, {"1-i", 1, -1, 1}, {"1e-3", 1, 0, 1000}, {"1e3", 1000, 0, 1}, {"1+1e-6", 1000001, 0, 1000000}};
static const int kNAlphaC = 11;
// real factors: 7 linear, 2 conjugate-pair quadratics (each listed as its roots)
struct RealUnit { const char* name; int deg; int r0, r1; };   // indices into kAlphabetC
static const RealUnit kUnitsR[] = {
    {"0", 1, 0, -1}, {"1", 1, 1, -1}, {"-1", 1, 2, -1}, {"2", 1, 3, -1}, {"1e-3", 1, 8, -1}, {"1e3", 1, 9, -1},
    {"1+1e-6", 1, 10, -1}, {"+-i", 2, 4, 5}, {"1+-i", 2, 6, 7}};
static const int kNUnitsR = 9;

// ------------------------------------------------------------------ a case: coefficients handed to the library
struct Case {
    std::vector<CD> a;            // decreasing powers, exactly what the library sees (double)
    bool realCoefs = true;
    std::vector<CL> trueRoots;    // empty if unknown
    std::string desc;
    std::string vclass;           // value-set class: plain / cscale / rscale
    std::string family;           // int / gauss / rootsC / rootsR / ladder
};

struct VSet { const char* name; double cs; int rsExp; };
static const VSet kVSets[] = {
    {"plain", 1.0, 0},
    {"coef*2^30", 1073741824.0, 0},
    {"coef*2^-30", 1.0 / 1073741824.0, 0},
    {"coef*-3", -3.0, 0},
    {"root*2^8", 1.0, 8},
    {"root*2^-8", 1.0, -8},
    // coefficient moduli beyond sqrt(DBL_MAX) / below sqrt(DBL_MIN): the solvers' internal rescaling paths (roots unchanged)
    {"coef*2^540", 3.599131035634557e+162, 0},
    {"coef*2^-520", 2.913414348125081e-157, 0}};
static const int kNVSets = 8;

// largest cluster multiplicity of a root multiset (1 and 1+1e-6 count as one cluster)
static int maxMultiplicity(const std::vector<int>& idx) {
    int cnt[16] = {0}; int m = 0;
    for (int i : idx) cnt[i == 10 ? 1 : i]++;
    for (int i = 0; i < 16; ++i) m = std::max(m, cnt[i]);
    return m;
}

static Case makeCase(const GPoly& p, const std::vector<int>& rootIdx, const VSet& vs, const std::string& desc) {
    Case c; c.desc = desc + " set=" + vs.name;
    c.family = desc.substr(0, desc.find_first_of(" ["));
    if (c.family == "rootsC" || c.family == "rootsR") c.family = maxMultiplicity(rootIdx) <= 3 ? "roots(m<=3)" : "roots(m>=4)";
    if (c.family == "ladder") { size_t p0 = desc.find(' ') + 1; c.family = "ladder-" + desc.substr(p0, desc.find(' ', p0) - p0) + ((int)p.size() - 1 >= 17 ? "(n>=17)" : "(n<17)"); }
    c.vclass = vs.rsExp > 0 ? "rup" : vs.rsExp < 0 ? "rdown" : (vs.cs > 1e100 ? "cextreme-up" : vs.cs > 0 && vs.cs < 1e-100 ? "cextreme-down" : vs.cs != 1.0 ? "cscale" : "plain");
    int n = (int)p.size() - 1;
    c.realCoefs = true;
    for (int k = 0; k <= n; ++k) {
        double re = (double)p[k].re, im = (double)p[k].im;       // correctly rounded int128 -> double
        double f = vs.cs * std::ldexp(1.0, vs.rsExp * k);       // roots multiplied by 2^rsExp
        re *= f; im *= f;
        if (im != 0) c.realCoefs = false;
        c.a.push_back(CD(re, im));
    }
    for (int idx : rootIdx) {
        const RootSpec& r = kAlphabetC[idx];
        CL z((LD)r.nre / (LD)r.den, (LD)r.nim / (LD)r.den);
        c.trueRoots.push_back(z * std::ldexp((LD)1, vs.rsExp));
    }
    return c;
}

// ------------------------------------------------------------------ entry points
enum Entry { RQ, CQ, RC, CC, RG, CG, NENTRY };
static const char* kEntryName[] = {"realQuadratic", "complexQuadratic", "realCubic", "complexCubic", "realGeneral", "complexGeneral"};

template <class T>
static void callLibrary(Entry e, const std::vector<std::complex<T>>& a, std::vector<std::complex<T>>& roots) {
    int n = (int)a.size() - 1;
    roots.assign(n, std::complex<T>(0, 0));
    switch (e) {
        case RQ: { Vec<3, T> c(a[0].real(), a[1].real(), a[2].real()); Vec<2, std::complex<T>> r; PolynomialRootFinder::findRoots(c, r); roots[0] = r[0]; roots[1] = r[1]; break; }
        case CQ: { Vec<3, std::complex<T>> c(a[0], a[1], a[2]); Vec<2, std::complex<T>> r; PolynomialRootFinder::findRoots(c, r); roots[0] = r[0]; roots[1] = r[1]; break; }
        case RC: { Vec<4, T> c(a[0].real(), a[1].real(), a[2].real(), a[3].real()); Vec<3, std::complex<T>> r; PolynomialRootFinder::findRoots(c, r); for (int i = 0; i < 3; ++i) roots[i] = r[i]; break; }
        case CC: { Vec<4, std::complex<T>> c(a[0], a[1], a[2], a[3]); Vec<3, std::complex<T>> r; PolynomialRootFinder::findRoots(c, r); for (int i = 0; i < 3; ++i) roots[i] = r[i]; break; }
        case RG: { Vector_<T> c(n + 1); for (int i = 0; i <= n; ++i) c[i] = a[i].real(); Vector_<std::complex<T>> r(n); PolynomialRootFinder::findRoots(c, r); for (int i = 0; i < n; ++i) roots[i] = r[i]; break; }
        case CG: { Vector_<std::complex<T>> c(n + 1); for (int i = 0; i <= n; ++i) c[i] = a[i]; Vector_<std::complex<T>> r(n); PolynomialRootFinder::findRoots(c, r); for (int i = 0; i < n; ++i) roots[i] = r[i]; break; }
        default: break;
    }
}

// ------------------------------------------------------------------ bottleneck matching (n <= 20)
static bool tryKuhn(int u, const std::vector<std::vector<char>>& adj, std::vector<int>& matchR, std::vector<char>& seen) {
    int n = (int)adj.size();
    for (int v = 0; v < n; ++v) if (adj[u][v] && !seen[v]) {
        seen[v] = 1;
        if (matchR[v] < 0 || tryKuhn(matchR[v], adj, matchR, seen)) { matchR[v] = u; return true; }
    }
    return false;
}
// smallest t such that a perfect matching exists using only pairs with cost <= t
static LD bottleneck(const std::vector<std::vector<LD>>& cost) {
    int n = (int)cost.size();
    std::vector<LD> all;
    for (auto& r : cost) for (LD v : r) all.push_back(std::isnan(v) ? INFINITY : v);
    std::sort(all.begin(), all.end());
    all.erase(std::unique(all.begin(), all.end()), all.end());
    size_t lo = 0, hi = all.size() - 1;
    auto feasible = [&](LD t) {
        std::vector<std::vector<char>> adj(n, std::vector<char>(n, 0));
        for (int i = 0; i < n; ++i) for (int j = 0; j < n; ++j) adj[i][j] = cost[i][j] <= t;
        std::vector<int> matchR(n, -1);
        for (int u = 0; u < n; ++u) { std::vector<char> seen(n, 0); if (!tryKuhn(u, adj, matchR, seen)) return false; }
        return true;
    };
    if (!feasible(all[hi])) return INFINITY;
    while (lo < hi) { size_t mid = (lo + hi) / 2; if (feasible(all[mid])) hi = mid; else lo = mid + 1; }
    return all[lo];
}

// ------------------------------------------------------------------ the oracle
// Bounds: see notes/C30.md for the calibration (worst value on the unchanged tree per oracle).
static const double kEta = 1e-6;            // relative backward error: closed forms, cpoly, and the reference eta of the root-distance tolerance
static const double kEtaRpoly = 2e-3;       // rpoly (real cubic / general) on the integer, Gaussian and ladder families
static const double kEtaRpolyRoots = 1e-1;  // rpoly on the root-multiset families, largest cluster multiplicity <= 3 (>= 4: recorded, not judged)
static const double kEtaRpolyDist = 1e-2;   // reference eta of the root-distance tolerance for rpoly on the root-multiset families
static const double kEtaFloat = 1e-1;       // float instantiation
static const double kVieta = 1000, kVietaFloat = 1000;
static const double kRootDist = 5;
static const long double kVietaFloor = 1e-13L;
static const double kPair = 1e-12, kPairFloat = 1e-5;

static std::string coefStr(const std::vector<CD>& a) {
    std::string s = "[";
    for (size_t i = 0; i < a.size(); ++i) {
        if (i) s += ", ";
        s += verif::fmtd(a[i].real());
        if (a[i].imag() != 0) s += (a[i].imag() > 0 ? "+" : "") + verif::fmtd(a[i].imag()) + "i";
    }
    return s + "]";
}

template <class T>
static void checkOne(verif::Run& run, const Case& c, Entry e, bool isFloat) {
    const int n = (int)c.a.size() - 1;
    // oracle / violation-key name: entry point + input class.  For the closed-form quadratics the
    // class is the branch (b == 0 or not); elsewhere the family (or ladder shape) and the scaling class.
    std::string ename = std::string(isFloat ? "float:" : "") + kEntryName[e] + "/";
    if (e == RQ || e == CQ) ename += std::string((c.a[1] == CD(0, 0)) ? "b=0" : "b!=0") + (c.vclass.rfind("cextreme", 0) == 0 ? "@" + c.vclass : "");
    else if (c.family.rfind("ladder", 0) == 0) ename += c.family + (c.vclass.rfind("cextreme", 0) == 0 ? "@" + c.vclass : "");
    else ename += c.family + "@" + c.vclass;
    const std::string cls = "";
    // coefficients in the working precision (exact for double)
    std::vector<std::complex<T>> a(n + 1);
    std::vector<CL> al(n + 1);
    for (int k = 0; k <= n; ++k) {
        a[k] = std::complex<T>((T)c.a[k].real(), (T)c.a[k].imag());
        al[k] = CL((LD)a[k].real(), (LD)a[k].imag());
        if (isFloat) {
            // skip inputs that are not representable as normal floats
            double m = std::max(std::abs(c.a[k].real()), std::abs(c.a[k].imag()));
            if (m > 1e30 || (m != 0 && m < 1e-30) || !std::isfinite((double)a[k].real())) { run.count("float_skipped_out_of_range"); return; }
        }
    }
    if (a[0] == std::complex<T>(0, 0)) { run.count("float_skipped_out_of_range"); return; }
    auto where = [&] { return ename + " " + c.desc + " coefs=" + coefStr(c.a); };
    auto rp = [&] { return run.replayHeader() + "case=" + where() + "\n"; };
    uint64_t h = verif::hashStr(ename);
    for (int k = 0; k <= n; ++k) { h = verif::hashPod(a[k].real(), h); h = verif::hashPod(a[k].imag(), h); }
    bool nontrivial = n >= 2;
    { bool anyLow = false; for (int k = 1; k <= n; ++k) if (a[k] != std::complex<T>(0, 0)) anyLow = true; nontrivial = nontrivial && anyLow; }
    run.evaluation(h, nontrivial);
    run.count(std::string("calls:") + ename);

    std::vector<std::complex<T>> rootsT;
    try { callLibrary<T>(e, a, rootsT); }
    catch (const PolynomialRootFinder::ZeroLeadingCoefficient&) {
        run.expect(false, "unexpected-ZeroLeadingCoefficient:" + ename, where, rp); return;
    }
    catch (const std::exception& ex) {
        std::string msg = ex.what();
        run.expect(false, "no-convergence:" + ename, [&] { return where() + " threw: " + msg.substr(0, 200); }, rp); return;
    }
    std::vector<CL> r(n);
    bool allFinite = true;
    for (int i = 0; i < n; ++i) {
        r[i] = CL((LD)rootsT[i].real(), (LD)rootsT[i].imag());
        if (!std::isfinite((double)rootsT[i].real()) || !std::isfinite((double)rootsT[i].imag())) allFinite = false;
    }
    if (run.verbose) {
        printf("%s\n  roots:", where().c_str());
        for (int i = 0; i < n; ++i) printf(" (%.17Lg,%.17Lg)", r[i].real(), r[i].imag());
        printf("\n");
    }
    // (1) exactly `degree` roots (unfilled slots are NaN by the wrapper's construction)
    if (!run.expect(allFinite, "no-convergence:" + ename, [&] { return where() + ": fewer than degree finite roots returned (unfound roots are NaN)"; }, rp)) return;

    // (2) backward error of every root
    LD worstBE = 0;
    for (int i = 0; i < n; ++i) {
        CL p = al[0]; LD s = std::abs(al[0]); LD x = std::abs(r[i]);
        for (int k = 1; k <= n; ++k) { p = p * r[i] + al[k]; s = s * x + std::abs(al[k]); }
        LD be = s > 0 ? std::abs(p) / s : 0;
        if (!(be <= worstBE)) worstBE = be;
    }
    if (run.verbose) printf("  worst relative backward error %.3Lg\n", worstBE);
    const bool rpoly = e == RC || e == RG;
    const double eta = isFloat ? kEtaFloat : rpoly ? (c.family.rfind("roots", 0) == 0 ? kEtaRpolyRoots : kEtaRpoly) : kEta;
    // rpoly on clusters of multiplicity >= 4: the residual is recorded but not judged (Hoelder-conditioned
    // roots; measured up to 3e-2 on the unchanged tree) -- those cases are judged by the root-distance oracle.
    const bool beJudged = !(rpoly && c.family == "roots(m>=4)");
    if (!beJudged) run.count("rpoly_multiplicity>=4_backward_error_recorded_not_judged");
    bool beOk = run.residual("backward-error:" + ename, (double)worstBE, beJudged ? eta : 1.0, where, rp, cls);
    if (!beOk) { run.count("dependent_oracles_skipped_after_backward_error_failure"); return; }

    // outcome hash: roots rounded to ~6 digits
    { uint64_t oh = verif::hashStr(ename); for (int i = 0; i < n; ++i) { float fr = (float)r[i].real(), fi = (float)r[i].imag(); oh = verif::hashPod(fr, oh); oh = verif::hashPod(fi, oh); } run.outcome(oh); }

    // (3) Vieta: a0 * prod (x - r_i) reproduces the coefficients.  The tolerance is built from
    // rigorous inclusion radii: for every k some true root lies within
    //   rho_j = min_k ( C(n,k) |p(r_j)| / |p^(k)(r_j)/k!| )^(1/k)
    // of r_j, and if |z_j - r_j| <= rho_j for a perfect matching then coefficientwise
    //   |prod(x - r_j) - prod(x - z_j)|_k <= sum_j rho_j e_{k-1}(|r|+rho without j).
    // A wrong multiset (a root repeated in place of another) has rho ~ 0 and an O(1) mismatch.
    {
        std::vector<CL> cc(n + 1, CL(0, 0));
        cc[0] = CL(1, 0);
        for (int i = 0; i < n; ++i)
            for (int k = i + 1; k >= 1; --k) cc[k] = cc[k] - r[i] * cc[k - 1];
        std::vector<LD> rho(n, 0), binom(n + 1, 1);
        for (int k = 1; k <= n; ++k) binom[k] = binom[k - 1] * (LD)(n - k + 1) / (LD)k;
        for (int j = 0; j < n; ++j) {
            std::vector<CL> w = al;
            LD t0 = 0, best = INFINITY;
            for (int k = 0; k <= n; ++k) {
                for (int i = 1; i <= n - k; ++i) w[i] += w[i - 1] * r[j];
                LD tk = std::abs(w[n - k]);
                if (k == 0) { t0 = tk; if (t0 == 0) { best = 0; break; } }
                else if (tk > 0) best = std::min(best, std::pow(binom[k] * t0 / tk, (LD)1 / k));
            }
            rho[j] = best;
        }
        LD worstV = 0, vac = 0;
        for (int j = 0; j < n; ++j) if (rho[j] > 0) vac = std::max(vac, rho[j] / std::abs(r[j]));
        std::vector<LD> full(n + 1, 0); full[0] = 1;
        for (int i = 0; i < n; ++i) for (int k = i + 1; k >= 1; --k) full[k] += (std::abs(r[i]) + rho[i]) * full[k - 1];
        // tolk[k] = floor * e_k(|r|+rho) + sum_j rho_j e_{k-1}(|r|+rho without j)
        std::vector<LD> tolv(n + 1, 0), ee(n + 1);
        for (int k = 1; k <= n; ++k) tolv[k] = kVietaFloor * full[k];
        for (int j = 0; j < n; ++j) {
            if (rho[j] == 0) continue;
            std::fill(ee.begin(), ee.end(), (LD)0); ee[0] = 1;
            int cnt = 0;
            for (int i = 0; i < n; ++i) if (i != j) { ++cnt; for (int q = cnt; q >= 1; --q) ee[q] += (std::abs(r[i]) + rho[i]) * ee[q - 1]; }
            for (int k = 1; k <= n; ++k) tolv[k] += rho[j] * ee[k - 1];
        }
        for (int k = 1; k <= n; ++k) {
            if (n > 6 && k != 1 && k != n) continue;
            LD tolk = tolv[k];
            LD num = std::abs(al[0] * cc[k] - al[k]);
            LD den = std::abs(al[0]) * tolk;
            LD v = den > 0 ? num / den : (num == 0 ? 0 : INFINITY);
            if (!(v <= worstV)) worstV = v;
        }
        if (run.verbose) printf("  Vieta mismatch / inclusion-radius tolerance %.3Lg (largest relative radius %.3Lg)\n", worstV, vac);
        if (vac > 0.1) run.count("vieta_tolerance_vacuous(relative_radius>0.1)");
        else run.residual("vieta:" + ename, (double)worstV, isFloat ? kVietaFloat : kVieta, where, rp, cls);
    }
    // (4) conjugate pairing (real entry points only: rpoly / real quadratic formula)
    if (e == RQ || e == RC || e == RG) {
        std::vector<std::vector<LD>> cost(n, std::vector<LD>(n));
        LD scale = 0; for (int i = 0; i < n; ++i) scale = std::max(scale, std::abs(r[i]));
        for (int i = 0; i < n; ++i) for (int j = 0; j < n; ++j) {
            LD d = std::abs(std::conj(r[i]) - r[j]);
            cost[i][j] = d == 0 ? 0 : d / std::max(std::abs(r[i]), scale * (LD)1e-3);
        }
        LD v = bottleneck(cost);
        int nonreal = 0; for (int i = 0; i < n; ++i) if (r[i].imag() != 0) nonreal++;
        if (nonreal) run.count("cases_with_nonreal_roots_from_real_entry");
        run.residual("conj-pairing:" + ename, (double)v, isFloat ? kPairFloat : kPair, where, rp, cls);
    }
    // (5) distance to the known roots, scaled by the first-order perturbation bound for the same eta as oracle (2)
    if (!c.trueRoots.empty() && !isFloat) {
        const std::vector<CL>& z = c.trueRoots;
        const double etaDist = (rpoly && c.family.rfind("roots", 0) == 0) ? kEtaRpolyDist : eta;
        std::vector<LD> tol(n);
        for (int j = 0; j < n; ++j) {
            int m = 0; LD spread = 0, q = std::abs(al[0]);
            for (int i = 0; i < n; ++i) {
                LD d = std::abs(z[j] - z[i]);
                if (d <= (LD)1e-4 * std::abs(z[j])) { m++; spread = std::max(spread, d); }
                else q *= d;
            }
            LD s = std::abs(al[0]), x = std::abs(z[j]);
            for (int k = 1; k <= n; ++k) s = s * x + std::abs(al[k]);
            tol[j] = 2 * std::pow((LD)etaDist * s / q, (LD)1 / m) + 2 * spread;
        }
        std::vector<std::vector<LD>> cost(n, std::vector<LD>(n));
        for (int i = 0; i < n; ++i) for (int j = 0; j < n; ++j) { LD d = std::abs(r[i] - z[j]); cost[i][j] = d == 0 ? 0 : (tol[j] > 0 ? d / tol[j] : INFINITY); }
        LD v = bottleneck(cost);
        if (run.verbose) printf("  root-distance ratio %.3Lg\n", v);
        run.residual("root-distance:" + ename, (double)v, kRootDist, where, rp, cls);
    }
}

static void checkCase(verif::Run& run, const Case& c, bool withFloat) {
    const int n = (int)c.a.size() - 1;
    std::vector<Entry> entries;
    if (c.realCoefs) { if (n == 2) entries.push_back(RQ); if (n == 3) entries.push_back(RC); entries.push_back(RG); }
    if (n == 2) entries.push_back(CQ);
    if (n == 3) entries.push_back(CC);
    entries.push_back(CG);
    for (Entry e : entries) {
        checkOne<double>(run, c, e, false);
        if (withFloat) checkOne<float>(run, c, e, true);
    }
}

// ------------------------------------------------------------------ families
// all multisets of size k from m symbols, in lexicographic order
static void multisets(int m, int k, std::vector<std::vector<int>>& out) {
    std::vector<int> cur(k, 0);
    while (true) {
        out.push_back(cur);
        int i = k - 1;
        while (i >= 0 && cur[i] == m - 1) --i;
        if (i < 0) break;
        int v = cur[i] + 1;
        for (int j = i; j < k; ++j) cur[j] = v;
    }
}

// exact expansion; returns an empty polynomial if a coefficient would not fit into 128 bits
static GPoly fromRoots(const std::vector<int>& idx) {
    GPoly p{gi(1)};
    LD mag = 1;   // upper bound of the largest |coefficient|
    for (int i : idx) {
        const RootSpec& r = kAlphabetC[i];
        mag *= (LD)r.den + std::abs((LD)r.nre) + std::abs((LD)r.nim);
        if (mag > 4e37L) return GPoly();
        p = mulLin(p, gi(r.den), gi(r.nre, r.nim));
    }
    return p;
}
int main(int argc, char** argv) {
    verif::Run run("C30", argc, argv);
    run.setDeadline(300, 2400);
    const bool thorough = run.thorough();
    if (run.hasFlag("--dump")) run.maxViolsPerKey = 60;   // development aid
    run.rule = "a case = (entry point, instantiation, exact coefficient vector); families: all integer polynomials with coefficients in {-2..2} up to degree 5 "
               "(thorough: {-2..2} to degree 7, {-3..3} to degree 5, {-1..1} to degree 10), all Gaussian-integer polynomials over {-1,0,1}^2 up to degree 4 (thorough 5), "
               "all root multisets of size 2..6 (thorough 7) from the 11-value alphabet expanded exactly in 128-bit integers, degree ladder 7..20 x 8 shapes, "
               "each under every value set (coefficient scale / root scale); distinct = distinct (entry, coefficient bits); non-trivial = degree >= 2 and some non-leading coefficient non-zero";
    run.assumptions = {"coefficient scalings within 2^+-30 and root scalings within 2^+-8 (far from overflow/underflow of squared coefficients)",
                       "backward-error bounds are calibrated per solver on the unchanged tree (closed forms and cpoly 1e-6, rpoly 2e-3, rpoly on root multisets 0.1; "
                       "recorded but not judged for rpoly on clusters of multiplicity >= 4): the documentation promises only 'high accuracy in most cases'",
                       "conjugate pairing is demanded of the real-coefficient entry points only",
                       "float instantiations only on the unscaled integer and Gaussian families"};
    std::vector<int> vsets;
    for (int i = 0; i < kNVSets; ++i) vsets.push_back(i);
    (void)run.seed;   // every value set is run in both tiers; the seed has nothing left to select
    run.maxSamples = 12;

    // ---- int: all integer polynomials
    struct IntFam { int lo, hi, maxDeg; };
    std::vector<IntFam> fams = {{-2, 2, 5}};
    if (thorough) { fams = {{-2, 2, 7}, {-3, 3, 5}, {-1, 1, 10}}; }
    for (size_t f = 0; f < fams.size(); ++f) {
        const IntFam F = fams[f];
        const int base = F.hi - F.lo + 1;
        std::vector<int64_t> start{0};
        for (int d = 1; d <= F.maxDeg; ++d) { int64_t c = base - 1; for (int i = 0; i < d; ++i) c *= base; start.push_back(start.back() + c); }
        run.parallel("int" + std::to_string(f), start.back(), [&](int64_t idx) {
            int d = 1; while (idx >= start[d]) ++d;
            int64_t k = idx - start[d - 1];
            // with a wider coefficient range skip what the narrower families already contain
            GPoly p(d + 1);
            int lead = (int)(k % (base - 1)); k /= (base - 1);
            int lv = F.lo + lead; if (lv >= 0) lv++;      // skip zero
            p[0] = gi(lv);
            int maxAbs = std::abs(lv);
            for (int i = 1; i <= d; ++i) { int v = F.lo + (int)(k % base); k /= base; p[i] = gi(v); maxAbs = std::max(maxAbs, std::abs(v)); }
            if (f > 0 && F.hi == 3 && maxAbs <= 2) { run.count("int_skipped_covered_by_smaller_range"); return; }
            if (f > 0 && F.hi == 1 && d <= 7) { run.count("int_skipped_covered_by_smaller_range"); return; }
            std::string desc = "int[" + std::to_string(F.lo) + ".." + std::to_string(F.hi) + "] deg=" + std::to_string(d) + " idx=" + std::to_string(idx);
            for (int s : vsets) {
                if (thorough && d >= 6 && s != 0 && s != 1 && s != 4) continue;   // large spaces: plain, one coefficient scale, one root scale
                checkCase(run, makeCase(p, {}, kVSets[s], desc), d <= 5 && s == 0);
            }
            if (idx % 1009 == 0) { Case c = makeCase(p, {}, kVSets[0], desc); run.sample(c.desc + " coefs=" + coefStr(c.a)); }
        });
    }
    // ---- gauss: all Gaussian-integer polynomials over {-1,0,1}^2
    {
        const int maxDeg = thorough ? 5 : 4;
        std::vector<int64_t> start{0};
        for (int d = 1; d <= maxDeg; ++d) { int64_t c = 8; for (int i = 0; i < d; ++i) c *= 9; start.push_back(start.back() + c); }
        run.parallel("gauss", start.back(), [&](int64_t idx) {
            int d = 1; while (idx >= start[d]) ++d;
            int64_t k = idx - start[d - 1];
            GPoly p(d + 1);
            int lead = (int)(k % 8); k /= 8; if (lead >= 4) lead++;   // skip 0+0i (index 4)
            p[0] = gi(lead % 3 - 1, lead / 3 - 1);
            for (int i = 1; i <= d; ++i) { int v = (int)(k % 9); k /= 9; p[i] = gi(v % 3 - 1, v / 3 - 1); }
            { bool anyIm = false; for (auto& g : p) if (g.im != 0) anyIm = true;
              if (!anyIm) { run.count("gauss_skipped_real_polynomial_covered_by_int_family"); return; } }
            std::string desc = "gauss deg=" + std::to_string(d) + " idx=" + std::to_string(idx);
            for (int s : vsets) {
                if (thorough && d >= 5 && s != 0 && s != 1 && s != 4) continue;
                checkCase(run, makeCase(p, {}, kVSets[s], desc), d <= 4 && s == 0);
            }
        });
    }
    // ---- rootsC: all multisets of complex alphabet roots
    {
        std::vector<std::vector<int>> ms;
        for (int k = 2; k <= (thorough ? 7 : 6); ++k) multisets(kNAlphaC, k, ms);
        run.parallel("rootsC", (int64_t)ms.size(), [&](int64_t idx) {
            const auto& m = ms[idx];
            GPoly p = fromRoots(m);
            if (p.empty()) { run.count("roots_skipped_exact_expansion_exceeds_128_bits"); return; }
            std::string desc = "rootsC {";
            for (size_t i = 0; i < m.size(); ++i) desc += std::string(i ? "," : "") + kAlphabetC[m[i]].name;
            desc += "}";
            for (int s : vsets) checkCase(run, makeCase(p, m, kVSets[s], desc), false);
            if (idx % 2003 == 0) { Case c = makeCase(p, m, kVSets[0], desc); run.sample(c.desc + " coefs=" + coefStr(c.a)); }
        });
    }
    // ---- rootsR: all multisets of real factors with total degree 2..6 (8)
    {
        std::vector<std::vector<int>> all, ms;
        const int maxDeg = thorough ? 7 : 6;
        for (int k = 1; k <= maxDeg; ++k) multisets(kNUnitsR, k, all);
        for (auto& m : all) { int d = 0; for (int u : m) d += kUnitsR[u].deg; if (d >= 2 && d <= maxDeg) ms.push_back(m); }
        run.parallel("rootsR", (int64_t)ms.size(), [&](int64_t idx) {
            std::vector<int> roots; std::string desc = "rootsR {";
            for (size_t i = 0; i < ms[idx].size(); ++i) {
                const RealUnit& u = kUnitsR[ms[idx][i]];
                roots.push_back(u.r0); if (u.deg == 2) roots.push_back(u.r1);
                desc += std::string(i ? "," : "") + u.name;
            }
            desc += "}";
            GPoly p = fromRoots(roots);
            if (p.empty()) { run.count("roots_skipped_exact_expansion_exceeds_128_bits"); return; }
            for (auto& g : p) if (g.im != 0) { run.harnessError("rootsR produced a complex coefficient"); return; }
            for (int s : vsets) checkCase(run, makeCase(p, roots, kVSets[s], desc), false);
        });
    }
    // ---- ladder: degree 7..20 x shape
    {
        verif::Odometer od; od.dim("n-7", 14); od.dim("shape", 8);
        static const char* shapeName[] = {"wilkinson", "chebyshev", "x^n-1", "all-ones", "alphabet-cycle-real", "roots-2^k", "x^n-i", "alphabet-cycle-complex"};
        run.parallel("ladder", od.size(), [&](int64_t idx) {
            auto dg = od.digits(idx); int n = dg[0] + 7, shape = dg[1];
            GPoly p{gi(1)}; std::vector<int> roots; bool known = false;
            switch (shape) {
                case 0: for (int k = 1; k <= n; ++k) p = mulLin(p, gi(1), gi(k)); break;
                case 1: {   // T_n by the recurrence T_{k+1} = 2x T_k - T_{k-1}
                    GPoly t0{gi(1)}, t1{gi(1), gi(0)};
                    for (int k = 1; k < n; ++k) {
                        GPoly t2 = mulLin(t1, gi(2), gi(0));
                        for (size_t i = 0; i < t0.size(); ++i) { t2[t2.size() - t0.size() + i].re -= t0[i].re; }
                        t0 = t1; t1 = t2;
                    }
                    p = t1; break; }
                case 2: p.assign(n + 1, gi(0)); p[0] = gi(1); p[n] = gi(-1); break;
                case 3: p.assign(n + 1, gi(1)); break;
                case 4: { int d = 0, u = 0; while (d < n) { const RealUnit& U = kUnitsR[u % kNUnitsR]; ++u; if (d + U.deg > n) continue; roots.push_back(U.r0); if (U.deg == 2) roots.push_back(U.r1); d += U.deg; } p = fromRoots(roots); known = true; break; }
                case 5: for (int k = 0; k < n; ++k) { int e = k - n / 2; p = e >= 0 ? mulLin(p, gi(1), gi(1LL << e)) : mulLin(p, gi(1LL << -e), gi(1)); } break;
                case 6: p.assign(n + 1, gi(0)); p[0] = gi(1); p[n] = gi(0, -1); break;
                case 7: for (int k = 0; k < n; ++k) roots.push_back(k % kNAlphaC); p = fromRoots(roots); known = true; break;
            }
            if (p.empty()) { run.count("roots_skipped_exact_expansion_exceeds_128_bits"); return; }
            std::string desc = std::string("ladder ") + shapeName[shape] + " n=" + std::to_string(n);
            for (int s : {0, 1, 4}) {   // plain, coef*2^30, root*2^8
                Case c = makeCase(p, known ? roots : std::vector<int>(), kVSets[s], desc);
                bool finite = true; for (auto& v : c.a) if (!std::isfinite(v.real()) || !std::isfinite(v.imag())) finite = false;
                if (!finite) { run.count("ladder_skipped_overflow"); continue; }
                checkCase(run, c, false);
            }
            run.sample(desc + " coefs=" + coefStr(makeCase(p, {}, kVSets[0], desc).a).substr(0, 160));
        });
    }
    // ---- zerolead: the documented exception
    run.parallel("zerolead", 6, [&](int64_t idx) {
        Entry e = (Entry)idx;
        int n = (e == RQ || e == CQ) ? 2 : (e == RC || e == CC) ? 3 : 5;
        for (int variant = 0; variant < 3; ++variant) {
            std::vector<CD> a(n + 1, CD(1, 0)); a[0] = 0;
            if (variant == 1) a[1] = 0;
            if (variant == 2) for (int k = 1; k <= n; ++k) a[k] = CD(k - 2.0, 0);
            for (int fl = 0; fl < 2; ++fl) {
                bool threw = false, other = false;
                try {
                    if (fl) { std::vector<std::complex<float>> af(a.begin(), a.end()), r; callLibrary<float>(e, af, r); }
                    else { std::vector<CD> r; callLibrary<double>(e, a, r); }
                } catch (const PolynomialRootFinder::ZeroLeadingCoefficient&) { threw = true; }
                catch (const std::exception&) { other = true; }
                run.evaluation(verif::hashStr(std::string("zerolead ") + kEntryName[e] + std::to_string(variant) + std::to_string(fl)), false);
                run.expect(threw && !other, std::string("zero-leading-coefficient-throws:") + kEntryName[e],
                           [&] { return std::string(kEntryName[e]) + (fl ? " float" : " double") + " variant " + std::to_string(variant) + ": no ZeroLeadingCoefficient exception"; });
            }
        }
    });
    return run.finish();
}
