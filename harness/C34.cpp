// C34 -- Contact surface queries are geometrically correct.
// Engine E3 (enum): every catalogue shape x every query of a fixed lattice alphabet is run on the real
// ContactGeometry code and compared with independent closed forms / brute force / finite differences
// written here (engine/geomkit.h).  No sampling: the query sets are finite lattices enumerated completely.
#include "SimTKmath.h"
#include "verif.h"
#include "geomkit.h"

#include <memory>

using namespace SimTK;
using gk::s3; using gk::sd;

// ------------------------------------------------------------------------------------------------ shapes
struct Shape {
    std::string name, kind;
    std::unique_ptr<ContactGeometry> g;
    Vec3 ext = Vec3(1);        // half extents used to scale the query lattice
    double scale = 1;          // characteristic length (tolerances scale with it)
    bool finite = true, smooth = true;
    bool hasRef = false;       // independent closed-form implicit function available
    bool exactSD = false;      // sdRef is an exact signed distance
    std::function<double(const Vec3&)> sdRef;     // > 0 inside
    std::function<double(const Vec3&)> fRef;      // implicit function (positive inside) for normals / curvature
    std::function<Vec3(const Vec3&)> gradRef;     // its gradient
    std::function<double(const Vec3&)> distRef;   // distance from a point to the surface
    std::function<double(const Vec3&)> supportRef;// support function h(d) for unit d (convex shapes)
    std::vector<Vec3> sample;                     // dense sample of surface points
    std::vector<Vec3> surfPts;                    // a few surface points for curvature checks
    std::vector<Vec3> special;                    // degenerate / boundary query points
    gk::RefMesh mesh; bool meshSmooth = false;
    std::shared_ptr<BicubicSurface> surf;
    Vec3 radii = Vec3(0);                         // ellipsoid
    double R = 0, r = 0;                          // torus / sphere / cylinder
};

static const int NU = 160, NV = 81;   // ellipsoid parametric grid: 12960 sample points

static Vec3 ellPoint(const Vec3& a, double u, double v) {
    return Vec3(a[0] * cos(v) * cos(u), a[1] * cos(v) * sin(u), a[2] * sin(v));
}
// Independent distance from q to the ellipsoid surface: dense parametric sample, then zoom refinement
// around the best few samples.  The result is >= the true distance (it is the distance to an actual surface
// point) and equals it up to ~1e-13*scale unless two far-apart local minima differ by less than the grid.
static double ellipsoidDist(const Vec3& a, const Vec3& q, Vec3* where = nullptr) {
    struct C { double d2, u, v; };
    std::vector<C> best;
    const double du = 2 * Pi / NU, dv = Pi / (NV - 1);
    for (int i = 0; i < NU; ++i) for (int j = 0; j < NV; ++j) {
        double u = i * du, v = -Pi / 2 + j * dv;
        double d2 = (ellPoint(a, u, v) - q).normSqr();
        if (best.size() < 6) { best.push_back({d2, u, v}); std::sort(best.begin(), best.end(), [](const C& x, const C& y) { return x.d2 < y.d2; }); }
        else if (d2 < best.back().d2) {
            best.back() = {d2, u, v};
            std::sort(best.begin(), best.end(), [](const C& x, const C& y) { return x.d2 < y.d2; });
        }
    }
    double bd2 = INFINITY; Vec3 bp(0);
    for (auto c : best) {
        double wu = du, wv = dv;
        for (int it = 0; it < 60; ++it) {
            C loc = c;
            for (int i = -2; i <= 2; ++i) for (int j = -2; j <= 2; ++j) {
                double u = c.u + i * wu / 2, v = c.v + j * wv / 2;
                double d2 = (ellPoint(a, u, v) - q).normSqr();
                if (d2 < loc.d2) loc = {d2, u, v};
            }
            c = loc; wu *= 0.6; wv *= 0.6;
        }
        if (c.d2 < bd2) { bd2 = c.d2; bp = ellPoint(a, c.u, c.v); }
    }
    if (where) *where = bp;
    return std::sqrt(bd2);
}

static double sizeFactor(long seed) { static const double f[3] = {1.0, 0.37, 2.3}; return f[((seed % 3) + 3) % 3]; }

static const char* kShapeNames[] = {
    "HalfSpace", "Sphere", "Ellipsoid-abc", "Ellipsoid-aac", "Ellipsoid-acc", "Ellipsoid-aaa", "Ellipsoid-thin",
    "Cylinder", "Torus-4to1", "Torus-1.5to1", "Brick-abc", "Brick-cube", "HeightMap-bowl", "HeightMap-saddle", "HeightMap-bumpy",
    "Mesh-octahedron", "Mesh-icosphere1", "Mesh-icosphere1-smooth", "Mesh-box"};
static const int kNumShapes = sizeof(kShapeNames) / sizeof(kShapeNames[0]);

static std::shared_ptr<BicubicSurface> makeSurface(int which, double s) {
    const int nx = 6, ny = 5; Vector x(nx), y(ny); Matrix f(nx, ny);
    for (int i = 0; i < nx; ++i) x[i] = s * (-1 + 0.4 * i);
    for (int j = 0; j < ny; ++j) y[j] = s * (-0.9 + 0.45 * j);
    for (int i = 0; i < nx; ++i) for (int j = 0; j < ny; ++j) {
        double X = x[i] / s, Y = y[j] / s, z;
        if (which == 0) z = 0.3 * X * X + 0.2 * Y * Y + 0.1 * X * Y;              // bowl (concave solid: solid is below)
        else if (which == 1) z = 0.3 * X * X - 0.25 * Y * Y + 0.05 * X;          // saddle
        else z = 0.25 * sin(2.1 * X + 0.3) * cos(1.7 * Y - 0.2) - 0.1 * X * Y;   // bumpy
        f(i, j) = s * z;
    }
    return std::make_shared<BicubicSurface>(x, y, f, 0);
}

static Shape buildShape(int idx, long seed) {
    Shape S; S.name = kShapeNames[idx];
    const double s = sizeFactor(seed);
    auto sampleFromParam = [&](const std::function<Vec3(double, double)>& P, int nu, int nv, double u0, double u1, double v0, double v1, bool closedV) {
        for (int i = 0; i < nu; ++i) for (int j = 0; j < nv; ++j) {
            double u = u0 + (u1 - u0) * i / nu, v = closedV ? v0 + (v1 - v0) * j / nv : v0 + (v1 - v0) * j / (nv - 1);
            S.sample.push_back(P(u, v));
        }
    };
    if (S.name == "HalfSpace") {
        S.kind = "HalfSpace"; S.g.reset(new ContactGeometry::HalfSpace()); S.finite = false; S.scale = s; S.ext = Vec3(s);
        S.hasRef = true; S.exactSD = true;
        S.sdRef = [](const Vec3& p) { return p[0]; }; S.fRef = S.sdRef;
        S.gradRef = [](const Vec3&) { return Vec3(1, 0, 0); };
        S.distRef = [](const Vec3& p) { return std::abs(p[0]); };
        for (int i = -2; i <= 2; ++i) for (int j = -2; j <= 2; ++j) S.surfPts.push_back(Vec3(0, 0.7 * s * i, 0.45 * s * j));
        S.special = {Vec3(0, 0, 0), Vec3(0, s, -s), Vec3(-0.0, 2 * s, s)};
    } else if (S.name == "Sphere") {
        double r = 1.5 * s; S.r = r;
        S.kind = "Sphere"; S.g.reset(new ContactGeometry::Sphere(r)); S.scale = r; S.ext = Vec3(r);
        S.hasRef = true; S.exactSD = true;
        S.sdRef = [r](const Vec3& p) { return r - p.norm(); }; S.fRef = S.sdRef;
        S.gradRef = [](const Vec3& p) { return -p / p.norm(); };
        S.distRef = [r](const Vec3& p) { return std::abs(r - p.norm()); };
        S.supportRef = [r](const Vec3&) { return r; };
        sampleFromParam([r](double u, double v) { return ellPoint(Vec3(r), u, v); }, 160, 81, 0, 2 * Pi, -Pi / 2, Pi / 2, false);
        S.special = {Vec3(0), Vec3(r, 0, 0), Vec3(0, -r, 0), Vec3(0, 0, r), Vec3(r / 2, 0, 0), Vec3(0, 0, 2 * r)};
    } else if (S.kind.empty() && S.name.rfind("Ellipsoid", 0) == 0) {
        Vec3 a;
        if (S.name == "Ellipsoid-abc") a = Vec3(1, 2, 3);
        else if (S.name == "Ellipsoid-aac") a = Vec3(1.25, 1.25, 2.5);
        else if (S.name == "Ellipsoid-acc") a = Vec3(0.8, 2, 2);
        else if (S.name == "Ellipsoid-aaa") a = Vec3(1.5, 1.5, 1.5);
        else a = Vec3(3, 0.3, 1.1);
        a *= s; S.radii = a;
        S.kind = "Ellipsoid"; S.g.reset(new ContactGeometry::Ellipsoid(a)); S.scale = max(a); S.ext = a;
        S.hasRef = true; S.exactSD = false;
        S.fRef = [a](const Vec3& p) { return 1 - square(p[0] / a[0]) - square(p[1] / a[1]) - square(p[2] / a[2]); };
        S.gradRef = [a](const Vec3& p) { return Vec3(-2 * p[0] / (a[0] * a[0]), -2 * p[1] / (a[1] * a[1]), -2 * p[2] / (a[2] * a[2])); };
        S.sdRef = [a](const Vec3& p) {   // first-order signed distance estimate; sign exact
            double f = 1 - square(p[0] / a[0]) - square(p[1] / a[1]) - square(p[2] / a[2]);
            Vec3 g(2 * p[0] / (a[0] * a[0]), 2 * p[1] / (a[1] * a[1]), 2 * p[2] / (a[2] * a[2]));
            double gn = g.norm(); return gn > 0 ? f / gn : min(a); };
        S.distRef = [a](const Vec3& p) { return ellipsoidDist(a, p); };
        S.supportRef = [a](const Vec3& d) { return std::sqrt(square(a[0] * d[0]) + square(a[1] * d[1]) + square(a[2] * d[2])); };
        sampleFromParam([a](double u, double v) { return ellPoint(a, u, v); }, NU, NV, 0, 2 * Pi, -Pi / 2, Pi / 2, false);
        S.special = {Vec3(0), Vec3(a[0], 0, 0), Vec3(0, a[1], 0), Vec3(0, 0, -a[2]), Vec3(a[0] / 2, 0, 0), Vec3(0, a[1] / 2, 0), Vec3(0, 0, a[2] / 2),
                     Vec3(0, 0, 0.95 * a[2]), Vec3(0, 0.95 * a[1], 0), Vec3(0.95 * a[0], 0, 0), Vec3(0, 0.05 * a[1], 0), Vec3(0, 0, 0.05 * a[2]),
                     Vec3(2 * a[0], 0, 0), Vec3(0, 2 * a[1], 0), Vec3(0, 0, 2 * a[2]), Vec3(0, 0.4 * a[1], 0.4 * a[2]), Vec3(0.4 * a[0], 0, 0.4 * a[2])};
    } else if (S.name == "Cylinder") {
        double r = 1.5 * s; S.r = r;
        S.kind = "Cylinder"; S.g.reset(new ContactGeometry::Cylinder(r)); S.finite = false; S.scale = r; S.ext = Vec3(r);
        S.hasRef = true; S.exactSD = true;
        S.sdRef = [r](const Vec3& p) { return r - std::hypot(p[0], p[1]); }; S.fRef = S.sdRef;
        S.gradRef = [](const Vec3& p) { double h = std::hypot(p[0], p[1]); return Vec3(-p[0] / h, -p[1] / h, 0); };
        S.distRef = [r](const Vec3& p) { return std::abs(r - std::hypot(p[0], p[1])); };
        for (int i = 0; i < 12; ++i) for (int j = -1; j <= 1; ++j) S.surfPts.push_back(Vec3(r * cos(0.3 + i * Pi / 6), r * sin(0.3 + i * Pi / 6), 0.8 * r * j));
        S.special = {Vec3(0), Vec3(0, 0, r), Vec3(r, 0, 0), Vec3(0, -r, 2 * r), Vec3(r / 2, 0, -r)};
    } else if (S.name.rfind("Torus", 0) == 0) {
        double R = (S.name == "Torus-4to1" ? 2.0 : 1.5) * s, r = (S.name == "Torus-4to1" ? 0.5 : 1.0) * s; S.R = R; S.r = r;
        S.kind = "Torus"; S.g.reset(new ContactGeometry::Torus(R, r)); S.scale = R + r; S.ext = Vec3(R + r, R + r, r);
        S.hasRef = true; S.exactSD = true;
        S.sdRef = [R, r](const Vec3& p) { return r - std::hypot(std::hypot(p[0], p[1]) - R, p[2]); }; S.fRef = S.sdRef;
        S.gradRef = [R, r](const Vec3& p) {
            double h = std::hypot(p[0], p[1]), m = std::hypot(h - R, p[2]);
            return Vec3(-(h - R) / m * p[0] / h, -(h - R) / m * p[1] / h, -p[2] / m); };
        S.distRef = [R, r](const Vec3& p) { return std::abs(r - std::hypot(std::hypot(p[0], p[1]) - R, p[2])); };
        sampleFromParam([R, r](double u, double v) { return Vec3((R + r * cos(v)) * cos(u), (R + r * cos(v)) * sin(u), r * sin(v)); }, 160, 80, 0, 2 * Pi, 0, 2 * Pi, true);
        S.special = {Vec3(0), Vec3(0, 0, r), Vec3(0, 0, 3 * r), Vec3(R, 0, 0), Vec3(0, -R, 0), Vec3(R + r, 0, 0), Vec3(R - r, 0, 0), Vec3(R, 0, r),
                     Vec3(R + r / 2, 0, 0), Vec3(R / 2, 0, 0), Vec3(0, R, r / 2)};
    } else if (S.name.rfind("Brick", 0) == 0) {
        Vec3 h = (S.name == "Brick-abc" ? Vec3(1, 2, 3) : Vec3(1.5, 1.5, 1.5)) * s;
        S.kind = "Brick"; S.g.reset(new ContactGeometry::Brick(h)); S.smooth = false; S.scale = max(h); S.ext = h;
        S.hasRef = true; S.exactSD = true;
        S.sdRef = [h](const Vec3& p) {
            double out2 = 0, in = INFINITY;
            for (int i = 0; i < 3; ++i) { double e = std::abs(p[i]) - h[i]; if (e > 0) out2 += e * e; in = std::min(in, -e); }
            return out2 > 0 ? -std::sqrt(out2) : in; };
        S.distRef = [sdf = S.sdRef](const Vec3& p) { return std::abs(sdf(p)); };
        S.supportRef = [h](const Vec3& d) { return h[0] * std::abs(d[0]) + h[1] * std::abs(d[1]) + h[2] * std::abs(d[2]); };
        for (int i = 0; i < 8; ++i) S.sample.push_back(Vec3(i & 4 ? h[0] : -h[0], i & 2 ? h[1] : -h[1], i & 1 ? h[2] : -h[2]));
        S.special = {Vec3(0), h, -h, Vec3(h[0], 0, 0), Vec3(0, -h[1], 0), Vec3(h[0], h[1], 0), Vec3(0.5 * h[0], 0.5 * h[0], 0.5 * h[0]), 2.0 * h, Vec3(2 * h[0], 0, 0)};
    } else if (S.name.rfind("HeightMap", 0) == 0) {
        int which = S.name == "HeightMap-bowl" ? 0 : S.name == "HeightMap-saddle" ? 1 : 2;
        S.surf = makeSurface(which, s);
        S.kind = "HeightMap"; S.g.reset(new ContactGeometry::SmoothHeightMap(*S.surf)); S.scale = s; S.ext = Vec3(0.95 * s, 0.85 * s, 0.5 * s);
        S.hasRef = false;
        // semi-independent reference: the library's value function on a private object that is never handed to the code under test
        std::shared_ptr<ContactGeometry> priv(new ContactGeometry::SmoothHeightMap(*S.surf));
        S.fRef = [priv](const Vec3& p) { return priv->calcSurfaceValue(p); };
        S.gradRef = [priv](const Vec3& p) { return priv->calcSurfaceGradient(p); };
        for (int i = 0; i <= 60; ++i) for (int j = 0; j <= 60; ++j) {
            Vec3 p(s * (-1 + 2.0 * i / 60), s * (-0.9 + 1.8 * j / 60), 0);
            if (i == 60) p[0] = s * (-1 + 0.4 * 5); if (j == 60) p[1] = s * (-0.9 + 0.45 * 4);
            p[2] = S.surf->calcValue(Vec2(p[0], p[1]));
            S.sample.push_back(p);
            if (i % 8 == 3 && j % 9 == 4) S.surfPts.push_back(p);
        }
    } else {
        S.kind = "Mesh"; S.smooth = false;
        if (S.name == "Mesh-octahedron") S.mesh = gk::octahedron(1.3 * s);
        else if (S.name == "Mesh-box") S.mesh = gk::boxMesh(Vec3(1, 1.4, 0.7) * s);
        else S.mesh = gk::icosphere(1, 1.3 * s);
        S.meshSmooth = S.name == "Mesh-icosphere1-smooth";
        Array_<Vec3> verts; Array_<int> faces;
        for (auto& v : S.mesh.v) verts.push_back(v);
        for (auto& f : S.mesh.f) for (int k = 0; k < 3; ++k) faces.push_back(f[k]);
        S.g.reset(new ContactGeometry::TriangleMesh(verts, faces, S.meshSmooth));
        double rmax = 0; Vec3 ext(0);
        for (auto& v : S.mesh.v) { rmax = std::max(rmax, v.norm()); for (int i = 0; i < 3; ++i) ext[i] = std::max(ext[i], std::abs(v[i])); }
        S.scale = rmax; S.ext = ext; S.hasRef = true; S.exactSD = false;
        auto M = std::make_shared<gk::RefMesh>(S.mesh);
        S.distRef = [M](const Vec3& q) {
            double best = INFINITY; Vec3 cp;
            for (auto& f : M->f) best = std::min(best, gk::closestPtTriangle(q, M->v[f[0]], M->v[f[1]], M->v[f[2]], cp));
            return std::sqrt(best); };
        S.sdRef = [M](const Vec3& q) {   // convex meshes only: inside <=> behind every face plane.  Magnitude = distance to the nearest plane (sign use only).
            double worst = -INFINITY;
            for (auto& f : M->f) { Vec3 n = (M->v[f[1]] - M->v[f[0]]) % (M->v[f[2]] - M->v[f[0]]); worst = std::max(worst, dot(n, q - M->v[f[0]]) / n.norm()); }
            return -worst; };
        S.sample = S.mesh.v;
        S.special = {Vec3(0), S.mesh.v[0], S.mesh.v[1] * 2.0, (S.mesh.v[S.mesh.f[0][0]] + S.mesh.v[S.mesh.f[0][1]]) / 2,
                     (S.mesh.v[S.mesh.f[0][0]] + S.mesh.v[S.mesh.f[0][1]] + S.mesh.v[S.mesh.f[0][2]]) / 3, S.mesh.v[2] * 0.5};
    }
    if (S.surfPts.empty() && !S.sample.empty() && S.smooth)
        for (size_t i = 37; i < S.sample.size(); i += S.sample.size() / 48 + 1) S.surfPts.push_back(S.sample[i]);
    return S;
}

// The reference side of a shape (samples, closures, lattices) is immutable and cached per process; the library
// object is rebuilt for every item so that an item never sees state left by an earlier one (replays run the
// item alone).  Mesh objects are kept: they are immutable after construction and cost milliseconds to build.
static void freshGeometry(Shape& S) {
    if (S.kind == "HalfSpace") S.g.reset(new ContactGeometry::HalfSpace());
    else if (S.kind == "Sphere") S.g.reset(new ContactGeometry::Sphere(S.r));
    else if (S.kind == "Ellipsoid") S.g.reset(new ContactGeometry::Ellipsoid(S.radii));
    else if (S.kind == "Cylinder") S.g.reset(new ContactGeometry::Cylinder(S.r));
    else if (S.kind == "Torus") S.g.reset(new ContactGeometry::Torus(S.R, S.r));
    else if (S.kind == "Brick") S.g.reset(new ContactGeometry::Brick(S.ext));
    else if (S.kind == "HeightMap") S.g.reset(new ContactGeometry::SmoothHeightMap(*S.surf));
}
static Shape& makeShape(int idx, long seed) {
    static std::map<long, Shape> cache;
    const long key = idx + 1000 * seed;
    auto it = cache.find(key);
    if (it == cache.end()) it = cache.emplace(key, buildShape(idx, seed)).first;
    else freshGeometry(it->second);
    return it->second;
}

// Query lattices.  A: symmetric lattice through the origin (rich in degenerate, symmetry-plane queries);
// B: the same lattice shifted by a generic offset (no zero coordinates).  Both are scaled by the shape's
// half extents times a generic factor, so that points fall inside, near and outside the surface.
static std::vector<Vec3> buildLattice(const Shape& S, bool thorough, long seed);
static const std::vector<Vec3>& queryLattice(const Shape& S, bool thorough, long seed) {
    static std::map<std::string, std::vector<Vec3>> cache;
    const std::string key = S.name + "#" + std::to_string(seed);
    auto it = cache.find(key);
    if (it == cache.end()) it = cache.emplace(key, buildLattice(S, thorough, seed)).first;
    return it->second;
}
static std::vector<Vec3> buildLattice(const Shape& S, bool thorough, long seed) {
    std::vector<Vec3> q;
    const int nA = thorough ? 4 : 3, nB = thorough ? 3 : 2;
    const double gA[3] = {0.49, 0.53, 0.445}, gB[3] = {0.61, 0.57, 0.66};
    const double g1 = gA[((seed % 3) + 3) % 3] * (thorough ? 0.75 : 1), g2 = gB[((seed / 3 % 3) + 3) % 3] * (thorough ? 0.75 : 1);
    for (int i = -nA; i <= nA; ++i) for (int j = -nA; j <= nA; ++j) for (int k = -nA; k <= nA; ++k)
        q.push_back(Vec3(i * g1 * S.ext[0], j * g1 * S.ext[1], k * g1 * S.ext[2]));
    const Vec3 off(0.137, -0.211, 0.173);
    for (int i = -nB; i <= nB; ++i) for (int j = -nB; j <= nB; ++j) for (int k = -nB; k <= nB; ++k)
        q.push_back(Vec3((i * g2 + off[0]) * S.ext[0], (j * g2 + off[1]) * S.ext[1], (k * g2 + off[2]) * S.ext[2]));
    for (auto& p : S.special) q.push_back(p);
    return q;
}

static std::vector<Vec3> directions() {
    std::vector<Vec3> d = gk::dirs26();
    d.push_back(Vec3(0.31, -0.77, 0.52)); d.push_back(Vec3(-0.9, 0.13, 0.41)); d.push_back(Vec3(0.05, 0.02, -1));
    return d;
}

static bool isNaN3(const Vec3& v) { return std::isnan(v[0]) || std::isnan(v[1]) || std::isnan(v[2]); }

// degenerate-query classification (names the input class in violation keys)
static std::string queryClass(const Shape& S, const Vec3& q) {
    const double e = 1e-12 * S.scale;
    if (S.kind == "Sphere") return q.norm() <= e ? "centre" : "generic";
    if (S.kind == "Ellipsoid") {
        if (q.norm() <= e) return "centre";
        if (q[0] == 0 || q[1] == 0 || q[2] == 0) return "symmetry-plane";
        return "generic";
    }
    if (S.kind == "Cylinder") return std::hypot(q[0], q[1]) <= e ? "axis" : "generic";
    if (S.kind == "Torus") {
        if (std::hypot(q[0], q[1]) <= e) return "axis";
        if (std::hypot(std::hypot(q[0], q[1]) - S.R, q[2]) <= e) return "centre-circle";
        return "generic";
    }
    return "generic";
}

int main(int argc, char** argv) {
    verif::Run run("C34", argc, argv);
    run.setDeadline(300, 2400);
    const bool thorough = run.thorough();
    // value sets for the continuous parameters (3 size factors x 3 lattice scales): quick = the one selected by VERIF_SEED, thorough = all 9
    std::vector<long> vseeds; if (thorough) for (long v = 0; v < 9; ++v) vseeds.push_back(v); else vseeds.push_back(((run.seed % 9) + 9) % 9);
    const int NVS = (int)vseeds.size();
    long seed = vseeds[0];
    run.rule = "E3: catalogue of 19 shapes (HalfSpace, Sphere, 5 Ellipsoids incl. two-equal/all-equal/thin, Cylinder, 2 Tori, 2 Bricks, 3 SmoothHeightMaps, "
               "4 TriangleMeshes) x complete query lattices (symmetric 7^3 [9^3 thorough] lattice through the origin + generically shifted 5^3 [7^3] lattice + "
               "degenerate points: centre, axes, on-surface, focal/medial points) x 29 directions (26 lattice + 3 generic) x ray origins; a case = "
               "(shape, query); non-trivial = the reference is defined (query not in a tolerance band of the surface for sign clauses); plus E2 section 'setters': "
               "6 kinds with parameter setters x 4 setter histories (<= 2 calls, also on a handle copy) x the whole query battery, compared exactly with a freshly constructed object";
    run.assumptions = {"continuous parameters (sizes, lattice scale) come from 3 fixed value sets selected by VERIF_SEED; thorough uses a finer lattice",
                       "no accuracy is documented for the iterative ellipsoid solver: the bound is 100x the worst residual measured on the unchanged tree",
                       "queries inside a tolerance band of the surface / grazing rays / rays starting on the surface are counted as unspecified, not compared",
                       "SmoothHeightMap curvature and gradient oracles use the library's own value function (self-consistency, as the property states)"};

    std::vector<Vec3> dirs = directions();
    std::string sectionWall; double tPrev = run.elapsed();
    auto mark = [&](const char* nm) { double t = run.elapsed(); sectionWall += std::string(sectionWall.empty() ? "{" : ", ") + "\"" + nm + "\": " + verif::jsonNum(t - tPrev); tPrev = t; };
    // -------- enumerate (shape, query) pairs once; sizes are the same in every process
    std::vector<int> nQ(kNumShapes);
    std::vector<int64_t> qBase(kNumShapes + 1, 0);
    for (int s = 0; s < kNumShapes; ++s) { Shape& S = makeShape(s, seed); nQ[s] = (int)queryLattice(S, thorough, seed).size(); qBase[s + 1] = qBase[s] + nQ[s]; }
    auto locate = [&](int64_t idx, int& s, int& qi) { s = 0; while (idx >= qBase[s + 1]) ++s; qi = (int)(idx - qBase[s]); };

    // sanity of the reference meshes (harness self-check)
    for (int s = 0; s < kNumShapes; ++s) {
        Shape& S = makeShape(s, seed);
        if (S.kind != "Mesh") continue;
        for (auto& f : S.mesh.f) {
            Vec3 n = (S.mesh.v[f[1]] - S.mesh.v[f[0]]) % (S.mesh.v[f[2]] - S.mesh.v[f[0]]);
            Vec3 c = (S.mesh.v[f[0]] + S.mesh.v[f[1]] + S.mesh.v[f[2]]) / 3;
            if (dot(n, c) <= 0) run.harnessError("reference mesh " + S.name + " has an inward face");
        }
    }

    // =================================================================================== section 1: nearest point
    run.parallel("nearest", qBase[kNumShapes] * NVS, [&](int64_t idx0) {
        const long seed = vseeds[idx0 / qBase[kNumShapes]]; const int64_t idx = idx0 % qBase[kNumShapes];
        int si, qi; locate(idx, si, qi);
        Shape& S = makeShape(si, seed);
        const Vec3 q = queryLattice(S, thorough, seed)[qi];
        const std::string cls = queryClass(S, q);
        auto where = [&] { return S.name + " valueset=" + std::to_string(seed) + " q=" + s3(q) + " class=" + cls; };
        auto rp = [&] { return run.replayHeader() + "shape=" + S.name + "\nq=" + s3(q) + "\n"; };
        const double L = S.scale;
        uint64_t ch = gk::hashVec(q, verif::hashStr(S.name + std::to_string(seed)));

        if (S.kind == "Brick") {
            // ContactGeometry::Brick::findNearestPoint is documented-by-assertion as not implemented (loud exception).
            bool in = false; UnitVec3 n;
            try { S.g->findNearestPoint(q, in, n); run.count("brick.findNearestPoint:returned"); }
            catch (const std::exception&) { run.count("unimplemented-loud:Brick.findNearestPoint"); }
            // The brick's nearest-point operators live in its Geo::Box.
            const Geo::Box& box = ContactGeometry::Brick::getAs(*S.g).getGeoBox();
            double sdq = S.sdRef(q); bool definite = std::abs(sdq) > 1e-12 * L;
            run.evaluation(ch, definite);
            bool wasIn1 = true, wasIn2 = false;
            Vec3 ps = box.findClosestPointOnSurface(q, wasIn1);
            Vec3 pb = box.findClosestPointOfSolidBox(q, wasIn2);
            run.residual("box-surface-point-on-surface", std::abs(S.sdRef(ps)) / L, 1e-14, where, rp);
            run.residual("box-surface-point-distance", std::abs((q - ps).norm() - std::abs(sdq)) / L, 1e-14, where, rp);
            double dSolid = sdq >= 0 ? 0 : -sdq;
            run.residual("box-solid-point-distance", std::abs((q - pb).norm() - dSolid) / L, 1e-14, where, rp);
            run.residual("box-solid-point-in-box", std::max(0.0, -S.sdRef(pb)) / L, 1e-14, where, rp);
            run.residual("box-distance-sqr", std::abs(box.findDistanceSqrToPoint(q) - dSolid * dSolid) / (L * L), 1e-13, where, rp);
            if (definite) {
                run.expect(wasIn1 == (sdq > 0) && wasIn2 == (sdq > 0), "box-inside-flag", [&] { return "Geo::Box inside flag wrong at " + where(); }, rp);
                run.expect(box.containsPoint(q) == (sdq > 0), "box-containsPoint", [&] { return "Geo::Box::containsPoint wrong at " + where(); }, rp);
            } else run.count("unspecified:inside-band");
            run.outcome(gk::hashVec(ps, gk::hashVec(pb, wasIn1)));
            if (idx % 997 == 0) run.sample(where() + " -> surface " + s3(ps) + " solid " + s3(pb) + " inside=" + std::to_string(wasIn1));
            return;
        }

        bool in1 = true, in2 = false; UnitVec3 n1, n2; Vec3 p(NaN), p2(NaN);
        try { p = S.g->findNearestPoint(q, in1, n1); p2 = S.g->findNearestPoint(q, in2, n2); }
        catch (const std::exception& e) {
            run.evaluation(ch, false);
            run.violation("nearest-exception/" + S.kind, std::string("findNearestPoint threw: ") + e.what() + " at " + where(), rp());
            return;
        }
        if (S.kind == "HeightMap") {
            // assert(false) stub: silently returns NaN in release builds.
            run.evaluation(ch, true);
            run.expect(!isNaN3(p), "unimplemented-silent/SmoothHeightMap.findNearestPoint",
                       [&] { return "SmoothHeightMap::findNearestPoint returns " + s3(p) + " without any error (assert(false) stub) at " + where(); }, rp);
            run.outcome(gk::hashVec(p, 7));
            return;
        }
        const double dq = S.distRef(q);
        const double sdq = S.sdRef(q);
        // the ellipsoid solver finds polynomial roots: repeated radii give repeated roots and a much lower accuracy
        const bool repeated = S.kind == "Ellipsoid" && (S.radii[0] == S.radii[1] || S.radii[1] == S.radii[2] || S.radii[0] == S.radii[2]);
        const std::string sub = S.kind == "Ellipsoid" ? (repeated ? "Ellipsoid-repeated-radii" : "Ellipsoid-distinct-radii") : S.kind;
        const double band = (S.exactSD ? 1e-12 : 1e-9) * L;
        const bool definite = std::abs(sdq) > band;
        run.evaluation(ch, definite);
        run.count("class:" + S.kind + "/" + cls);
        if (run.verbose) fprintf(stderr, "%s -> p=%s inside=%d/%d n=%s dRef=%.17g sdRef=%.17g\n", where().c_str(), s3(p).c_str(), (int)in1, (int)in2, s3(Vec3(n1)).c_str(), dq, sdq);

        // (a) outputs are set
        run.expect(in1 == in2, "nearest-inside-unset/" + S.kind, [&] { return "inside flag is not assigned by findNearestPoint (returns the caller's preset value) at " + where(); }, rp);
        run.expect(p == p2 || isNaN3(p), "nearest-nondeterministic/" + S.kind, [&] { return "two identical calls returned different points at " + where(); }, rp);
        bool pOK = run.expect(gk::finite3(p), "nearest-nan/" + S.kind + "/" + cls, [&] { return "findNearestPoint returned " + s3(p) + " at " + where(); }, rp);
        bool nOK = gk::finite3(Vec3(n1));
        if (pOK) run.expect(nOK, "nearest-normal-unset-or-nan/" + S.kind, [&] { return "a finite point was returned but the normal is NaN (not assigned) at " + where(); }, rp);
        if (pOK) {
            // (b) p is on the surface; (c) no surface point is closer
            // Ellipsoid: degree-6 polynomial root finding.  Simple roots (distinct radii, no zero coordinate): worst measured
            // 1.4e-13; repeated radii or a zero query coordinate give multiple roots: worst measured 2.0e-5 (no accuracy documented).
            const double tolEll = (!repeated && cls == "generic") ? 1e-10 : 2e-3;
            const double tolSurf = (S.kind == "Ellipsoid" ? tolEll : 1e-12), tolDist = tolSurf;
            double onSurf = S.kind == "Mesh" ? S.distRef(p) : std::abs(S.sdRef(p));
            run.residual("nearest-on-surface/" + sub + "/" + cls, onSurf / L, tolSurf, where, rp);
            run.residual("nearest-is-closest/" + sub + "/" + cls, std::max(0.0, (q - p).norm() - dq) / L, tolDist, where, rp);
            // (d) normal: unit, outward normal of the surface at p, and (smooth shapes) p-q parallel to it
            if (nOK) {
                run.residual("nearest-normal-unit", std::abs(Vec3(n1).norm() - 1), 1e-13, where, rp, S.kind);
                if (S.kind == "Mesh") {
                    double bestN = INFINITY; bool facing = false;
                    for (auto& f : S.mesh.f) {
                        Vec3 cp; double d2 = gk::closestPtTriangle(p, S.mesh.v[f[0]], S.mesh.v[f[1]], S.mesh.v[f[2]], cp);
                        if (std::sqrt(d2) > 1e-11 * L) continue;
                        Vec3 nf = (S.mesh.v[f[1]] - S.mesh.v[f[0]]) % (S.mesh.v[f[2]] - S.mesh.v[f[0]]); nf /= nf.norm();
                        bestN = std::min(bestN, (Vec3(n1) - nf).norm()); if (dot(Vec3(n1), nf) > 0) facing = true;
                    }
                    if (!S.meshSmooth) run.residual("nearest-normal-is-face-normal/Mesh", bestN, 1e-12, where, rp);
                    else run.expect(facing, "nearest-normal-outward/Mesh-smooth", [&] { return "interpolated normal points into the mesh at " + where(); }, rp);
                } else if (onSurf <= tolSurf * L) {
                    Vec3 gr = S.gradRef(p); double gn = gr.norm();
                    if (gn > 0 && gk::finite3(gr)) run.residual("nearest-normal-vs-gradient/" + sub, (Vec3(n1) + gr / gn).norm(), 1e-12, where, rp, cls);
                    double dpq = (q - p).norm();
                    if (dpq > 1e-6 * L) run.residual("nearest-offset-parallel-to-normal/" + sub, (((q - p) / dpq) % Vec3(n1)).norm(), 1e-10, where, rp, cls);
                }
            }
        }
        // (e) inside flag = sign of the independent implicit function (three-valued inside the band)
        if (definite && in1 == in2) run.expect(in1 == (sdq > 0), "nearest-inside-flag/" + S.kind, [&] { return "inside=" + std::to_string(in1) + " but reference signed distance " + sd(sdq) + " at " + where(); }, rp);
        else run.count("unspecified:inside-band");
        // (f) the library's own implicit function has the documented sign (positive inside)
        if (S.smooth && definite) {
            double v = S.g->calcSurfaceValue(q);
            run.expect((v > 0) == (sdq > 0), "implicit-sign/" + S.kind, [&] { return "calcSurfaceValue=" + sd(v) + " but reference signed distance " + sd(sdq) + " at " + where(); }, rp);
        }
        // (g) mesh: the (face,uv) overload names the same point
        if (S.kind == "Mesh") {
            const auto& M = ContactGeometry::TriangleMesh::getAs(*S.g);
            bool in3 = false; int face = -1; Vec2 uv(NaN);
            Vec3 p3 = M.findNearestPoint(q, in3, face, uv);
            bool faceOK = run.expect(face >= 0 && face < M.getNumFaces(), "mesh-nearest-face-index", [&] { return "face index " + std::to_string(face) + " at " + where(); }, rp);
            if (faceOK) {
                run.residual("mesh-nearest-uv-names-point", (M.findPoint(face, uv) - p3).norm() / L, 1e-12, where, rp);
                run.expect(uv[0] >= -1e-12 && uv[1] >= -1e-12 && uv[0] + uv[1] <= 1 + 1e-12, "mesh-nearest-uv-in-triangle", [&] { return "uv outside the triangle at " + where(); }, rp);
                Vec2 uvf(NaN); Vec3 pf = M.findNearestPointToFace(q, face, uvf); Vec3 cp;
                double d2 = gk::closestPtTriangle(q, S.mesh.v[S.mesh.f[face][0]], S.mesh.v[S.mesh.f[face][1]], S.mesh.v[S.mesh.f[face][2]], cp);
                run.residual("mesh-nearest-point-to-face", std::abs((q - pf).norm() - std::sqrt(d2)) / L, 1e-12, where, rp);
            }
            run.expect(p3 == p && in3 == in1, "mesh-nearest-overloads-agree", [&] { return "the two findNearestPoint overloads disagree at " + where(); }, rp);
        }
        run.outcome(gk::hashVec(p, gk::hashVec(Vec3(n1), in1)));
        if (idx % 1499 == 0) run.sample(where() + " -> p=" + s3(p) + " inside=" + std::to_string(in1) + " n=" + s3(Vec3(n1)) + " dRef=" + sd(dq));
    });
    mark("nearest");

    // =================================================================================== section 2: implicit function, gradient, Hessian
    run.parallel("implicit", qBase[kNumShapes] * NVS, [&](int64_t idx0) {
        const long seed = vseeds[idx0 / qBase[kNumShapes]]; const int64_t idx = idx0 % qBase[kNumShapes];
        int si, qi; locate(idx, si, qi);
        Shape& S = makeShape(si, seed);
        if (!S.smooth) return;
        const Vec3 q = queryLattice(S, thorough, seed)[qi];
        auto where = [&] { return S.name + " valueset=" + std::to_string(seed) + " q=" + s3(q); };
        auto rp = [&] { return run.replayHeader() + "shape=" + S.name + "\nq=" + s3(q) + "\n"; };
        const ContactGeometry& g = *S.g;
        const double L = S.scale, h = 1e-3 * L;
        // the height map is defined on a rectangle only; stay 2.5h inside it
        if (S.kind == "HeightMap") {
            bool ok = true;
            for (int a = 0; a < 2; ++a) for (int sgn = -1; sgn <= 1; sgn += 2) { Vec3 t = q; t[a] += sgn * 2.5 * h; ok = ok && g.isSurfaceDefined(t); }
            if (!ok) {
                run.count("skipped:heightmap-outside-domain");
                if (!g.isSurfaceDefined(q)) {
                    bool threw = false; try { g.calcSurfaceValue(q); } catch (const std::exception&) { threw = true; }
                    run.expect(threw, "heightmap-outside-domain-throws", [&] { return "calcSurfaceValue outside the defined rectangle did not throw (documented) at " + where(); }, rp);
                }
                return;
            }
        }
        run.evaluation(gk::hashVec(q, verif::hashStr(S.name + std::to_string(seed) + "/implicit")), true);
        const Function& F = g.getImplicitFunction();
        if (S.kind == "Torus" && std::hypot(q[0], q[1]) < 2.5 * h) {
            // the torus function depends on |xy|: it has a kink on the z axis and no gradient there.  Only the
            // documented promise "calcSurfaceUnitNormal never returns NaN" is checked.
            UnitVec3 n = g.calcSurfaceUnitNormal(q);
            run.expect(gk::finite3(Vec3(n)) && std::abs(Vec3(n).norm() - 1) < 1e-12, "unit-normal-at-singular-point/" + S.kind, [&] { return "calcSurfaceUnitNormal returned " + s3(Vec3(n)) + " on the torus axis (documented: a valid direction, never NaN) at " + where(); }, rp);
            run.count("skipped:torus-axis-nondifferentiable");
            return;
        }
        const double v = g.calcSurfaceValue(q);
        const Vec3 gr = g.calcSurfaceGradient(q);
        const Mat33 H = g.calcSurfaceHessian(q);
        // scale of f and its derivatives near q (for relative tolerances)
        double fs = std::abs(v); for (int a = 0; a < 3; ++a) fs = std::max(fs, std::abs(gr[a]) * L);
        for (int a = 0; a < 3; ++a) for (int b = 0; b < 3; ++b) fs = std::max(fs, std::abs(H(a, b)) * L * L);
        if (!(fs > 0)) fs = 1;
        // the Function object and the calcSurface* operators must describe the same surface (same sign, same zero set, parallel gradients)
        {
            Vector x(3); for (int a = 0; a < 3; ++a) x[a] = q[a];
            double vf = F.calcValue(x);
            if (std::abs(v) > 1e-12 * fs) run.expect((vf > 0) == (v > 0), "implicit-function-vs-calcSurfaceValue-sign/" + S.kind, [&] { return "getImplicitFunction().calcValue=" + sd(vf) + " calcSurfaceValue=" + sd(v) + " at " + where(); }, rp);
            Vec3 gf; for (int a = 0; a < 3; ++a) { Array_<int> c(1, a); gf[a] = F.calcDerivative(c, x); }
            if (gr.norm() > 1e-9 * fs / L && gf.norm() > 0)
                run.residual("implicit-function-gradient-parallel", (gf / gf.norm() - gr / gr.norm()).norm(), 1e-12, where, rp, S.kind);
            // finite differences of the Function object itself
            double fsf = std::abs(vf); for (int a = 0; a < 3; ++a) fsf = std::max(fsf, std::abs(gf[a]) * L);
            for (int a = 0; a < 3; ++a) for (int b = 0; b < 3; ++b) { Array_<int> c2(2); c2[0] = a; c2[1] = b; fsf = std::max(fsf, std::abs(F.calcDerivative(c2, x)) * L * L); }
            if (!(fsf > 0)) fsf = 1;
            for (int a = 0; a < 3; ++a) {
                bool ok; double d = gk::fd1([&](double s) { Vector y = x; y[a] += s; return F.calcValue(y); }, h, 1e-7 * fsf / L, ok);
                if (!ok) { run.count("fd-skipped:function-gradient"); continue; }
                run.residual("function-derivative-vs-fd", std::abs(d - gf[a]) * L / fsf, 3e-6, where, rp, S.kind);
                for (int b = 0; b < 3; ++b) {
                    Array_<int> c2(2); c2[0] = a; c2[1] = b;
                    bool ok2; double d2 = gk::fd1([&](double s) { Vector y = x; y[b] += s; Array_<int> c(1, a); return F.calcDerivative(c, y); }, h, 1e-7 * fsf / (L * L), ok2);
                    if (!ok2) { run.count("fd-skipped:function-hessian"); continue; }
                    run.residual("function-second-derivative-vs-fd", std::abs(d2 - F.calcDerivative(c2, x)) * L * L / fsf, 3e-6, where, rp, S.kind);
                }
            }
        }
        // gradient vs finite differences of the value; Hessian vs finite differences of the gradient
        for (int a = 0; a < 3; ++a) {
            bool ok; double d = gk::fd1([&](double s) { Vec3 t = q; t[a] += s; return g.calcSurfaceValue(t); }, h, 1e-7 * fs / L, ok);
            if (!ok) { run.count("fd-skipped:gradient"); continue; }
            run.residual("gradient-vs-fd", std::abs(d - gr[a]) * L / fs, 3e-6, where, rp, S.kind);
        }
        for (int a = 0; a < 3; ++a) for (int b = 0; b < 3; ++b) {
            bool ok; double d = gk::fd1([&](double s) { Vec3 t = q; t[b] += s; return g.calcSurfaceGradient(t)[a]; }, h, 1e-7 * fs / (L * L), ok);
            if (!ok) { run.count("fd-skipped:hessian"); continue; }
            run.residual("hessian-vs-fd", std::abs(d - H(a, b)) * L * L / fs, 3e-6, where, rp, S.kind);
        }
        run.residual("hessian-symmetric", (H - H.transpose()).norm() * L * L / fs, 1e-14, where, rp, S.kind);
        // unit normal = -gradient/|gradient| (documented: outward, function positive inside)
        if (gr.norm() > 1e-9 * fs / L) {
            UnitVec3 n = g.calcSurfaceUnitNormal(q);
            run.residual("unit-normal-vs-gradient", (Vec3(n) + gr / gr.norm()).norm(), 1e-13, where, rp, S.kind);
            if (S.hasRef) { Vec3 rg = S.gradRef(q); if (gk::finite3(rg) && rg.norm() > 0) run.residual("unit-normal-vs-reference", (Vec3(n) + rg / rg.norm()).norm(), 1e-12, where, rp, S.kind); }
        } else {
            UnitVec3 n = g.calcSurfaceUnitNormal(q);   // documented: some valid direction, never NaN
            run.expect(gk::finite3(Vec3(n)) && std::abs(Vec3(n).norm() - 1) < 1e-12, "unit-normal-at-singular-point/" + S.kind, [&] { return "calcSurfaceUnitNormal returned " + s3(Vec3(n)) + " at singular point " + where(); }, rp);
            run.count("singular-gradient-points");
        }
        run.outcome(gk::hashVec(gr, verif::hashPod(v)));
        if (idx % 2999 == 0) run.sample(where() + " -> f=" + sd(v) + " grad=" + s3(gr));
    });
    mark("implicit");

    // =================================================================================== section 3: curvatures vs geometric finite differences
    struct CurvItem { int shape, pt; };
    std::vector<CurvItem> curvItems;
    for (int s = 0; s < kNumShapes; ++s) { Shape& S = makeShape(s, seed); if (S.smooth) for (int i = 0; i < (int)S.surfPts.size(); ++i) curvItems.push_back({s, i}); }
    run.parallel("curvature", (int64_t)curvItems.size() * NVS, [&](int64_t idx0) {
        const long seed = vseeds[idx0 / (int64_t)curvItems.size()]; const int64_t idx = idx0 % (int64_t)curvItems.size();
        Shape& S = makeShape(curvItems[idx].shape, seed);
        const ContactGeometry& g = *S.g;
        Vec3 p = S.surfPts[curvItems[idx].pt];
        const double L = S.scale;
        auto where = [&] { return S.name + " valueset=" + std::to_string(seed) + " p=" + s3(p); };
        auto rp = [&] { return run.replayHeader() + "shape=" + S.name + "\np=" + s3(p) + "\n"; };
        Vec3 gr = S.gradRef(p); if (!(gr.norm() > 0)) { run.count("skipped:curvature-singular"); return; }
        const Vec3 n = -gr / gr.norm();
        if (S.kind == "HeightMap") { for (int a = 0; a < 2; ++a) for (int sg = -1; sg <= 1; sg += 2) { Vec3 t = p; t[a] += sg * 0.15 * L; if (!g.isSurfaceDefined(t)) { run.count("skipped:curvature-near-heightmap-edge"); return; } } }
        run.evaluation(gk::hashVec(p, verif::hashStr(S.name + std::to_string(seed) + "/curv")), true);
        // height of the surface over the tangent plane at p, at tangential offset s along t
        auto height = [&](const Vec3& t, double s) {
            Vec3 base = p + s * t; double z = 0;
            for (int it = 0; it < 60; ++it) {
                Vec3 x = base + z * n; double f = S.fRef(x); double df = dot(S.gradRef(x), n);
                if (!(std::abs(df) > 0)) break;
                double dz = -f / df; z += dz; if (std::abs(dz) < 1e-16 * L) break;
            }
            return z;
        };
        // tangent basis
        Vec3 t1 = std::abs(n[0]) < 0.7 ? Vec3(1, 0, 0) : Vec3(0, 1, 0); t1 = t1 - n * dot(t1, n); t1 /= t1.norm(); Vec3 t2 = n % t1;
        // local curvature scale from a crude second difference (sets the finite-difference step and the residual scale)
        double kscale = 1 / L;
        { const double h0 = 1e-3 * L; for (const Vec3& t : {t1, t2, (t1 + t2) / std::sqrt(2.0)}) kscale = std::max(kscale, std::abs((height(t, h0) + height(t, -h0)) / (h0 * h0))); }
        const double hC = 0.01 / kscale;
        auto fdCurv = [&](const Vec3& t, bool& ok) {
            double d2 = gk::fd2([&](double s) { return height(t, s); }, hC, 1e-6 * kscale, ok);
            if (run.verbose) { bool o2; double c = gk::fd2([&](double s) { return height(t, s); }, 2 * hC, 1e-7 * kscale, o2); fprintf(stderr, "  fdCurv t=%s k(h/2)=%.12g k(h)=%.12g ok=%d kscale=%g hC=%g\n", s3(t).c_str(), -d2, -c, (int)ok, kscale, hC); }
            return -d2; };
        double kmin = INFINITY, kmax = -INFINITY; int nDir = 0;
        for (int k = 0; k < 12; ++k) {
            double th = 0.17 + k * Pi / 12; Vec3 t = cos(th) * t1 + sin(th) * t2;
            bool ok; double kfd = fdCurv(t, ok);
            if (!ok) { run.count("fd-skipped:curvature"); continue; }
            ++nDir; kmin = std::min(kmin, kfd); kmax = std::max(kmax, kfd);
            double klib = g.calcSurfaceCurvatureInDirection(p, UnitVec3(t));
            run.residual("curvature-in-direction-vs-fd", std::abs(klib - kfd) / kscale, 1e-5, where, rp, S.kind);
        }
        // principal curvatures from the generic implicit operator and from the shape-specific operator
        for (int which = 0; which < 2; ++which) {
            Vec2 k(NaN); Rotation R;
            const std::string op = which == 0 ? "calcSurfacePrincipalCurvatures" : "calcCurvature";
            try { if (which == 0) g.calcSurfacePrincipalCurvatures(p, k, R); else g.calcCurvature(p, k, R); }
            catch (const std::exception& e) {
                if (S.kind == "Torus" && which == 1) { run.count("unimplemented-loud:Torus.calcCurvature"); continue; }
                run.violation("curvature-exception/" + S.kind + "/" + op, std::string(e.what()) + " at " + where(), rp()); continue;
            }
            if (!run.expect(std::isfinite(k[0]) && std::isfinite(k[1]) && gk::finite3(Vec3(R.x())), "curvature-nan/" + S.kind + "/" + op, [&] { return op + " returned NaN at " + where(); }, rp)) continue;
            run.expect(k[0] >= k[1] - 1e-12 / L, "curvature-order/" + op, [&] { return op + ": kmax " + sd(k[0]) + " < kmin " + sd(k[1]) + " at " + where(); }, rp);
            run.residual("curvature-frame-normal/" + op, (Vec3(R.z()) - n).norm(), 1e-9, where, rp, S.kind);
            run.residual("curvature-frame-orthonormal/" + op, (Mat33(R) * Mat33(R).transpose() - Mat33(1)).norm() + std::abs(det(Mat33(R)) - 1), 1e-12, where, rp, S.kind);
            bool ok1, ok2; Vec3 x = Vec3(R.x()) - n * dot(Vec3(R.x()), n), y = Vec3(R.y()) - n * dot(Vec3(R.y()), n);
            if (!(x.norm() > 0.5 && y.norm() > 0.5)) continue;
            double kx = fdCurv(x / x.norm(), ok1), ky = fdCurv(y / y.norm(), ok2);
            if (ok1) run.residual("kmax-is-curvature-along-x/" + op, std::abs(kx - k[0]) / kscale, 1e-5, where, rp, S.kind); else run.count("fd-skipped:curvature");
            if (ok2) run.residual("kmin-is-curvature-along-y/" + op, std::abs(ky - k[1]) / kscale, 1e-5, where, rp, S.kind); else run.count("fd-skipped:curvature");
            if (nDir > 0) {   // extremes over the 12 sampled directions
                run.residual("kmax-bounds-directional-curvatures/" + op, std::max(0.0, kmax - k[0]) / kscale, 1e-5, where, rp, S.kind);
                run.residual("kmin-bounds-directional-curvatures/" + op, std::max(0.0, k[1] - kmin) / kscale, 1e-5, where, rp, S.kind);
            }
            if (which == 0) {
                double K = g.calcGaussianCurvature(p);
                run.residual("gaussian-curvature-is-product", std::abs(K - k[0] * k[1]) * L * L, 1e-9, where, rp, S.kind);
                // geodesic torsion magnitude: |tau(t)| = |(kmax-kmin) sin(a) cos(a)|, a = angle from the kmax direction
                double a = 0.6; Vec3 t = cos(a) * Vec3(R.x()) + sin(a) * Vec3(R.y());
                double tau = g.calcSurfaceTorsionInDirection(p, UnitVec3(t));
                run.residual("geodesic-torsion-magnitude", std::abs(std::abs(tau) - std::abs((k[0] - k[1]) * sin(a) * cos(a))) * L, 1e-9, where, rp, S.kind);
            }
            run.outcome(verif::hashPod(k[0], verif::hashPod(k[1], which)));
        }
        if (idx % 97 == 0) run.sample(where() + " -> fd curvature range [" + sd(kmin) + "," + sd(kmax) + "]");
    });
    mark("curvature");

    // =================================================================================== section 4: support points
    run.parallel("support", (int64_t)kNumShapes * (int64_t)dirs.size() * NVS, [&](int64_t idx0) {
        const int64_t per = (int64_t)kNumShapes * (int64_t)dirs.size(); const long seed = vseeds[idx0 / per]; const int64_t idx = idx0 % per;
        Shape& S = makeShape((int)(idx / (int64_t)dirs.size()), seed);
        Vec3 d = dirs[idx % dirs.size()]; d /= d.norm();
        auto where = [&] { return S.name + " valueset=" + std::to_string(seed) + " d=" + s3(d); };
        auto rp = [&] { return run.replayHeader() + "shape=" + S.name + "\nd=" + s3(d) + "\n"; };
        const double L = S.scale;
        bool convex = S.g->isConvex();
        Vec3 sp(NaN); bool threw = false;
        try { sp = S.g->calcSupportPoint(UnitVec3(d)); } catch (const std::exception&) { threw = true; }
        run.evaluation(gk::hashVec(d, verif::hashStr(S.name + std::to_string(seed) + "/support")), convex && S.supportRef != nullptr);
        if (threw) { run.count(std::string("unimplemented-loud:") + S.kind + ".calcSupportPoint"); run.expect(!convex, "support-throws-on-convex/" + S.kind, [&] { return "calcSupportPoint threw for a shape reporting isConvex() at " + where(); }, rp); return; }
        if (isNaN3(sp)) {
            // assert(false) stubs.  For the infinite cylinder a support point exists only for directions normal to the axis.
            bool exists = S.kind != "Cylinder" || d[2] == 0;
            if (exists) run.expect(false, "unimplemented-silent/" + std::string(S.kind == "HeightMap" ? "SmoothHeightMap" : S.kind) + ".calcSupportPoint",
                                   [&] { return "calcSupportPoint silently returns NaN (assert(false) stub) at " + where(); }, rp);
            else run.count("unspecified:support-at-infinity");
            return;
        }
        if (!S.supportRef) { run.count("unspecified:support-of-nonconvex:" + S.kind); return; }
        run.residual("support-on-surface/" + S.kind, (S.exactSD ? std::abs(S.sdRef(sp)) : std::abs(S.sdRef(sp))) / L, 1e-13, where, rp);
        run.residual("support-value-vs-closed-form/" + S.kind, std::abs(dot(d, sp) - S.supportRef(d)) / L, 1e-13, where, rp);
        double best = -INFINITY; for (auto& x : S.sample) best = std::max(best, dot(d, x));
        run.residual("support-dominates-dense-sample/" + S.kind, std::max(0.0, best - dot(d, sp)) / L, 1e-13, where, rp);
        run.outcome(gk::hashVec(sp, 3));
        if (idx % 61 == 0) run.sample(where() + " -> support " + s3(sp) + " h(d)=" + sd(S.supportRef(d)));
    });
    mark("support");

    // =================================================================================== section 5: bounding spheres
    run.parallel("bsphere", (int64_t)kNumShapes * NVS, [&](int64_t idx0) {
        const long seed = vseeds[idx0 / kNumShapes]; const int64_t idx = idx0 % kNumShapes;
        Shape& S = makeShape((int)idx, seed);
        auto where = [&] { return S.name + " valueset=" + std::to_string(seed); };
        auto rp = [&] { return run.replayHeader() + "shape=" + S.name + "\n"; };
        Vec3 c(NaN); Real r = NaN; S.g->getBoundingSphere(c, r);
        run.evaluation(verif::hashStr(S.name + std::to_string(seed) + "/bsphere"), true);
        if (!S.finite) { run.expect(std::isinf(r) && r > 0, "bounding-sphere-of-infinite-shape/" + S.kind, [&] { return "radius " + sd(r) + " for an infinite shape " + where(); }, rp); return; }
        if (!run.expect(gk::finite3(c) && std::isfinite(r) && r > 0, "bounding-sphere-finite/" + S.kind, [&] { return "center " + s3(c) + " radius " + sd(r) + " for " + where(); }, rp)) return;
        double worst = 0; Vec3 at(0);
        for (auto& x : S.sample) { double e = (x - c).norm() - r; if (e > worst) { worst = e; at = x; } }
        run.residual("bounding-sphere-contains-sample/" + S.kind, worst / S.scale, 1e-13, [&] { return where() + " point " + s3(at); }, rp);
        double far = 0; for (auto& x : S.sample) far = std::max(far, (x - c).norm());
        if (seed == vseeds[0]) run.count("bsphere-slack-permille:" + S.name, (int64_t)(1000 * (r - far) / r));
        run.outcome(gk::hashVec(c, verif::hashPod(r)));
        run.sample(where() + " -> center " + s3(c) + " radius " + sd(r) + " farthest sample " + sd(far));
    });
    mark("bsphere");

    // =================================================================================== section 6: rays
    std::vector<Vec3> originLattice;
    { const int n = thorough ? 2 : 1; const double g = thorough ? 0.7 : 1.4;
      for (int i = -n; i <= n; ++i) for (int j = -n; j <= n; ++j) for (int k = -n; k <= n; ++k) originLattice.push_back(Vec3(i * g + 0.113, j * g - 0.071, k * g + 0.059));
      for (int i = -1; i <= 1; ++i) for (int j = -1; j <= 1; ++j) for (int k = -1; k <= 1; ++k) originLattice.push_back(Vec3(i * 1.5, j * 1.5, k * 1.5)); }
    const int64_t nRay = (int64_t)originLattice.size() * (int64_t)dirs.size();
    run.parallel("ray", kNumShapes * nRay * NVS, [&](int64_t idx0) {
        const long seed = vseeds[idx0 / (kNumShapes * nRay)]; const int64_t idx = idx0 % (kNumShapes * nRay);
        Shape& S = makeShape((int)(idx / nRay), seed);
        int64_t r = idx % nRay;
        Vec3 o0 = originLattice[r / dirs.size()]; Vec3 o(o0[0] * S.ext[0], o0[1] * S.ext[1], o0[2] * S.ext[2]);
        Vec3 d = dirs[r % dirs.size()]; d /= d.norm();
        auto where = [&] { return S.name + " valueset=" + std::to_string(seed) + " o=" + s3(o) + " d=" + s3(d); };
        auto rp = [&] { return run.replayHeader() + "shape=" + S.name + "\no=" + s3(o) + "\nd=" + s3(d) + "\n"; };
        const double L = S.scale;
        const Real preset = -7.25; Real dist = preset; UnitVec3 n(Vec3(0.6, 0, 0.8), true); bool hit = false, threw = false;
        try { hit = S.g->intersectsRay(o, UnitVec3(d), dist, n); } catch (const std::exception&) { threw = true; }
        uint64_t ch = gk::hashVec(o, gk::hashVec(d, verif::hashStr(S.name + std::to_string(seed) + "/ray")));
        if (threw) { run.evaluation(ch, false); run.count("unimplemented-loud:" + S.kind + ".intersectsRay"); return; }
        if (S.kind == "HeightMap") {
            run.evaluation(ch, true);
            run.expect(!(hit && dist == preset), "unimplemented-silent/SmoothHeightMap.intersectsRay",
                       [&] { return "SmoothHeightMap::intersectsRay returns true for every ray and leaves distance/normal unset (assert(false) stub) at " + where(); }, rp);
            return;
        }
        // reference: first root t >= 0 of the surface along the ray; three-valued
        bool refHit = false, unspecified = false; double tRef = NaN; Vec3 nRef(NaN);
        const double bandO = 1e-9 * L;
        if (S.kind == "HalfSpace") {
            if (std::abs(o[0]) <= bandO) unspecified = true;
            else if (d[0] == 0) refHit = false;
            else if (std::abs(d[0]) < 1e-9) unspecified = true;
            else if (-o[0] / d[0] > 0) { refHit = true; tRef = -o[0] / d[0]; nRef = Vec3(-1, 0, 0); }
        } else if (S.kind == "Sphere" || S.kind == "Ellipsoid" || S.kind == "Cylinder") {
            Vec3 a = S.kind == "Sphere" ? Vec3(S.r) : S.kind == "Cylinder" ? Vec3(S.r, S.r, Infinity) : S.radii;
            Vec3 os(o[0] / a[0], o[1] / a[1], o[2] / a[2]), ds(d[0] / a[0], d[1] / a[1], d[2] / a[2]);
            double A = ds.normSqr(), B = dot(os, ds), C = os.normSqr() - 1;
            if (std::abs(C) <= 1e-9) unspecified = true;
            else if (A == 0) refHit = false;
            else {
                double disc = B * B - A * C;
                if (std::abs(disc) <= 1e-9 * (B * B + std::abs(A * C))) unspecified = true;
                else if (disc < 0) refHit = false;
                else { double t = C > 0 ? (-B - std::sqrt(disc)) / A : (-B + std::sqrt(disc)) / A; if (t > 0) { refHit = true; tRef = t; } }
            }
            if (refHit) { Vec3 x = o + tRef * d; Vec3 gn(x[0] / (a[0] * a[0]), x[1] / (a[1] * a[1]), std::isinf(a[2]) ? 0.0 : x[2] / (a[2] * a[2])); nRef = gn / gn.norm(); }
        } else if (S.kind == "Mesh") {
            double tStrict = INFINITY, tLoose = INFINITY; Vec3 nStrict(NaN);
            for (auto& f : S.mesh.f) {
                gk::RayTri rt = gk::rayTriangle(o, d, S.mesh.v[f[0]], S.mesh.v[f[1]], S.mesh.v[f[2]]);
                if (std::abs(rt.cosIncidence) < 1e-9) { if (rt.margin > -1e-9) unspecified = unspecified || std::isfinite(rt.t); continue; }
                if (rt.t < -1e-9 * L) continue;
                if (rt.margin > -1e-9) tLoose = std::min(tLoose, rt.t);
                if (rt.margin > 1e-9 && rt.t > 1e-9 * L && rt.t < tStrict) { tStrict = rt.t; Vec3 nf = (S.mesh.v[f[1]] - S.mesh.v[f[0]]) % (S.mesh.v[f[2]] - S.mesh.v[f[0]]); nStrict = nf / nf.norm(); }
            }
            if (tLoose < tStrict - 1e-9 * L) unspecified = true;     // an edge/vertex/on-surface graze comes first
            if (!unspecified && std::isfinite(tStrict)) { refHit = true; tRef = tStrict; nRef = nStrict; }
        } else { run.evaluation(ch, false); run.count("ray-no-reference:" + S.kind); return; }
        run.evaluation(ch, !unspecified);
        if (run.verbose) fprintf(stderr, "%s -> hit=%d dist=%.17g n=%s | ref hit=%d t=%.17g unspecified=%d\n", where().c_str(), (int)hit, dist, s3(Vec3(n)).c_str(), (int)refHit, tRef, (int)unspecified);
        if (hit && !(std::isfinite(dist) && gk::finite3(Vec3(n)))) {
            run.expect(false, "ray-hit-with-nan/" + S.kind, [&] { return "intersectsRay returned true with distance " + sd(dist) + " normal " + s3(Vec3(n)) + " (reference: " + (unspecified ? "unspecified" : refHit ? "hit" : "no hit") + ") at " + where(); }, rp);
            return;
        }
        if (hit) run.expect(std::isfinite(dist) && gk::finite3(Vec3(n)), "ray-hit-with-nan/" + S.kind, [&] { return "intersectsRay returned true with distance " + sd(dist) + " normal " + s3(Vec3(n)) + " at " + where(); }, rp);
        else run.expect(dist == preset && Vec3(n) == Vec3(0.6, 0, 0.8), "ray-miss-leaves-outputs-unchanged/" + S.kind, [&] { return "no hit reported but distance/normal were modified at " + where(); }, rp);
        if (unspecified) { run.count("unspecified:ray-grazing-or-on-surface"); return; }
        if (!run.expect(hit == refHit, std::string(refHit ? "ray-missed-hit/" : "ray-phantom-hit/") + S.kind, [&] { return "intersectsRay=" + std::to_string(hit) + " reference=" + std::to_string(refHit) + " (t=" + sd(tRef) + ") at " + where(); }, rp)) return;
        if (hit && std::isfinite(dist)) {
            run.residual("ray-distance/" + S.kind, std::abs(dist - tRef) / L, 1e-11, where, rp);
            if (gk::finite3(Vec3(n)) && !(S.kind == "Mesh" && S.meshSmooth)) run.residual("ray-normal/" + S.kind, (Vec3(n) - nRef).norm(), 1e-11, where, rp);
        }
        run.count(hit ? "ray-hits" : "ray-misses");
        run.outcome(verif::hashPod(hit ? dist : -1.0, verif::hashStr(S.kind)));
        if (idx % 4999 == 0) run.sample(where() + " -> hit=" + std::to_string(hit) + (hit ? " dist=" + sd(dist) : ""));
    });
    mark("ray");

    // =================================================================================== section 7: setter histories (E2)
    // Every parameter setter of the catalogue (Sphere/Cylinder::setRadius, Ellipsoid::setRadii, Brick::setHalfLengths,
    // Torus::setTorusRadius/setTubeRadius) x every history of <= 2 setter calls ending in the catalogue parameters,
    // also applied to a handle copy: the object reached through the history must answer the whole query battery
    // exactly like an object constructed directly with those parameters (which sections 1-6 compare with the references).
    std::vector<int> setShapes;
    for (int s = 0; s < kNumShapes; ++s) { const std::string k = makeShape(s, seed).kind; if (k == "Sphere" || k == "Ellipsoid" || k == "Cylinder" || k == "Torus" || k == "Brick") setShapes.push_back(s); }
    const int kNumHist = 4;
    static const char* histNames[kNumHist] = {"ctor(other).set(final)", "ctor(final).set(other).set(final)", "copy-of(ctor(other)).set(final)", "ctor(other).set(other2).set(final)"};
    run.parallel("setters", (int64_t)setShapes.size() * kNumHist * NVS, [&](int64_t idx0) {
        const int64_t per = (int64_t)setShapes.size() * kNumHist; const long seed = vseeds[idx0 / per]; const int64_t idx = idx0 % per;
        Shape& S = makeShape(setShapes[idx / kNumHist], seed); const int h = (int)(idx % kNumHist);
        auto where = [&] { return S.name + " valueset=" + std::to_string(seed) + " history=" + histNames[h]; };
        auto rp = [&] { return run.replayHeader() + "shape=" + S.name + "\nhistory=" + histNames[h] + "\n"; };
        // parameters: final = catalogue values; other / other2 = distinct generic values
        auto ctor = [&](int which) -> ContactGeometry* {   // which: 0 final, 1 other, 2 other2
            const double f = which == 0 ? 1 : which == 1 ? 1.37 : 0.61; const Vec3 fv = which == 0 ? Vec3(1) : which == 1 ? Vec3(1.37, 0.83, 1.21) : Vec3(0.61, 1.9, 0.77);
            if (S.kind == "Sphere") return new ContactGeometry::Sphere(S.r * f);
            if (S.kind == "Cylinder") return new ContactGeometry::Cylinder(S.r * f);
            if (S.kind == "Ellipsoid") return new ContactGeometry::Ellipsoid(Vec3(S.radii[0] * fv[0], S.radii[1] * fv[1], S.radii[2] * fv[2]));
            if (S.kind == "Brick") return new ContactGeometry::Brick(Vec3(S.ext[0] * fv[0], S.ext[1] * fv[1], S.ext[2] * fv[2]));
            return new ContactGeometry::Torus(S.R * fv[0], S.r * fv[1]);
        };
        auto set = [&](ContactGeometry& g, int which) {
            const double f = which == 0 ? 1 : which == 1 ? 1.37 : 0.61; const Vec3 fv = which == 0 ? Vec3(1) : which == 1 ? Vec3(1.37, 0.83, 1.21) : Vec3(0.61, 1.9, 0.77);
            if (S.kind == "Sphere") ContactGeometry::Sphere::updAs(g).setRadius(S.r * f);
            else if (S.kind == "Cylinder") ContactGeometry::Cylinder::updAs(g).setRadius(S.r * f);
            else if (S.kind == "Ellipsoid") ContactGeometry::Ellipsoid::updAs(g).setRadii(Vec3(S.radii[0] * fv[0], S.radii[1] * fv[1], S.radii[2] * fv[2]));
            else if (S.kind == "Brick") ContactGeometry::Brick::updAs(g).setHalfLengths(Vec3(S.ext[0] * fv[0], S.ext[1] * fv[1], S.ext[2] * fv[2]));
            else { ContactGeometry::Torus::updAs(g).setTorusRadius(S.R * fv[0]); ContactGeometry::Torus::updAs(g).setTubeRadius(S.r * fv[1]); }
        };
        std::unique_ptr<ContactGeometry> fresh(ctor(0)), hist;
        try {
            if (h == 0) { hist.reset(ctor(1)); set(*hist, 0); }
            else if (h == 1) { hist.reset(ctor(0)); set(*hist, 1); set(*hist, 0); }
            else if (h == 2) { std::unique_ptr<ContactGeometry> src(ctor(1)); hist.reset(new ContactGeometry(*src)); set(*hist, 0); }
            else { hist.reset(ctor(1)); set(*hist, 2); set(*hist, 0); }
        } catch (const std::exception& e) { run.violation("setter-history-exception/" + S.kind, std::string(e.what()) + " at " + where(), rp()); return; }
        // the battery: (label, values) pairs; exceptions and NaN are values too
        typedef std::vector<std::pair<std::string, std::vector<double>>> Battery;
        const std::vector<Vec3>& Q = queryLattice(S, thorough, seed);
        auto battery = [&](const ContactGeometry& g) {
            Battery B;
            auto put = [&](const std::string& op, const std::function<void(std::vector<double>&)>& f) {
                std::vector<double> v; try { f(v); } catch (const std::exception&) { v.assign(1, 12345.678); } B.emplace_back(op, v); };
            auto pv = [](std::vector<double>& v, const Vec3& x) { v.push_back(x[0]); v.push_back(x[1]); v.push_back(x[2]); };
            put("getBoundingSphere", [&](std::vector<double>& v) { Vec3 c; Real r; g.getBoundingSphere(c, r); pv(v, c); v.push_back(r); });
            for (size_t i = 0; i < Q.size(); i += 5) { const Vec3 q = Q[i];
                put("findNearestPoint", [&](std::vector<double>& v) { bool in; UnitVec3 n; Vec3 p = g.findNearestPoint(q, in, n); pv(v, p); v.push_back(in); pv(v, Vec3(n)); });
                if (S.smooth) {
                    put("calcSurfaceValue", [&](std::vector<double>& v) { v.push_back(g.calcSurfaceValue(q)); });
                    put("calcSurfaceGradient", [&](std::vector<double>& v) { pv(v, g.calcSurfaceGradient(q)); });
                }
                if (S.kind == "Ellipsoid" && q.norm() > 0)
                    put("findPointInSameDirection", [&](std::vector<double>& v) { pv(v, ContactGeometry::Ellipsoid::getAs(g).findPointInSameDirection(q)); });
            }
            if (S.smooth) for (const Vec3& p : S.surfPts) {
                put("calcSurfaceUnitNormal", [&](std::vector<double>& v) { pv(v, Vec3(g.calcSurfaceUnitNormal(p))); });
                put("calcSurfacePrincipalCurvatures", [&](std::vector<double>& v) { Vec2 k; Rotation R; g.calcSurfacePrincipalCurvatures(p, k, R); v.push_back(k[0]); v.push_back(k[1]); pv(v, Vec3(R.x())); pv(v, Vec3(R.z())); });
                if (S.kind != "Torus") put("calcCurvature", [&](std::vector<double>& v) { Vec2 k; Rotation R; g.calcCurvature(p, k, R); v.push_back(k[0]); v.push_back(k[1]); pv(v, Vec3(R.x())); pv(v, Vec3(R.z())); });
                put("calcGaussianCurvature", [&](std::vector<double>& v) { v.push_back(g.calcGaussianCurvature(p)); });
                put("calcSurfaceCurvatureInDirection", [&](std::vector<double>& v) { Vec3 n(g.calcSurfaceUnitNormal(p)); Vec3 t = std::abs(n[0]) < 0.7 ? Vec3(1, 0, 0) : Vec3(0, 1, 0); t -= n * dot(t, n); v.push_back(g.calcSurfaceCurvatureInDirection(p, UnitVec3(t))); });
                if (S.kind == "Ellipsoid") {
                    const ContactGeometry::Ellipsoid& e = ContactGeometry::Ellipsoid::getAs(g);
                    put("findUnitNormalAtPoint", [&](std::vector<double>& v) { pv(v, Vec3(e.findUnitNormalAtPoint(p))); });
                    put("findParaboloidAtPoint", [&](std::vector<double>& v) { Transform X; Vec2 k; e.findParaboloidAtPoint(p, X, k); v.push_back(k[0]); v.push_back(k[1]); pv(v, X.p()); pv(v, Vec3(X.R().x())); pv(v, Vec3(X.R().z())); });
                }
            }
            for (const Vec3& d0 : dirs) { const Vec3 d = d0 / d0.norm();
                if (g.isConvex() && !(S.kind == "Cylinder")) put("calcSupportPoint", [&](std::vector<double>& v) { pv(v, g.calcSupportPoint(UnitVec3(d))); });
                if (S.kind == "Ellipsoid") put("findPointWithThisUnitNormal", [&](std::vector<double>& v) { pv(v, ContactGeometry::Ellipsoid::getAs(g).findPointWithThisUnitNormal(UnitVec3(d))); });
                for (int o = 0; o < 2; ++o) { const Vec3 org = o == 0 ? Vec3(-2.3 * S.ext[0], 0.21 * S.ext[1], -0.17 * S.ext[2]) - 3 * S.scale * d : Vec3(0.11 * S.ext[0], -0.07 * S.ext[1], 0.05 * S.ext[2]);
                    put("intersectsRay", [&](std::vector<double>& v) { Real dist = -7.25; UnitVec3 n(Vec3(0.6, 0, 0.8), true); bool hit = g.intersectsRay(org, UnitVec3(d), dist, n); v.push_back(hit); v.push_back(dist); pv(v, Vec3(n)); }); }
            }
            return B;
        };
        const Battery bf = battery(*fresh), bh = battery(*hist);
        run.evaluation(verif::hashStr(S.name + std::to_string(seed) + "/setters/" + histNames[h]), true);
        if (bf.size() != bh.size()) { run.harnessError("setter batteries differ in length"); return; }
        std::map<std::string, double> worst; std::map<std::string, int> nOps; uint64_t oh = 0;
        for (size_t i = 0; i < bf.size(); ++i) {
            double w = 0;
            if (bf[i].second.size() != bh[i].second.size()) w = INFINITY;
            else for (size_t j = 0; j < bf[i].second.size(); ++j) { const double a = bf[i].second[j], b = bh[i].second[j];
                if (std::isnan(a) && std::isnan(b)) continue; if (a == b) continue;
                const double e = std::abs(a - b); w = std::max(w, std::isnan(e) ? INFINITY : e); oh = verif::hashPod(a, oh); }
            worst[bf[i].first] = std::max(worst[bf[i].first], w); ++nOps[bf[i].first];
        }
        for (auto& kv : worst) { const std::string op = kv.first; const double w = kv.second;
            run.expect(w == 0, "after-setters-differs-from-freshly-constructed/" + S.kind + "." + op, [&] { return op + " differs by " + sd(w) + " between the object reached through the setter history and one constructed with the same parameters: " + where(); }, rp);
            run.count("setter-battery-queries:" + op, nOps[op]); }
        run.outcome(verif::hashStr(S.kind, oh));
        run.sample(where() + " -> " + std::to_string(bf.size()) + " queries compared");
    });
    mark("setters");
    run.extraCoverage["section_wall_s"] = sectionWall + "}";

    return run.finish();
}
