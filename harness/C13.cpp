// C13 -- Interaction forces obey Newton's third law.
// Engine E3: every two-body element of the shared force alphabet (engine/forcemodels.h) x parameter set x all 16
// ordered body pairs over {Ground, b0, b1, b2} (incl. the same body twice and Ground-Ground) x 2 station / frame
// sets x 3 host trees x STATE; plus compliant contact (HuntCrossleyForce, ElasticFoundationForce,
// CompliantContactSubsystem) and CableSpring fixtures.  For the element alone (all bystanders disabled in the
// State) the spatial forces it applies to ALL bodies including Ground, shifted to one common point, must sum to
// zero (force and moment), at two different common points; observed through Force::calcForceContribution and
// through the system totals after realize(Dynamics).
#include "Simbody.h"
#include "verif.h"
#include "models.h"
#include "forcemodels.h"
#include "refkit.h"

using namespace SimTK;
using ref::LD; using ref::V3;

static const double TOL = 1e-11;      // calibration: worst relative residual on the unchanged tree ~4e-16 (notes/C13.md)

static V3 v3(const Vec3& v) { return {{(LD)v[0], (LD)v[1], (LD)v[2]}}; }
static LD norm3(const V3& a) { return sqrtl(ref::dot(a, a)); }
static V3 sub(const V3& a, const V3& b) { return {{a[0] - b[0], a[1] - b[1], a[2] - b[2]}}; }
static V3 addv(const V3& a, const V3& b) { return {{a[0] + b[0], a[1] + b[1], a[2] + b[2]}}; }

struct Balance { LD sumF = 0, sumM[2] = {0, 0}, scale = 0; int nNonzeroBodies = 0; };

// Sum of the spatial forces (moment about body origin, force) of all bodies incl. Ground, shifted to the common
// points P0 = Ground origin and P1 = generic point; harness long-double arithmetic.
static Balance balance(const SimbodyMatterSubsystem& matter, const State& s, const Vector_<SpatialVec>& F) {
    static const V3 P[2] = {{{0, 0, 0}}, {{0.7L, -1.3L, 0.4L}}};
    Balance B; V3 sF = {{0, 0, 0}}, sM[2] = {{{0, 0, 0}}, {{0, 0, 0}}};
    for (MobilizedBodyIndex b(0); b < matter.getNumBodies(); ++b) {
        const V3 f = v3(F[b][1]), m = v3(F[b][0]);
        const V3 o = v3(matter.getMobilizedBody(b).getBodyOriginLocation(s));
        if (norm3(f) != 0 || norm3(m) != 0) B.nNonzeroBodies++;
        sF = addv(sF, f);
        for (int k = 0; k < 2; ++k) {
            const V3 arm = sub(o, P[k]);
            sM[k] = addv(sM[k], addv(m, ref::cross(arm, f)));
            B.scale = std::max(B.scale, norm3(m) + norm3(arm) * norm3(f));
        }
        B.scale = std::max(B.scale, norm3(f));
    }
    B.sumF = norm3(sF); B.sumM[0] = norm3(sM[0]); B.sumM[1] = norm3(sM[1]);
    return B;
}

static bool sameForces(const Vector_<SpatialVec>& A, const Vector_<SpatialVec>& B, double* worst) {
    *worst = 0; if (A.size() != B.size()) { *worst = INFINITY; return false; }
    double scale = 0; for (int i = 0; i < A.size(); ++i) for (int k = 0; k < 2; ++k) scale = std::max(scale, std::max(A[i][k].norm(), B[i][k].norm()));
    for (int i = 0; i < A.size(); ++i) for (int k = 0; k < 2; ++k) *worst = std::max(*worst, (A[i][k] - B[i][k]).norm());
    if (scale > 0) *worst /= scale;
    return *worst <= 1e-14;
}

// ---------------------------------------------------------------- section "alphabet"
struct Unit { int host, elem, pset, attach; };

static void alphabetCase(verif::Run& run, const Unit& u, int stateKind, int valueSet, const std::string& desc) {
    // bystanders: present in the system, disabled in the State ("the element alone")
    Force::Gravity byGravity; Force::GlobalDamper byDamper; Force::TwoPointLinearSpring bySpring;
    auto C = fm::buildCase(u.host, u.elem, u.pset, u.attach, stateKind, valueSet, [&](mb::Model& M) {
        byGravity = Force::Gravity(M.forces, M.matter, Vec3(1.2, -9.1, 2.3));
        byDamper = Force::GlobalDamper(M.forces, M.matter, 0.9);
        bySpring = Force::TwoPointLinearSpring(M.forces, M.matter.Ground(), Vec3(1, 2, 3), M.bodies[2], Vec3(0.1, 0.2, 0.3), 11, 0.4);
    });
    mb::Model& M = *C->M; fm::Instance& I = C->I; State& s = C->s;
    byGravity.disable(s); byDamper.disable(s); bySpring.disable(s);
    M.system.realize(s, Stage::Velocity);
    auto where = [&] { return desc; };
    const fm::Attach& a = I.at;

    // documented preconditions
    LD nominal = 0;     // coarse magnitude of the action, only used as a floor for the relative scale (same-body / Ground-Ground cases)
    if (u.elem == fm::ELinearBushing) {
        Force::LinearBushing bu = Force::LinearBushing::downcast(I.force);
        const Vec6 q = bu.getQ(s), qd = bu.getQDot(s);
        if (std::abs(std::cos(q[1])) < 0.2) { run.count("skipped:bushing-near-documented-singularity"); run.evaluation(verif::hashStr(desc), false); return; }
        for (int i = 0; i < 6; ++i) nominal += (LD)I.p.K6[i] * std::abs(q[i]) + (LD)I.p.C6[i] * std::abs(qd[i]);
        nominal *= 1 + (LD)bu.getX_FM(s).p().norm();
    } else {
        const Vec3 p1 = fm::bodyOf(M, a.b1).findStationLocationInGround(s, a.s1), p2 = fm::bodyOf(M, a.b2).findStationLocationInGround(s, a.s2);
        const Vec3 v1 = fm::bodyOf(M, a.b1).findStationVelocityInGround(s, a.s1), v2 = fm::bodyOf(M, a.b2).findStationVelocityInGround(s, a.s2);
        const Real dist = (p2 - p1).norm();
        if (u.elem != fm::ECustomTorquePair && dist < 1e-3) { run.count("skipped:coincident-stations(documented-error)"); run.evaluation(verif::hashStr(desc), false); return; }
        nominal = (LD)I.p.k * (dist + std::abs(I.p.x0)) + (LD)I.p.c * (v2 - v1).norm() + std::abs(I.p.f);
        nominal *= 1 + std::max(p1.norm(), p2.norm());
    }

    // route A: the element's own contribution
    Vector_<SpatialVec> F; Vector_<Vec3> pF; Vector f;
    I.force.calcForceContribution(s, F, pF, f);
    run.expect(F.size() == M.matter.getNumBodies() && f.size() == s.getNU(), "contribution-array-sizes", [&] { return "calcForceContribution returned arrays of wrong size at " + desc; });
    Balance B = balance(M.matter, s, F);
    const bool nontrivial = B.scale > 0 || nominal > 0;
    run.evaluation(verif::hashStr(desc), nontrivial);
    if (B.scale > 0) run.count("cases-with-nonzero-applied-force"); else run.count("cases-with-zero-applied-force");
    if (a.b1 == a.b2) run.count("cases-same-body"); else if (a.b1 < 0 || a.b2 < 0) run.count("cases-with-Ground"); else run.count("cases-body-body");
    if (F[0][0].norm() + F[0][1].norm() > 0) run.count("cases-with-nonzero-Ground-entry");
    const LD scale = std::max(B.scale, nominal);
    const std::string en = fm::elemName(u.elem);
    if (scale > 0) {
        run.residual("sum-force/" + en, (double)(B.sumF / scale), TOL, where);
        run.residual("sum-moment-about-origin/" + en, (double)(B.sumM[0] / scale), TOL, where);
        run.residual("sum-moment-about-generic-point/" + en, (double)(B.sumM[1] / scale), TOL, where);
    }
    // only the two attached bodies may receive force ("any unused entry will be set to zero on return")
    bool stray = false;
    for (MobilizedBodyIndex b(0); b < M.matter.getNumBodies(); ++b) {
        const bool attached = b == fm::bodyOf(M, a.b1).getMobilizedBodyIndex() || b == fm::bodyOf(M, a.b2).getMobilizedBodyIndex();
        if (!attached && (F[b][0].norm() != 0 || F[b][1].norm() != 0)) stray = true;
    }
    run.expect(!stray, "force-on-unattached-body/" + en, [&] { return "a body that is not one of the two attachment bodies received a force at " + desc; });
    if (f.norm() != 0) run.count("unspecified:two-body-element-applies-mobility-force");

    // route B: system totals with every other element disabled
    M.system.realize(s, Stage::Dynamics);
    const Vector_<SpatialVec>& Fs = M.system.getRigidBodyForces(s, Stage::Dynamics);
    Balance Bs = balance(M.matter, s, Fs);
    const LD scaleS = std::max(Bs.scale, nominal);
    if (scaleS > 0) {
        run.residual("system-sum-force/" + en, (double)(Bs.sumF / scaleS), TOL, where);
        run.residual("system-sum-moment/" + en, (double)(std::max(Bs.sumM[0], Bs.sumM[1]) / scaleS), TOL, where);
    }
    double w = 0; sameForces(F, Fs, &w);
    run.residual("system-totals-vs-contribution/" + en, w, 1e-14, where);
    run.outcome(verif::hashMix(verif::hashPod((float)B.scale), verif::hashPod(B.nNonzeroBodies)));
    if (run.verbose) {
        printf("%s\n  element %s  nominal=%Lg scale=%Lg  |sumF|=%Lg |sumM(O)|=%Lg |sumM(P)|=%Lg\n", desc.c_str(), I.str().c_str(), nominal, B.scale, B.sumF, B.sumM[0], B.sumM[1]);
        for (int b = 0; b < F.size(); ++b) printf("  body %d: moment (%.15g %.15g %.15g) force (%.15g %.15g %.15g)\n", b, F[b][0][0], F[b][0][1], F[b][0][2], F[b][1][0], F[b][1][1], F[b][1][2]);
    }
}

// ---------------------------------------------------------------- section "contact-cable"
// Compliant contact and cable-spring fixtures on two bodies (or a body and Ground).  Enumerated: fixture kind x
// pair (Ground-body / body-body) x depth {separated, touching, shallow, deep} x velocity {rest, approaching,
// separating, sliding, spinning}.
struct ContactCase { int kind, pair, depth, vel; };
static const char* contactKindName(int k) { static const char* n[] = {"HuntCrossleyForce", "ElasticFoundationForce", "CompliantContact(HertzCircular)", "CompliantContact(mesh-sphere)", "CableSpring"}; return n[k]; }

static void contactCase(verif::Run& run, const ContactCase& c, const std::string& desc) {
    MultibodySystem sys; SimbodyMatterSubsystem matter(sys); GeneralForceSubsystem forces(sys);
    Body::Rigid body(MassProperties(1.3, Vec3(0.1, -0.15, 0.2), Inertia(0.9, 1.2, 1.4, 0.1, -0.07, 0.05).shiftFromMassCenter(Vec3(0.1, -0.15, 0.2), 1.3)));
    MobilizedBody::Free A(matter.Ground(), Transform(Vec3(0)), body, Transform(Vec3(0)));
    MobilizedBody::Free Bd(matter.Ground(), Transform(Vec3(0)), body, Transform(Vec3(0)));
    const Real R = 0.5;
    const Real depthTable[4] = {-0.2, 0.0, 0.01, 0.12};   // penetration (negative: separated)
    const Real depth = depthTable[c.depth];
    auto where = [&] { return desc; };
    std::unique_ptr<GeneralContactSubsystem> gcs; std::unique_ptr<ContactTrackerSubsystem> tracker; std::unique_ptr<CompliantContactSubsystem> ccs;
    Force elementForce; bool haveElement = false;
    MobilizedBody first = c.pair == 0 ? (MobilizedBody)matter.updGround() : (MobilizedBody)A;   // surface 1 carrier
    // geometry: a sphere of radius R on body Bd; the partner is a half space (pair 0, on Ground) or a sphere (pair 1, on A)
    if (c.kind == 0 || c.kind == 1) {
        gcs.reset(new GeneralContactSubsystem(sys));
        ContactSetIndex set = gcs->createContactSet();
        if (c.kind == 0) {
            if (c.pair == 0) gcs->addBody(set, matter.updGround(), ContactGeometry::HalfSpace(), Transform(Rotation(-Pi / 2, ZAxis), Vec3(0)));   // half space y<0
            else gcs->addBody(set, A, ContactGeometry::Sphere(R), Transform(Vec3(0.1, 0, 0.05)));
            gcs->addBody(set, Bd, ContactGeometry::Sphere(R), Transform(Vec3(0, 0.05, 0.1)));
            HuntCrossleyForce hc(forces, *gcs, set);
            hc.setBodyParameters(ContactSurfaceIndex(0), 1e5, 0.6, 0.7, 0.5, 0.3);
            hc.setBodyParameters(ContactSurfaceIndex(1), 3e5, 0.3, 0.9, 0.6, 0.2);
            hc.setTransitionVelocity(0.05);
            elementForce = hc; haveElement = true;
        } else {
            PolygonalMesh sphereMesh = PolygonalMesh::createSphereMesh(R, 2);
            if (c.pair == 0) gcs->addBody(set, matter.updGround(), ContactGeometry::HalfSpace(), Transform(Rotation(-Pi / 2, ZAxis), Vec3(0)));
            else gcs->addBody(set, A, ContactGeometry::Sphere(R), Transform(Vec3(0.1, 0, 0.05)));
            gcs->addBody(set, Bd, ContactGeometry::TriangleMesh(sphereMesh), Transform(Vec3(0, 0.05, 0.1)));
            ElasticFoundationForce ef(forces, *gcs, set);
            ef.setBodyParameters(ContactSurfaceIndex(1), 1e6, 0.4, 0.7, 0.5, 0.3);
            ef.setTransitionVelocity(0.05);
            elementForce = ef; haveElement = true;
        }
    } else if (c.kind == 2 || c.kind == 3) {
        tracker.reset(new ContactTrackerSubsystem(sys));
        ccs.reset(new CompliantContactSubsystem(sys, *tracker));
        ccs->setTransitionVelocity(0.05);
        ContactMaterial m1(1e5, 0.6, 0.7, 0.5, 0.3), m2(3e5, 0.3, 0.9, 0.6, 0.2);
        if (c.pair == 0) matter.updGround().updBody().addContactSurface(Transform(Rotation(-Pi / 2, ZAxis), Vec3(0)), ContactSurface(ContactGeometry::HalfSpace(), m1));
        else A.updBody().addContactSurface(Transform(Vec3(0.1, 0, 0.05)), ContactSurface(ContactGeometry::Sphere(R), m1));
        if (c.kind == 2) Bd.updBody().addContactSurface(Transform(Vec3(0, 0.05, 0.1)), ContactSurface(ContactGeometry::Sphere(R), m2));
        else Bd.updBody().addContactSurface(Transform(Vec3(0, 0.05, 0.1)), ContactSurface(ContactGeometry::TriangleMesh(PolygonalMesh::createSphereMesh(R, 2)), m2, 0.02));
    }
    std::unique_ptr<CablePath> path; std::unique_ptr<CableTrackerSubsystem> cables;
    if (c.kind == 4) {
        cables.reset(new CableTrackerSubsystem(sys));
        path.reset(new CablePath(*cables, first, Vec3(0.2, 0.1, -0.1), Bd, Vec3(-0.1, 0.2, 0.15)));
        // slack lengths: slack (no force), exactly taut-ish, stretched a little, stretched a lot
        const Real slackTable[4] = {5.0, 1.5, 1.2, 0.4};
        CableSpring cs(forces, *path, 120.0, slackTable[c.depth], 0.3);
        elementForce = cs; haveElement = true;
    }
    Force::Gravity byGravity(forces, matter, Vec3(0, -9.8, 0));
    // (CablePath::Impl::realizeInstance prints debugging text to std::cout: silence it for the duration of this case)
    struct CoutSilencer { std::streambuf* old; CoutSilencer() : old(std::cout.rdbuf(nullptr)) {} ~CoutSilencer() { std::cout.rdbuf(old); std::cout.clear(); } } silence;
    sys.realizeTopology();
    State s = sys.getDefaultState();
    byGravity.disable(s);
    // configuration: A somewhere with a generic orientation, sphere centre of Bd placed at the requested penetration
    const Rotation RA(BodyRotationSequence, 0.3, XAxis, -0.4, YAxis, 0.2, ZAxis), RB(BodyRotationSequence, -0.5, XAxis, 0.25, YAxis, 0.6, ZAxis);
    const Vec3 pA(0.3, 1.5, -0.2);
    A.setQToFitTransform(s, Transform(RA, pA));
    Vec3 centreB;   // desired Ground location of the sphere on Bd
    if (c.kind == 4) centreB = Vec3(1.1, 0.9, 0.4);
    else if (c.pair == 0) centreB = Vec3(0.4, R - depth, -0.3);
    else { const Vec3 cA = pA + RA * Vec3(0.1, 0, 0.05); centreB = cA + UnitVec3(0.48, 0.6, -0.64) * (2 * R - depth); }
    Bd.setQToFitTransform(s, Transform(RB, centreB - RB * Vec3(0, 0.05, 0.1)));
    // velocities: rest, approaching, separating, sliding, spinning (A keeps a generic velocity when it is the partner)
    const Vec3 n = c.pair == 0 ? Vec3(0, -1, 0) : Vec3(-0.48, -0.6, 0.64);   // from Bd's sphere towards the partner
    const Vec3 t = c.pair == 0 ? Vec3(1, 0, 0) : Vec3(0.8, -0.64, 0) / Vec3(0.8, -0.64, 0).norm();
    SpatialVec VB(Vec3(0), Vec3(0));
    switch (c.vel) { case 1: VB[1] = 0.7 * n; break; case 2: VB[1] = -0.7 * n; break; case 3: VB[1] = 0.9 * t + 0.05 * n; break; case 4: VB[0] = Vec3(1.5, -2.0, 0.8); VB[1] = 0.1 * t; break; default: break; }
    Bd.setUToFitVelocity(s, VB);
    if (c.pair == 1 && c.vel != 0) A.setUToFitVelocity(s, SpatialVec(Vec3(0.4, 0.2, -0.3), Vec3(-0.2, 0.1, 0.3)));
    sys.realize(s, Stage::Velocity);

    Vector_<SpatialVec> F;
    if (c.kind == 0 || c.kind == 1) sys.realize(s, Stage::Dynamics);    // GeneralContactSubsystem finds its contacts at Stage::Dynamics
    if (haveElement) { Vector_<Vec3> pF; Vector f; elementForce.calcForceContribution(s, F, pF, f); if (f.norm() != 0) run.count("unspecified:contact-element-applies-mobility-force"); }
    sys.realize(s, Stage::Dynamics);
    const Vector_<SpatialVec>& Fs = sys.getRigidBodyForces(s, Stage::Dynamics);
    if (!haveElement) F = Fs;
    Balance B = balance(matter, s, F), Bs = balance(matter, s, Fs);
    const bool engaged = B.scale > 0;
    run.evaluation(verif::hashStr(desc), engaged);
    run.count(std::string(engaged ? "contact-engaged/" : "contact-no-force/") + contactKindName(c.kind));
    const std::string en = contactKindName(c.kind);
    if (engaged) {
        run.residual("sum-force/" + en, (double)(B.sumF / B.scale), TOL, where);
        run.residual("sum-moment-about-origin/" + en, (double)(B.sumM[0] / B.scale), TOL, where);
        run.residual("sum-moment-about-generic-point/" + en, (double)(B.sumM[1] / B.scale), TOL, where);
    }
    if (Bs.scale > 0) {
        run.residual("system-sum-force/" + en, (double)(Bs.sumF / Bs.scale), TOL, where);
        run.residual("system-sum-moment/" + en, (double)(std::max(Bs.sumM[0], Bs.sumM[1]) / Bs.scale), TOL, where);
    }
    run.expect((Bs.scale > 0) == engaged, "system-totals-engaged-iff-contribution/" + en, [&] { return "element contribution and system totals disagree about whether a force is applied at " + desc; });
    // documented geometry expectation used only as a vacuity guard: separated -> no force
    if (c.kind != 4 && c.depth == 0) run.expect(!engaged, "separated-surfaces-apply-force/" + en, [&] { return "force applied although surfaces are 0.2 apart at " + desc; });
    run.outcome(verif::hashMix(verif::hashPod((float)B.scale), verif::hashPod(c.kind)));
    if (run.verbose) {
        printf("%s\n  scale=%Lg |sumF|=%Lg |sumM(O)|=%Lg |sumM(P)|=%Lg\n", desc.c_str(), B.scale, B.sumF, B.sumM[0], B.sumM[1]);
        for (int b = 0; b < F.size(); ++b) printf("  body %d: moment (%.15g %.15g %.15g) force (%.15g %.15g %.15g)\n", b, F[b][0][0], F[b][0][1], F[b][0][2], F[b][1][0], F[b][1][1], F[b][1][2]);
    }
}

int main(int argc, char** argv) {
    verif::Run run("C13", argc, argv);
    run.setDeadline(240, 1800);
    const bool th = run.thorough();
    run.rule = "E3: case = (host tree of 3 bodies (3 trees; thorough 5), two-body element, parameter set, ordered body pair over {Ground,b0,b1,b2} incl. same body and Ground-Ground, station/frame set, state kind, value set) with the element alone enabled; plus contact/cable fixtures (kind x Ground-body/body-body x depth{separated,touching,shallow,deep} x velocity{rest,approaching,separating,sliding,spinning}). distinct = distinct tuple; non-trivial = the element applies a non-zero force or has a non-zero nominal action";
    run.assumptions = {"continuous values only from the fixed tables of engine/models.h and engine/forcemodels.h", "body poses used to shift moments are the library's position kinematics (checked by C03/C05)", "two-point elements with coincident stations and bushings within 0.2 of cos(q1)=0 are documented errors/singular: skipped and counted", "contact/cable fixtures: one geometry pair per kind"};
    for (int h = 0; h < fm::NHOST_ALL; ++h) { std::string why; if (!fm::checkHostTables(h, &why)) { run.harnessError(why); return run.finish(); } }
    std::vector<int> valueSets = th ? std::vector<int>{0, 1, 2} : std::vector<int>{(int)(((run.seed % 3) + 3) % 3)};

    std::vector<Unit> units;
    for (int h = 0; h < (th ? fm::NHOST_ALL : fm::NHOST); ++h) for (int e = 0; e < fm::NELEM; ++e) if (fm::elemClass(e) == fm::CTwoBody)
        for (int p = 0; p < fm::numParamSets(e); ++p) for (int a = 0; a < fm::numAttachments(h, e); ++a) units.push_back({h, e, p, a});
    {
        verif::Odometer od; od.dim("state", 4); od.dim("valueset", (int64_t)valueSets.size()); od.dim("unit", (int64_t)units.size());
        run.parallel("alphabet", od.size(), [&](int64_t idx) {
            auto d = od.digits(idx); const Unit& u = units[d[2]];
            std::string desc = "alphabet item=" + std::to_string(idx) + " host=" + fm::hostName(u.host) + " " + fm::elemName(u.elem) + "/p" + std::to_string(u.pset) + "/" + fm::attachments(u.host, u.elem)[u.attach].str + " state=" + std::to_string(d[0]) + " vs=" + std::to_string(valueSets[d[1]]);
            try { alphabetCase(run, u, d[0], valueSets[d[1]], desc); }
            catch (const std::exception& e) { run.violation(std::string("exception/") + fm::elemName(u.elem), std::string("exception: ") + e.what() + " at " + desc, run.replayHeader()); }
            if (idx % 1009 == 0) run.sample(desc);
        });
    }
    {
        std::vector<ContactCase> cc;
        for (int k = 0; k < 5; ++k) for (int pr = 0; pr < 2; ++pr) for (int dp = 0; dp < 4; ++dp) for (int v = 0; v < 5; ++v) cc.push_back({k, pr, dp, v});
        run.parallel("contact-cable", (int64_t)cc.size(), [&](int64_t idx) {
            const ContactCase& c = cc[idx];
            std::string desc = std::string("contact-cable item=") + std::to_string(idx) + " " + contactKindName(c.kind) + (c.pair ? " body-body" : " Ground-body") + " depth=" + std::to_string(c.depth) + " vel=" + std::to_string(c.vel);
            try { contactCase(run, c, desc); }
            catch (const std::exception& e) { run.violation(std::string("exception/") + contactKindName(c.kind), std::string("exception: ") + e.what() + " at " + desc, run.replayHeader()); }
            if (idx % 37 == 0) run.sample(desc);
        });
    }
    return run.finish();
}
