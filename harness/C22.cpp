// C22 -- Events are detected, localised and handled in time order.
// Engine E2 (histories): the history is the sequence of returns / handler invocations of one
// simulation.  System: qdot=u, udot=0, zdot=d (piecewise linear in t between handler actions, so every
// integrator reproduces it to roundoff and every witness crossing time is known in closed form).
// Every combination integrator x crossing pattern x direction masks x handler action x step mode x report
// grid x scheduled-handler variant is simulated twice: by a raw stepTo loop written in the harness
// (window / listed events / transitions judged at every ReachedEventTrigger) and by the library's
// TimeStepper (handler log judged); both are compared with an analytic reference simulation.
#include "SimTKmath.h"
#include "odesys.h"
#include "verif.h"

#include <cstdarg>
#include <fcntl.h>
#include <memory>
#include <signal.h>

using namespace SimTK;
typedef Integrator::SuccessfulStepStatus Status;

static const char* INTEG_NAMES[] = {"ExplicitEuler", "RungeKutta2", "RungeKutta3", "RungeKuttaFeldberg", "RungeKuttaMerson",
                                    "Verlet", "SemiExplicitEuler", "SemiExplicitEuler2", "CPodes", "CPodesAdams"};
static const double TFINAL = 0.97;     // no scheduled time, crossing (also after a handler action) or fixed step end coincides with it

// ---------------------------------------------------------------- value sets (VERIF_SEED picks one in the quick tier)
struct Values {
    double one;                 // P1: single crossing
    double two[2];              // P2: two crossings inside one fixed step
    double sim;                 // P3: simultaneous crossings of two witnesses
    double three[3];            // P4: one per fixed step
    double hfix;                // fixed step; P5 crosses at 2*hfix (a step end)
    double prod[2];             // P6: (q-a)(q-b), roots in different fixed steps
    double sched;               // scheduled handler time
    double period;              // periodic handler interval
    double qJump, uNew;         // handler actions
};
static const Values VALUES[3] = {
    // prod: the two roots are further apart than the longest step in q (hfix*uNew), see notes (a trigger that comes and
    // goes inside one step is documented as lost) and no step end / scheduled time falls on the second root
    {.47, {.40, .50}, .45, {.2, .5, .8}, .3, {.15, .78}, .35, .25, .15, 2.0},
    {.41, {.37, .52}, .55, {.15, .45, .85}, .3, {.1, .62}, .65, .2, .1, 1.5},
    {.625, {.5625, .6875}, .4375, {.125, .375, .875}, .25, {.1875, .8125}, .3125, .125, .125, 2.0},   // binary-exact
};

// ---------------------------------------------------------------- scenario description
struct Wit { int kind; double a, b; int mask; };      // kind 0: q-a, 1: a-q, 2: (q-a)(q-b); mask bit0 rising, bit1 falling
enum Action { ActNone, ActJumpQ, ActSetU, ActSetD, ActTerminate, NACT };
static const char* ACT_NAMES[] = {"none", "q-=jump", "u:=uNew", "d:=1", "terminate"};
enum Sched { SchedNone, SchedOnce, SchedPeriodic, SchedAtCrossing, SchedOnceSetsU, NSCHED };
static const char* SCHED_NAMES[] = {"none", "scheduled-once", "periodic", "scheduled-at-crossing", "scheduled-once-sets-u"};
static const char* PATTERN_NAMES[] = {"none", "one", "two-in-one-step", "simultaneous", "one-per-step-x3", "at-step-end", "product-two-roots"};

struct Cfg {
    int vs = 0, integ = 0, pattern = 0, maskCombo = 0, action = 0, fixedStep = 0, grid = 0, sched = 0, driver = 0;   // driver 0 raw, 1 TimeStepper
    const Values& V() const { return VALUES[vs]; }
    std::vector<Wit> witnesses() const {
        const Values& v = V(); std::vector<Wit> w;
        auto m = [&](int i) { return 1 + (maskCombo / (i == 0 ? 1 : 3)) % 3; };     // 1 rising, 2 falling, 3 both
        switch (pattern) {
            case 0: w.push_back({0, 5.0, 0, m(0)}); break;
            case 1: w.push_back({0, v.one, 0, m(0)}); break;
            case 2: w.push_back({0, v.two[0], 0, m(0)}); w.push_back({1, v.two[1], 0, m(1)}); break;
            case 3: w.push_back({0, v.sim, 0, m(0)}); w.push_back({1, v.sim, 0, m(1)}); break;
            case 4: w.push_back({0, v.three[0], 0, m(0)}); w.push_back({0, v.three[1], 0, m(0)}); w.push_back({1, v.three[2], 0, m(0)}); break;
            case 5: w.push_back({0, 2 * v.hfix, 0, m(0)}); break;
            default: w.push_back({2, v.prod[0], v.prod[1], m(0)}); break;
        }
        return w;
    }
    static int nMaskCombos(int pattern) { return (pattern == 2 || pattern == 3) ? 9 : 3; }
    std::string str() const {
        return "vs=" + std::to_string(vs) + " integ=" + INTEG_NAMES[integ] + " pattern=" + std::to_string(pattern) + " masks=" + std::to_string(maskCombo) +
               " action=" + std::to_string(action) + " fixed=" + std::to_string(fixedStep) + " grid=" + std::to_string(grid) + " sched=" + std::to_string(sched) +
               " driver=" + std::to_string(driver);
    }
    std::string describe() const {
        std::string s = std::string("pattern ") + PATTERN_NAMES[pattern] + ", witnesses:";
        for (auto& w : witnesses()) {
            char b[120];
            if (w.kind == 0) snprintf(b, sizeof b, " [q-%g", w.a); else if (w.kind == 1) snprintf(b, sizeof b, " [%g-q", w.a); else snprintf(b, sizeof b, " [(q-%g)(q-%g)", w.a, w.b);
            s += b; s += w.mask == 1 ? " rising]" : w.mask == 2 ? " falling]" : " both]";
        }
        s += std::string(", handler 0 action ") + ACT_NAMES[action] + (fixedStep ? ", fixed step" : ", controlled step") +
             ", report grid " + (grid == 0 ? "none" : grid == 1 ? "dense" : "at-crossing") + ", scheduled " + SCHED_NAMES[sched] + (driver ? ", TimeStepper" : ", raw stepTo loop");
        return s;
    }
};
static Cfg parseCfg(const std::string& s) {
    Cfg c; std::istringstream is(s); std::string tok;
    while (is >> tok) {
        size_t e = tok.find('='); if (e == std::string::npos) continue;
        std::string k = tok.substr(0, e), v = tok.substr(e + 1); int n = atoi(v.c_str());
        if (k == "vs") c.vs = n; else if (k == "pattern") c.pattern = n; else if (k == "masks") c.maskCombo = n; else if (k == "action") c.action = n;
        else if (k == "fixed") c.fixedStep = n; else if (k == "grid") c.grid = n; else if (k == "sched") c.sched = n; else if (k == "driver") c.driver = n;
        else if (k == "integ") for (int i = 0; i < 10; ++i) if (v == INTEG_NAMES[i]) c.integ = i;
    }
    return c;
}

// ---------------------------------------------------------------- the log both the implementation and the reference produce
struct LogEntry { char kind; int idx; double t, q, u; int dir; };    // kind 'T' triggered, 'S' scheduled; dir +1 rising, -1 falling (reference only)
static std::string logStr(const std::vector<LogEntry>& L) {
    std::string s;
    for (auto& e : L) { char b[100]; snprintf(b, sizeof b, "%c%d@%.9g ", e.kind, e.idx, e.t); s += b; }
    return s.empty() ? "(empty)" : s;
}

// ---------------------------------------------------------------- the system and its handlers
struct Sim;
static double witnessValue(const Wit& w, double q) { return w.kind == 0 ? q - w.a : w.kind == 1 ? w.a - q : (q - w.a) * (q - w.b); }
struct Shared {     // state shared between handlers of one simulation (reset per run)
    std::vector<LogEntry> log; bool acted = false; int probe = -1; std::vector<int> probed;
};
static void applyAction(const odesys::OdeSystem& sys, const Values& v, int action, State& s, bool& terminate) {
    switch (action) {
        case ActJumpQ: sys.setQ(s, 0, sys.q(s, 0) - v.qJump); break;
        case ActSetU: sys.setU(s, 0, v.uNew); break;
        case ActSetD: sys.setD(s, 0, 1.0); break;
        case ActTerminate: terminate = true; break;
        default: break;
    }
}
class TrigHandler : public TriggeredEventHandler {
public:
    TrigHandler(const odesys::OdeSystem& sys, Shared& sh, const Values& v, int idx, Wit w, int action)
        : TriggeredEventHandler(Stage::Position), sys(sys), sh(sh), v(v), idx(idx), w(w), action(action) {
        getTriggerInfo().setTriggerOnRisingSignTransition((w.mask & 1) != 0);
        getTriggerInfo().setTriggerOnFallingSignTransition((w.mask & 2) != 0);
    }
    Real getValue(const State& s) const override { return witnessValue(w, sys.q(s, 0)); }
    void handleEvent(State& s, Real, bool& terminate) const override {
        if (sh.probe >= 0) { sh.probed.push_back(idx); return; }
        sh.log.push_back({'T', idx, s.getTime(), sys.q(s, 0), sys.u(s, 0), 0});
        if (idx == 0 && !sh.acted) { sh.acted = true; applyAction(sys, v, action, s, terminate); }
    }
    const odesys::OdeSystem& sys; Shared& sh; const Values& v; int idx; Wit w; int action;
};
class OnceHandler : public ScheduledEventHandler {
public:
    OnceHandler(const odesys::OdeSystem& sys, Shared& sh, const Values& v, double when, bool setsU) : sys(sys), sh(sh), v(v), when(when), setsU(setsU) {}
    Real getNextEventTime(const State& s, bool includeCurrent) const override {
        return (s.getTime() < when || (includeCurrent && s.getTime() == when)) ? when : (Real)Infinity;
    }
    void handleEvent(State& s, Real, bool&) const override {
        if (sh.probe >= 0) return;
        sh.log.push_back({'S', 0, s.getTime(), sys.q(s, 0), sys.u(s, 0), 0});
        if (setsU) sys.setU(s, 0, v.uNew);
    }
    const odesys::OdeSystem& sys; Shared& sh; const Values& v; double when; bool setsU;
};
class PerHandler : public PeriodicEventHandler {
public:
    PerHandler(const odesys::OdeSystem& sys, Shared& sh, double interval) : PeriodicEventHandler(interval), sys(sys), sh(sh) {}
    void handleEvent(State& s, Real, bool&) const override {
        if (sh.probe >= 0) return;
        sh.log.push_back({'S', 0, s.getTime(), sys.q(s, 0), sys.u(s, 0), 0});
    }
    const odesys::OdeSystem& sys; Shared& sh;
};

struct Fixture {
    Shared sh; std::unique_ptr<odesys::OdeSystem> sys; State init; std::vector<Wit> wits; double schedTime = Infinity;
    Fixture(const Cfg& c) {
        const Values& v = c.V();
        sys.reset(new odesys::OdeSystem(1, 1, [](Real, const Vector&, const Vector&, const Vector&, const Vector& d, Vector& udot, Vector& zdot) { udot[0] = 0; zdot[0] = d[0]; }, 1));
        wits = c.witnesses();
        if (c.sched == SchedOnce || c.sched == SchedOnceSetsU) schedTime = v.sched;
        if (c.sched == SchedAtCrossing) schedTime = wits[0].kind == 2 ? std::max(wits[0].a, wits[0].b) : wits[0].a;
        if (c.sched == SchedOnce || c.sched == SchedAtCrossing || c.sched == SchedOnceSetsU) sys->addEventHandler(new OnceHandler(*sys, sh, v, schedTime, c.sched == SchedOnceSetsU));
        if (c.sched == SchedPeriodic) sys->addEventHandler(new PerHandler(*sys, sh, v.period));
        for (int i = 0; i < (int)wits.size(); ++i) sys->addEventHandler(new TrigHandler(*sys, sh, v, i, wits[i], c.action));
        init = sys->makeState(0, Vector(1, Real(0)), Vector(1, Real(1)), Vector(1, Real(0)));
    }
};
static Integrator* makeIntegrator(const Cfg& c, const System& sys) {
    const double h = c.V().hfix;
    Integrator* I = nullptr;
    switch (c.integ) {
        case 0: I = new ExplicitEulerIntegrator(sys); break;
        case 1: I = new RungeKutta2Integrator(sys); break;
        case 2: I = new RungeKutta3Integrator(sys); break;
        case 3: I = new RungeKuttaFeldbergIntegrator(sys); break;
        case 4: I = new RungeKuttaMersonIntegrator(sys); break;
        case 5: I = new VerletIntegrator(sys); break;
        case 6: I = new SemiExplicitEulerIntegrator(sys, c.fixedStep ? h : h / 4); break;
        case 7: I = new SemiExplicitEuler2Integrator(sys); break;
        case 8: I = new CPodesIntegrator(sys, CPodes::BDF); break;
        default: I = new CPodesIntegrator(sys, CPodes::Adams); break;
    }
    if (c.fixedStep && c.integ != 6) I->setFixedStepSize(h);
    // the product witness has two roots: keep controlled steps shorter than their distance (a trigger that comes
    // and goes inside one step is documented as lost)
    if (!c.fixedStep && c.pattern == 6 && c.integ != 6) I->setMaximumStepSize(h * 0.75);
    I->setFinalTime(TFINAL);
    return I;
}

// ---------------------------------------------------------------- analytic reference simulation
struct RefSeg { double t0, q0, u, z0, d; };        // trajectory from t0: q = q0 + u (t-t0), z = z0 + d (t-t0)
struct Reference {
    std::vector<LogEntry> log; std::vector<RefSeg> segs; bool terminated = false; double tEnd = TFINAL;
    double q(double t) const { const RefSeg& s = seg(t); return s.q0 + s.u * (t - s.t0); }
    double u(double t) const { return seg(t).u; }
    double z(double t) const { const RefSeg& s = seg(t); return s.z0 + s.d * (t - s.t0); }
    const RefSeg& seg(double t) const { size_t i = segs.size() - 1; while (i > 0 && segs[i].t0 > t) --i; return segs[i]; }
    // is t within tol of a discontinuity (handler action)?  report states there are not compared
    bool nearBreak(double t, double tol) const { for (size_t i = 1; i < segs.size(); ++i) if (std::abs(t - segs[i].t0) <= tol) return true; return false; }
};
static Reference simulateReference(const Cfg& c, const std::vector<Wit>& wits, double schedTime) {
    const Values& v = c.V();
    Reference R; RefSeg s = {0, 0, 1, 0, 0}; R.segs.push_back(s);
    bool acted = false;
    // pending scheduled times
    std::vector<double> sched;
    if (c.sched == SchedPeriodic) { for (long long k = 0; k * v.period < TFINAL; ++k) sched.push_back(k * v.period); }
    else if (schedTime < Infinity) sched.push_back(schedTime);
    size_t nextSched = 0;
    // roots in q of every witness with the sign change seen when q increases through the root
    struct Root { int wit; double c; int dirUp; };
    std::vector<Root> roots;
    for (int i = 0; i < (int)wits.size(); ++i) {
        const Wit& w = wits[i];
        if (w.kind == 0) roots.push_back({i, w.a, +1});
        else if (w.kind == 1) roots.push_back({i, w.a, -1});
        else { roots.push_back({i, std::min(w.a, w.b), -1}); roots.push_back({i, std::max(w.a, w.b), +1}); }
    }
    double t = 0;
    // a root is armed while q is strictly below it; handling it disarms it until q drops below it again (q jump)
    std::vector<char> armed(roots.size(), 1);
    for (int guard = 0; guard < 200; ++guard) {
        const double qNow = s.q0 + s.u * (t - s.t0);
        for (size_t k = 0; k < roots.size(); ++k) if (qNow < roots[k].c - 1e-9) armed[k] = 1;
        // next triggered crossing (u > 0 always in this family)
        double tc = Infinity;
        for (size_t k = 0; k < roots.size(); ++k) {
            const Root& r = roots[k];
            if (!armed[k] || !(wits[r.wit].mask & (r.dirUp > 0 ? 1 : 2))) continue;
            tc = std::min(tc, t + std::max(0.0, r.c - qNow) / s.u);
        }
        double ts = nextSched < sched.size() ? sched[nextSched] : (double)Infinity;
        double tn = std::min(tc, ts);
        if (!(tn < TFINAL)) break;
        const double qAt = s.q0 + s.u * (tn - s.t0), zAt = s.z0 + s.d * (tn - s.t0);
        RefSeg ns = {tn, qAt, s.u, zAt, s.d}; bool changed = false;
        // the order of handlers due at the same instant is not documented: logs are compared as sets per instant
        if (ts == tn) {
            R.log.push_back({'S', 0, tn, qAt, s.u, 0}); nextSched++;
            if (c.sched == SchedOnceSetsU) { ns.u = v.uNew; changed = true; }
        }
        if (tc == tn) {
            for (size_t k = 0; k < roots.size(); ++k) {
                const Root& r = roots[k];
                if (!armed[k]) continue;
                if (t + std::max(0.0, r.c - qNow) / s.u != tc) continue;
                armed[k] = 0;                                   // passed (whether monitored or not)
                if (!(wits[r.wit].mask & (r.dirUp > 0 ? 1 : 2))) continue;
                R.log.push_back({'T', r.wit, tn, qAt, s.u, r.dirUp});
                if (r.wit == 0 && !acted) {
                    acted = true;
                    switch (c.action) {
                        case ActJumpQ: ns.q0 = qAt - v.qJump; changed = true; break;
                        case ActSetU: ns.u = v.uNew; changed = true; break;
                        case ActSetD: ns.d = 1; changed = true; break;
                        case ActTerminate: R.terminated = true; R.tEnd = tn; break;
                        default: break;
                    }
                }
            }
        }
        // roots passed silently (not monitored) before tn are disarmed as well
        for (size_t k = 0; k < roots.size(); ++k) if (armed[k] && roots[k].c <= qAt + 1e-12 && !(tc == tn && false)) { if (roots[k].c < qAt - 1e-12 || !(wits[roots[k].wit].mask & (roots[k].dirUp > 0 ? 1 : 2))) armed[k] = 0; }
        t = tn;
        if (changed) { s = ns; R.segs.push_back(s); }
        if (R.terminated) break;
    }
    return R;
}

// ---------------------------------------------------------------- judging helpers
struct Judge {
    verif::Run& run; const Cfg& cfg; std::string trace; bool tracing;
    bool sawFailure = false;      // (untraced pass) some clause failed: the case is executed again with tracing
    bool reported = false;        // (traced pass) the first failing clause has been reported; later ones in the same
                                  // simulation are consequences more often than not and are only counted
    Judge(verif::Run& run, const Cfg& c, bool tracing) : run(run), cfg(c), tracing(tracing) {}
    std::string where() const { return cfg.str() + "\n  " + cfg.describe() + "\n" + trace; }
    std::string replay() const { return "cfg=" + cfg.str() + "\n" + trace; }
    template <class M> void check(bool cond, const char* clause, const M& msg) {
        if (cond) { if (!tracing || run.verbose) { run.acc.transitions++; okCount()[clause]++; } return; }
        if (!tracing) { sawFailure = true; return; }
        if (reported) { run.count("failures_after_the_first_in_one_simulation"); return; }
        reported = true;
        run.expect(false, std::string(INTEG_NAMES[cfg.integ]) + "/" + clause, [&] { return std::string(clause) + ": " + msg() + "\n  at " + where(); }, [&] { return replay(); });
    }
    void residual(const char* oracle, double value, double bound, const char* clause) {
        if (!(value <= bound) && !tracing) { sawFailure = true; return; }
        if (!(value <= bound) && reported) { run.count("failures_after_the_first_in_one_simulation"); return; }
        if (!(value <= bound)) reported = true;
        if ((value <= bound) != tracing || run.verbose)
            run.residual(oracle, value, bound, [&] { return where(); }, [&] { return replay(); }, std::string(INTEG_NAMES[cfg.integ]) + "/" + clause);
    }
    void note(const char* fmt, ...) {
        if (!tracing) return;
        char b[500]; va_list ap; va_start(ap, fmt); vsnprintf(b, sizeof b, fmt, ap); va_end(ap); trace += b;
    }
    static std::map<const char*, int64_t>& okCount() { static std::map<const char*, int64_t> m; return m; }
    static void flush(verif::Run& run) { for (auto& kv : okCount()) run.count(std::string("oracle:") + kv.first + ":ok", kv.second); okCount().clear(); }
};

// tolerances (see notes/C22.md): the localisation window the documentation promises is accuracy*timescale*window
// = 1e-3 * 0.1 * 0.1 = 1e-5 (default accuracy, default time scale, default 10% window); a handler acts at tHigh,
// i.e. up to one window after the crossing, so everything downstream of an action may drift by window*|du|.
static const double WINDOW = 1e-3 * 0.1 * 0.1;
static const double EPS_T = 1e-12;          // roundoff in a crossing time (q and t are O(1))
static const double TOL_T = 4 * WINDOW;     // handler time vs analytic crossing time (after earlier actions)
static const double TOL_Y = 8 * WINDOW;     // state at a report vs reference (|u| <= 2)

// One simulation.  Returns through J; the implementation's handler log is compared with the reference log.
static void simulate(verif::Run& run, const Cfg& cfg, Judge& J, uint64_t& outcome) {
    Fixture fx(cfg);
    const Values& v = cfg.V();
    Reference ref = simulateReference(cfg, fx.wits, fx.schedTime);
    std::unique_ptr<Integrator> integ(makeIntegrator(cfg, *fx.sys));
    odesys::OdeSystem& sys = *fx.sys;

    // event id -> handler index, learnt from the library's own dispatch (System::handleEvents)
    std::map<int, int> idToWit;
    {
        State scratch = fx.init; sys.realize(scratch, Stage::Acceleration);
        const int nIds = (int)fx.wits.size() + 2;
        for (int id = 0; id < nIds; ++id) {
            fx.sh.probe = id; fx.sh.probed.clear();
            Array_<EventId> ids; ids.push_back(EventId(id));
            HandleEventsOptions opts; HandleEventsResults res;
            sys.handleEvents(scratch, Event::Cause::Triggered, ids, opts, res);
            if (fx.sh.probed.size() == 1) idToWit[id] = fx.sh.probed[0];
        }
        fx.sh.probe = -1;
    }
    J.check(idToWit.size() == fx.wits.size(), "event-id-dispatch", [&] { return std::string("System::handleEvents did not dispatch each triggered event id to exactly one handler"); });

    // report grid
    std::vector<double> grid;
    if (cfg.grid == 1) for (int k = 1; k * 0.05 < TFINAL - 1e-9; ++k) grid.push_back(k * 0.05);
    if (cfg.grid == 2) { const Wit& w = fx.wits[0]; double c = w.kind == 2 ? std::max(w.a, w.b) : w.a; if (c < 0.9) grid.push_back(c); grid.push_back(0.9); }
    grid.push_back(TFINAL);

    // returned trajectory points are collected and judged after the handler log (a wrong log explains wrong states)
    struct Sample { double t, q, u, z; };
    std::vector<Sample> samples;
    auto judgeReportState = [&](double t, const State& s, const char* whatReturn) {
        samples.push_back({t, sys.q(s, 0), sys.u(s, 0), sys.z(s, 0)});
        J.note("    %s t=%.12g q=%.12g u=%.6g z=%.12g (ref q=%.12g u=%.6g z=%.12g)\n", whatReturn, t, sys.q(s, 0), sys.u(s, 0), sys.z(s, 0), ref.q(t), ref.u(t), ref.z(t));
    };
    auto judgeSamples = [&]() {
        for (auto& sm : samples) {
            const double t = sm.t;
            if (ref.terminated && t > ref.tEnd + TOL_T) {
                J.check(false, "state-returned-after-termination", [&] { return "a state at t=" + verif::fmtd(t) + " was returned although a handler terminated the simulation at " + verif::fmtd(ref.tEnd); });
                continue;
            }
            // a trajectory point on a discontinuity (within a window of a handler action) is not compared
            if (ref.nearBreak(t, TOL_T)) { Judge::okCount()["(unspecified) report state within a window of a handler action: not compared"]++; continue; }
            const double eq = std::abs(sm.q - ref.q(t)), eu = std::abs(sm.u - ref.u(t)), ez = std::abs(sm.z - ref.z(t));
            J.residual("report-state-vs-reference", std::max(eq, std::max(eu, ez)), TOL_Y, "trajectory-after-handler-wrong");
        }
    };

    integ->setAccuracy(1e-3);
    double lastHigh = -Infinity; int nEventReturns = 0;
    if (cfg.driver == 1) {
        // ---------------- the library's TimeStepper
        TimeStepper ts(sys, *integ);
        ts.initialize(fx.init);
        for (double r : grid) {
            if (integ->isSimulationOver()) break;
            Status st = ts.stepTo(r);
            J.note("  TimeStepper::stepTo(%.12g) -> %s at t=%.12g\n", r, Integrator::getSuccessfulStepStatusString(st).c_str(), ts.getTime());
            outcome = verif::hashPod((int)st, outcome);
            if (st == Integrator::ReachedReportTime) {
                J.check(ts.getTime() == r, "timestepper-report-not-at-requested-time", [&] { return "stepTo(" + verif::fmtd(r) + ") returned ReachedReportTime at " + verif::fmtd(ts.getTime()); });
                judgeReportState(ts.getTime(), ts.getState(), "report");
            } else if (st != Integrator::EndOfSimulation)
                J.check(false, "timestepper-unexpected-status", [&] { return std::string("TimeStepper::stepTo returned ") + Integrator::getSuccessfulStepStatusString(st).c_str(); });
        }
        if (!integ->isSimulationOver()) { Status st = ts.stepTo(Infinity); J.note("  TimeStepper::stepTo(inf) -> %s at t=%.12g\n", Integrator::getSuccessfulStepStatusString(st).c_str(), ts.getTime()); }
    } else {
        // ---------------- raw stepTo loop (the TimeStepper protocol, with the window judged at every event)
        integ->initialize(fx.init);
        HandleEventsOptions hopts(integ->getConstraintToleranceInUse());
        double lastEventTime = -Infinity; size_t gi = 0; int guard = 0;
        while (!integ->isSimulationOver() && guard++ < 2000) {
            Real tSched = Infinity; Array_<EventId> schedIds;
            sys.realize(integ->getState(), Stage::Time);
            sys.calcTimeOfNextScheduledEvent(integ->getState(), tSched, schedIds, lastEventTime != integ->getTime());
            const double r = gi < grid.size() ? grid[gi] : (double)Infinity;
            Status st = integ->stepTo(r, tSched);
            const double t = integ->getTime(), ta = integ->getAdvancedTime();
            outcome = verif::hashPod((int)st, outcome);
            J.note("  stepTo(%.12g, %.12g) -> %s t=%.15g tAdv=%.15g\n", r, (double)tSched, Integrator::getSuccessfulStepStatusString(st).c_str(), t, ta);
            Stage lowest = Stage::Report; bool term = false;
            switch (st) {
                case Integrator::ReachedReportTime:
                    if (t >= r) { judgeReportState(t, integ->getState(), "report"); gi++; }
                    continue;
                case Integrator::StartOfContinuousInterval: case Integrator::ReachedStepLimit: case Integrator::TimeHasAdvanced:
                    continue;
                case Integrator::ReachedScheduledEvent: {
                    HandleEventsResults res;
                    sys.handleEvents(integ->updAdvancedState(), Event::Cause::Scheduled, schedIds, hopts, res);
                    lowest = res.getLowestModifiedStage(); term = res.getExitStatus() == HandleEventsResults::ShouldTerminate;
                    lastEventTime = integ->getTime();
                    break;
                }
                case Integrator::ReachedEventTrigger: {
                    nEventReturns++;
                    const Vec2 w = integ->getEventWindow();
                    const Array_<EventId> ids = integ->getTriggeredEvents();
                    const Array_<Event::Trigger> trans = integ->getEventTransitionsSeen();
                    const Array_<Real> est = integ->getEstimatedEventTimes();
                    J.note("      window (%.15g, %.15g] width %.3g, %d event(s)\n", w[0], w[1], w[1] - w[0], (int)ids.size());
                    J.check(w[0] < w[1], "event-window-empty", [&] { return std::string("tLow >= tHigh"); });
                    // CPODES localises with its own (much tighter) root tolerance; the documented bound applies to all
                    J.residual("event-window-width", w[1] - w[0], WINDOW * (1 + 1e-9), "event-window-too-wide");
                    J.check(t == w[0] && ta == w[1], "event-return-not-at-window", [&] { return "state time " + verif::fmtd(t) + " / advanced " + verif::fmtd(ta) + " are not the window ends"; });
                    J.check(w[0] >= lastHigh, "events-out-of-time-order", [&] { return "window starts at " + verif::fmtd(w[0]) + " before the previous window's end " + verif::fmtd(lastHigh); });
                    lastHigh = w[1];
                    // the before-state must really be before: no monitored witness may already show its after-sign at tLow
                    // (judged through the listed events below).  Listed events: each must be a witness whose value changes sign
                    // in a monitored direction across the window, judged on the library's own states at tLow and tHigh.
                    J.check(ids.size() == trans.size() && ids.size() == est.size() && ids.size() >= 1, "event-arrays-inconsistent", [&] { return std::string("triggered ids / transitions / estimated times differ in length or are empty"); });
                    const double qLow = sys.q(integ->getState(), 0), qHigh = sys.q(integ->getAdvancedState(), 0);
                    for (int k = 0; k < (int)ids.size() && k < (int)trans.size(); ++k) {
                        auto it = idToWit.find((int)ids[k]);
                        if (it == idToWit.end()) { J.check(false, "unknown-event-id-listed", [&] { return "event id " + std::to_string((int)ids[k]) + " does not belong to a triggered handler"; }); continue; }
                        const Wit& wt = fx.wits[it->second];
                        const double eLow = witnessValue(wt, qLow), eHigh = witnessValue(wt, qHigh);
                        // signs judged with a roundoff allowance: the library localises on interpolated states whose
                        // witness values may differ from these re-evaluations in the last bits
                        const double EE = 1e-12;
                        const bool rising = eLow <= EE && eHigh >= -EE && eHigh > eLow, falling = eLow >= -EE && eHigh <= EE && eHigh < eLow;
                        J.note("      listed: handler %d transition %s  e(tLow)=%.3g e(tHigh)=%.3g est=%.15g\n", it->second, Event::eventTriggerString(trans[k]).c_str(), eLow, eHigh, (double)est[k]);
                        J.check(rising || falling, "listed-event-did-not-cross", [&] { return "handler " + std::to_string(it->second) + " is listed but its witness goes " + verif::fmtd(eLow) + " -> " + verif::fmtd(eHigh) + " across the window: no sign change"; });
                        J.check(!(rising || falling) || (rising && (wt.mask & 1)) || (falling && (wt.mask & 2)), "listed-event-in-unmonitored-direction", [&] { return "handler " + std::to_string(it->second) + " is listed for a " + (rising ? "rising" : "falling") + " transition (" + verif::fmtd(eLow) + " -> " + verif::fmtd(eHigh) + ") but monitors only " + (wt.mask == 1 ? "rising" : "falling"); });
                        J.check((rising && trans[k] == Event::Rising) || (falling && trans[k] == Event::Falling) || (!rising && !falling), "transition-direction-wrong", [&] { return "handler " + std::to_string(it->second) + " transition reported as " + Event::eventTriggerString(trans[k]); });
                        // closed interval: when a report time pins one end of the window the window can be one ulp wide
                        // and the estimate sits on tLow (the header only says "within the event window")
                        if (k < (int)est.size()) J.check(w[0] <= est[k] && est[k] <= w[1], "estimated-event-time-outside-window", [&] { return "estimated time " + verif::fmtd(est[k]) + " outside the window"; });
                    }
                    HandleEventsResults res;
                    sys.handleEvents(integ->updAdvancedState(), Event::Cause::Triggered, ids, hopts, res);
                    lowest = res.getLowestModifiedStage(); term = res.getExitStatus() == HandleEventsResults::ShouldTerminate;
                    break;
                }
                case Integrator::EndOfSimulation: {
                    HandleEventsResults res;
                    sys.handleEvents(integ->updAdvancedState(), Event::Cause::Termination, Array_<EventId>(), hopts, res);
                    lowest = res.getLowestModifiedStage(); term = res.getExitStatus() == HandleEventsResults::ShouldTerminate;
                    break;
                }
                default:
                    J.check(false, "invalid-status", [&] { return std::string("stepTo returned an invalid status"); });
                    guard = 1 << 30;
            }
            integ->reinitialize(lowest, term);
        }
        J.check(integ->isSimulationOver(), "simulation-did-not-end", [&] { return std::string("the raw loop did not reach the end of the simulation within 2000 returns"); });
    }

    // ---------------- the handler log against the analytic reference
    const std::vector<LogEntry>& got = fx.sh.log;
    J.note("  implementation log: %s\n  reference log:      %s\n", logStr(got).c_str(), logStr(ref.log).c_str());
    for (auto& e : got) outcome = verif::hashPod(e.idx, verif::hashPod(e.kind, outcome));
    // The logs are compared as sequences, except that entries due at the same reference time form a set
    // (order between simultaneous scheduled and triggered handlers is not documented).
    auto canon = [&](std::vector<LogEntry> L, bool isRef) {
        // group by time proximity: entries within TOL_T+WINDOW of each other and of the same reference instant are sorted by (kind, idx)
        std::stable_sort(L.begin(), L.end(), [&](const LogEntry& a, const LogEntry& b) {
            if (std::abs(a.t - b.t) > TOL_T + WINDOW) return a.t < b.t;
            if (a.kind != b.kind) return a.kind < b.kind;
            return a.idx < b.idx; });
        (void)isRef; return L;
    };
    // time order as produced (before canonicalisation): handler invocation times never decrease
    for (size_t i = 1; i < got.size(); ++i)
        J.check(got[i].t >= got[i - 1].t, "handlers-invoked-out-of-time-order", [&] { return "handler invoked at " + verif::fmtd(got[i].t) + " after one at " + verif::fmtd(got[i - 1].t); });
    std::vector<LogEntry> G = canon(got, false), E = canon(ref.log, true);
    // a handler that terminates the simulation may pre-empt a scheduled handler due at the same instant (order undocumented)
    if (ref.terminated && G.size() < E.size()) {
        std::vector<LogEntry> E2;
        for (auto& e : E) if (!(e.kind == 'S' && std::abs(e.t - ref.tEnd) <= TOL_T + WINDOW)) E2.push_back(e);
        if (E2.size() == G.size()) E = E2;
    }
    size_t n = std::min(G.size(), E.size());
    bool same = G.size() == E.size();
    size_t firstDiff = n;
    for (size_t i = 0; i < n; ++i) if (G[i].kind != E[i].kind || G[i].idx != E[i].idx) { same = false; firstDiff = i; break; }
    if (!same) {
        // classify the first difference for a precise key
        const char* clause;
        const size_t i = firstDiff;
        const bool gHas = i < G.size(), eHas = i < E.size();
        if (gHas && i > 0 && G[i].kind == 'T' && G[i - 1].kind == 'T' && G[i].idx == G[i - 1].idx && std::abs(G[i].t - G[i - 1].t) <= 2 * WINDOW)
            clause = "crossing-handled-twice";                     // the same handler again within two windows of its own invocation
        else if (gHas && (!eHas || G[i].t < E[i].t - (TOL_T + WINDOW)))
            clause = G[i].kind == 'T' ? "unexpected-triggered-handler-invocation" : "unexpected-scheduled-handler-invocation";
        else
            clause = E[i].kind == 'T' ? "crossing-not-handled" : "scheduled-handler-not-invoked";
        J.check(false, clause, [&] { return "implementation log [" + logStr(got) + "] differs from the analytic reference [" + logStr(ref.log) + "]"; });
    } else {
        J.check(true, "handler-sequence-equals-reference", [] { return std::string(); });
        for (size_t i = 0; i < n; ++i) {
            if (E[i].kind == 'S') {
                J.check(G[i].t == E[i].t, "scheduled-handler-not-at-its-time", [&] { return "scheduled handler ran at " + verif::fmtd(G[i].t) + ", scheduled for " + verif::fmtd(E[i].t); });
            } else {
                // localised time: not before the crossing (minus roundoff), at most one window (+ drift from earlier actions) after it
                const double dt = G[i].t - E[i].t;
                J.residual("handler-time-after-crossing", dt, TOL_T, "triggered-handler-too-late");
                J.residual("handler-time-before-crossing", -dt, TOL_T - WINDOW + EPS_T, "triggered-handler-before-crossing");
            }
            // the state the handler saw: on the pre-action trajectory at its own time
            const bool clustered = (i > 0 && std::abs(E[i].t - E[i - 1].t) <= TOL_T + WINDOW) || (i + 1 < n && std::abs(E[i + 1].t - E[i].t) <= TOL_T + WINDOW);
            if (!clustered) {
                const double qExpect = E[i].q + E[i].u * (G[i].t - E[i].t);
                J.residual("handler-state-vs-reference", std::max(std::abs(G[i].q - qExpect), std::abs(G[i].u - E[i].u)), TOL_Y, "handler-saw-wrong-state");
            }
        }
    }
    // termination
    if (integ->isSimulationOver()) {
        const bool byHandler = integ->getTerminationReason() == Integrator::EventHandlerRequestedTermination;
        J.check(byHandler == ref.terminated, "termination-reason-wrong", [&] { return std::string("termination reason is ") + Integrator::getTerminationReasonString(integ->getTerminationReason()).c_str() + (ref.terminated ? " but a handler requested termination" : " but no handler requested termination"); });
        const double tEnd = integ->getAdvancedTime();
        J.check(ref.terminated ? std::abs(tEnd - ref.tEnd) <= TOL_T + WINDOW : tEnd == TFINAL, "simulation-ended-at-wrong-time", [&] { return "simulation ended at " + verif::fmtd(tEnd) + ", expected " + verif::fmtd(ref.tEnd); });
    }
    judgeSamples();
    (void)nEventReturns; (void)v;
}

// ---------------------------------------------------------------- two-pass execution
static void quietWorker(verif::Run& run) {
    static bool done = false;
    if (done || run.replaying()) return;
    done = true;
    int fd = open("/dev/null", O_WRONLY);
    if (fd >= 0) { dup2(fd, 2); close(fd); }
}
static const long WORK_BUDGET = 300000;     // realizations per simulation; the largest healthy simulation needs < 20000
static void runCase(verif::Run& run, const Cfg& cfg) {
    // A simulation that loops inside the library is stopped by the odesys work budget.  The budget itself is the
    // criterion (the exception may be swallowed inside the library: CPODES' callbacks catch everything, after which
    // the results are garbage), and it takes precedence over every other clause.  The alarm is a last resort for a
    // loop that does not even realize the state (kills the worker).
    alarm(300);
    bool loops = false;
    for (int pass = 0; pass < 2; ++pass) {
        Judge J(run, cfg, pass == 1 || run.verbose);
        if (pass == 1 && loops) J.reported = true;       // build the trace only; the one report is made below
        uint64_t outcome = verif::hashStr(INTEG_NAMES[cfg.integ]);
        bool threw = false; std::string what;
        odesys::workBudget() = WORK_BUDGET;
        try { simulate(run, cfg, J, outcome); }
        catch (const std::exception& e) { threw = true; what = e.what(); }
        const bool exhausted = odesys::workBudget() == 0;
        odesys::workBudget() = -1;
        if (exhausted) {
            loops = true;
            if (!J.tracing) J.sawFailure = true;
            else run.expect(false, std::string(INTEG_NAMES[cfg.integ]) + "/simulation-never-returns",
                            [&] { return "simulation-never-returns: the simulation kept realizing the state without finishing (stopped after " + std::to_string(WORK_BUDGET) + " realizations)\n  at " + J.where(); }, [&] { return J.replay(); });
        } else if (threw) J.check(false, "unexpected-exception", [&] { return "the simulation threw: " + what.substr(0, 400); });
        if (pass == 0) { run.evaluation(verif::hashStr(cfg.str()), true); run.outcome(outcome); }
        if (run.verbose) printf("%s\n  %s\n%s", cfg.str().c_str(), cfg.describe().c_str(), J.trace.c_str());
        if (!J.sawFailure) break;
    }
    alarm(0);
}

int main(int argc, char** argv) {
    verif::Run run("C22", argc, argv);
    run.setDeadline(1200, 7200);   // safety net only: quick needs ~20-40 s on 16 idle cores (about 320 CPU-s), see notes
    const bool thorough = run.thorough();
    run.rule = "a case = (value set, integrator, crossing pattern, direction-mask combination, action of handler 0, fixed/controlled step, report grid, scheduled-handler variant, driver); "
               "every case is one complete simulation to the final time, judged at every ReachedEventTrigger (raw driver) and on its handler log and report states (both drivers) against an analytic reference; "
               "distinct = distinct tuple; all non-trivial (each simulation has at least one witness and takes at least one step)";
    run.assumptions = {"piecewise-linear trajectory (qdot=u, udot=0, zdot=d): crossing times are closed-form and every integrator is exact between handler actions",
                       "u > 0 throughout; crossings are transversal (the property excludes tangential contacts)",
                       "two sign changes of one witness inside a single step are not demanded (documented: a trigger that came and went during a step is lost)",
                       "order of handlers due at the same instant is compared as a set",
                       "default accuracy 1e-3, default time scale 0.1 and default 10% localisation window: documented window = 1e-5"};

    if (run.replaying() && !run.replayField("cfg").empty()) {
        Cfg cfg = parseCfg(run.replayField("cfg"));
        runCase(run, cfg);
        int rc = run.finish();
        if (run.acc.violCountByKey.empty()) printf("replay: no violation\n");
        return rc;
    }

    std::vector<Cfg> cases;
    std::vector<int> vss; if (thorough) vss = {0, 1, 2}; else vss = {(int)(((run.seed % 3) + 3) % 3)};
    const int nInteg = thorough ? 10 : 9;
    for (int vs : vss) for (int integ = 0; integ < nInteg; ++integ) for (int pattern = 0; pattern < 7; ++pattern)
        for (int mc = 0; mc < Cfg::nMaskCombos(pattern); ++mc) for (int action = 0; action < NACT; ++action) for (int fixed = 0; fixed < 2; ++fixed)
            for (int grid = 0; grid < 3; ++grid) for (int sched = 0; sched < NSCHED; ++sched) for (int driver = 0; driver < 2; ++driver) {
                if (!thorough && (grid == 1 || sched == SchedOnce)) continue;      // quick: grids none/at-crossing, scheduled none/periodic/at-crossing/sets-u
                Cfg c; c.vs = vs; c.integ = integ; c.pattern = pattern; c.maskCombo = mc; c.action = action; c.fixedStep = fixed; c.grid = grid; c.sched = sched; c.driver = driver;
                cases.push_back(c);
            }
    run.extraCoverage["cases"] = std::to_string(cases.size());
    run.parallel("sim", (int64_t)cases.size(), [&](int64_t i) {
        quietWorker(run);
        runCase(run, cases[i]);
        Judge::flush(run);
        if (i % 3001 == 0) run.sample(cases[i].str() + " :: " + cases[i].describe());
    });
    Judge::flush(run);
    return run.finish();
}
