// C22 -- Events are detected, localised and handled in time order.
// Engine E2 (histories): the history is the sequence of returns / handler invocations of one
// simulation.  System: qdot=u, udot=0, zdot=d (piecewise linear in t between handler actions, so every
// integrator reproduces it to roundoff and every witness crossing time is known in closed form).
// Every combination integrator x crossing pattern x direction masks x handler action x step mode x report
// grid x scheduled-handler variant is simulated twice: by a raw stepTo loop written in the harness
// (window / listed events / transitions judged at every ReachedEventTrigger) and by the library's
// TimeStepper (handler log judged); both are compared with an analytic reference simulation.
#include "SimTKmath.h"
#include "IntegratorRep.h"      // white box: start time of the internal step in which an event was localised (Tracker::excused)
#include "odesys.h"
#include "verif.h"

#include <cstdarg>
#include <fcntl.h>
#include <memory>
#include <set>
#include <signal.h>

using namespace SimTK;
typedef Integrator::SuccessfulStepStatus Status;

static const char* INTEG_NAMES[] = {"ExplicitEuler", "RungeKutta2", "RungeKutta3", "RungeKuttaFeldberg", "RungeKuttaMerson",
                                    "Verlet", "SemiExplicitEuler", "SemiExplicitEuler2", "CPodes", "CPodesAdams"};
static const double TFINAL = 0.97;     // no scheduled time, crossing (also after a handler action) or fixed step end coincides with it

// ---------------------------------------------------------------- value sets (VERIF_SEED picks one in the quick tier)
struct Values {
    double one;                 // P1: single crossing
    double two[2];              // P2: two crossings inside one fixed step
    double sim;                 // P3: simultaneous crossings of two witnesses
    double three[3];            // P4: one per fixed step
    double hfix;                // fixed step; P5 crosses at 2*hfix (a step end)
    double prod[2];             // P6: (q-a)(q-b), roots in different fixed steps
    double sched;               // scheduled handler time
    double period;              // periodic handler interval
    double qJump, uNew;         // handler actions
};
static const Values VALUES[3] = {
    // prod: the two roots are further apart than the longest step in q (hfix*uNew), see notes (a trigger that comes and
    // goes inside one step is documented as lost) and no step end / scheduled time falls on the second root
    {.47, {.40, .50}, .45, {.2, .5, .8}, .3, {.15, .78}, .35, .25, .15, 2.0},
    {.41, {.37, .52}, .55, {.15, .45, .85}, .3, {.1, .62}, .65, .2, .1, 1.5},
    {.625, {.5625, .6875}, .4375, {.125, .375, .875}, .25, {.1875, .8125}, .3125, .125, .125, 2.0},   // binary-exact
};

// ---------------------------------------------------------------- scenario description
struct Wit { int kind; double a, b; int mask; };      // kind 0: q-a, 1: a-q, 2: (q-a)(q-b); mask bit0 rising, bit1 falling
enum Action { ActNone, ActJumpQ, ActSetU, ActSetD, ActTerminate, NACT };
static const char* ACT_NAMES[] = {"none", "q-=jump", "u:=uNew", "d:=1", "terminate"};
enum Sched { SchedNone, SchedOnce, SchedPeriodic, SchedAtCrossing, SchedOnceSetsU, NSCHED };
static const char* SCHED_NAMES[] = {"none", "scheduled-once", "periodic", "scheduled-at-crossing", "scheduled-once-sets-u"};
static const char* PATTERN_NAMES[] = {"none", "one", "two-in-one-step", "simultaneous", "one-per-step-x3", "at-step-end", "product-two-roots"};

struct Cfg {
    int vs = 0, integ = 0, pattern = 0, maskCombo = 0, action = 0, fixedStep = 0, grid = 0, sched = 0, driver = 0;   // driver 0 raw, 1 TimeStepper
    const Values& V() const { return VALUES[vs]; }
    std::vector<Wit> witnesses() const {
        const Values& v = V(); std::vector<Wit> w;
        auto m = [&](int i) { return 1 + (maskCombo / (i == 0 ? 1 : 3)) % 3; };     // 1 rising, 2 falling, 3 both
        switch (pattern) {
            case 0: w.push_back({0, 5.0, 0, m(0)}); break;
            case 1: w.push_back({0, v.one, 0, m(0)}); break;
            case 2: w.push_back({0, v.two[0], 0, m(0)}); w.push_back({1, v.two[1], 0, m(1)}); break;
            case 3: w.push_back({0, v.sim, 0, m(0)}); w.push_back({1, v.sim, 0, m(1)}); break;
            case 4: w.push_back({0, v.three[0], 0, m(0)}); w.push_back({0, v.three[1], 0, m(0)}); w.push_back({1, v.three[2], 0, m(0)}); break;
            case 5: w.push_back({0, 2 * v.hfix, 0, m(0)}); break;
            default: w.push_back({2, v.prod[0], v.prod[1], m(0)}); break;
        }
        return w;
    }
    static int nMaskCombos(int pattern) { return (pattern == 2 || pattern == 3) ? 9 : 3; }
    std::string str() const {
        return "vs=" + std::to_string(vs) + " integ=" + INTEG_NAMES[integ] + " pattern=" + std::to_string(pattern) + " masks=" + std::to_string(maskCombo) +
               " action=" + std::to_string(action) + " fixed=" + std::to_string(fixedStep) + " grid=" + std::to_string(grid) + " sched=" + std::to_string(sched) +
               " driver=" + std::to_string(driver);
    }
    std::string describe() const {
        std::string s = std::string("pattern ") + PATTERN_NAMES[pattern] + ", witnesses:";
        for (auto& w : witnesses()) {
            char b[120];
            if (w.kind == 0) snprintf(b, sizeof b, " [q-%g", w.a); else if (w.kind == 1) snprintf(b, sizeof b, " [%g-q", w.a); else snprintf(b, sizeof b, " [(q-%g)(q-%g)", w.a, w.b);
            s += b; s += w.mask == 1 ? " rising]" : w.mask == 2 ? " falling]" : " both]";
        }
        s += std::string(", handler 0 action ") + ACT_NAMES[action] + (fixedStep ? ", fixed step" : ", controlled step") +
             ", report grid " + (grid == 0 ? "none" : grid == 1 ? "dense" : "at-crossing") + ", scheduled " + SCHED_NAMES[sched] + (driver ? ", TimeStepper" : ", raw stepTo loop");
        return s;
    }
};
static Cfg parseCfg(const std::string& s) {
    Cfg c; std::istringstream is(s); std::string tok;
    while (is >> tok) {
        size_t e = tok.find('='); if (e == std::string::npos) continue;
        std::string k = tok.substr(0, e), v = tok.substr(e + 1); int n = atoi(v.c_str());
        if (k == "vs") c.vs = n; else if (k == "pattern") c.pattern = n; else if (k == "masks") c.maskCombo = n; else if (k == "action") c.action = n;
        else if (k == "fixed") c.fixedStep = n; else if (k == "grid") c.grid = n; else if (k == "sched") c.sched = n; else if (k == "driver") c.driver = n;
        else if (k == "integ") for (int i = 0; i < 10; ++i) if (v == INTEG_NAMES[i]) c.integ = i;
    }
    return c;
}

// ---------------------------------------------------------------- the log both the implementation and the reference produce
struct LogEntry { char kind; int idx; double t, q, u; int dir; };    // kind 'T' triggered, 'S' scheduled; dir +1 rising, -1 falling (reference only)
static std::string logStr(const std::vector<LogEntry>& L) {
    std::string s;
    for (auto& e : L) { char b[100]; snprintf(b, sizeof b, "%c%d@%.9g ", e.kind, e.idx, e.t); s += b; }
    return s.empty() ? "(empty)" : s;
}

// ---------------------------------------------------------------- the system and its handlers
struct Sim;
static double witnessValue(const Wit& w, double q) { return w.kind == 0 ? q - w.a : w.kind == 1 ? w.a - q : (q - w.a) * (q - w.b); }
struct Shared {     // state shared between handlers of one simulation (reset per run)
    std::vector<LogEntry> log; bool acted = false; int probe = -1; std::vector<int> probed;
};
static void applyAction(const odesys::OdeSystem& sys, const Values& v, int action, State& s, bool& terminate) {
    switch (action) {
        case ActJumpQ: sys.setQ(s, 0, sys.q(s, 0) - v.qJump); break;
        case ActSetU: sys.setU(s, 0, v.uNew); break;
        case ActSetD: sys.setD(s, 0, 1.0); break;
        case ActTerminate: terminate = true; break;
        default: break;
    }
}
class TrigHandler : public TriggeredEventHandler {
public:
    TrigHandler(const odesys::OdeSystem& sys, Shared& sh, const Values& v, int idx, Wit w, int action)
        : TriggeredEventHandler(Stage::Position), sys(sys), sh(sh), v(v), idx(idx), w(w), action(action) {
        getTriggerInfo().setTriggerOnRisingSignTransition((w.mask & 1) != 0);
        getTriggerInfo().setTriggerOnFallingSignTransition((w.mask & 2) != 0);
    }
    Real getValue(const State& s) const override { return witnessValue(w, sys.q(s, 0)); }
    void handleEvent(State& s, Real, bool& terminate) const override {
        if (sh.probe >= 0) { sh.probed.push_back(idx); return; }
        sh.log.push_back({'T', idx, s.getTime(), sys.q(s, 0), sys.u(s, 0), 0});
        if (idx == 0 && !sh.acted) { sh.acted = true; applyAction(sys, v, action, s, terminate); }
    }
    const odesys::OdeSystem& sys; Shared& sh; const Values& v; int idx; Wit w; int action;
};
class OnceHandler : public ScheduledEventHandler {
public:
    OnceHandler(const odesys::OdeSystem& sys, Shared& sh, const Values& v, double when, bool setsU) : sys(sys), sh(sh), v(v), when(when), setsU(setsU) {}
    Real getNextEventTime(const State& s, bool includeCurrent) const override {
        return (s.getTime() < when || (includeCurrent && s.getTime() == when)) ? when : (Real)Infinity;
    }
    void handleEvent(State& s, Real, bool&) const override {
        if (sh.probe >= 0) return;
        sh.log.push_back({'S', 0, s.getTime(), sys.q(s, 0), sys.u(s, 0), 0});
        if (setsU) sys.setU(s, 0, v.uNew);
    }
    const odesys::OdeSystem& sys; Shared& sh; const Values& v; double when; bool setsU;
};
class PerHandler : public PeriodicEventHandler {
public:
    PerHandler(const odesys::OdeSystem& sys, Shared& sh, double interval) : PeriodicEventHandler(interval), sys(sys), sh(sh) {}
    void handleEvent(State& s, Real, bool&) const override {
        if (sh.probe >= 0) return;
        sh.log.push_back({'S', 0, s.getTime(), sys.q(s, 0), sys.u(s, 0), 0});
    }
    const odesys::OdeSystem& sys; Shared& sh;
};

struct Fixture {
    Shared sh; std::unique_ptr<odesys::OdeSystem> sys; State init; std::vector<Wit> wits; double schedTime = Infinity;
    Fixture(const Cfg& c) {
        const Values& v = c.V();
        sys.reset(new odesys::OdeSystem(1, 1, [](Real, const Vector&, const Vector&, const Vector&, const Vector& d, Vector& udot, Vector& zdot) { udot[0] = 0; zdot[0] = d[0]; }, 1));
        wits = c.witnesses();
        if (c.sched == SchedOnce || c.sched == SchedOnceSetsU) schedTime = v.sched;
        if (c.sched == SchedAtCrossing) schedTime = wits[0].kind == 2 ? std::max(wits[0].a, wits[0].b) : wits[0].a;
        if (c.sched == SchedOnce || c.sched == SchedAtCrossing || c.sched == SchedOnceSetsU) sys->addEventHandler(new OnceHandler(*sys, sh, v, schedTime, c.sched == SchedOnceSetsU));
        if (c.sched == SchedPeriodic) sys->addEventHandler(new PerHandler(*sys, sh, v.period));
        for (int i = 0; i < (int)wits.size(); ++i) sys->addEventHandler(new TrigHandler(*sys, sh, v, i, wits[i], c.action));
        init = sys->makeState(0, Vector(1, Real(0)), Vector(1, Real(1)), Vector(1, Real(0)));
    }
};
static Integrator* makeIntegratorOf(int integ, bool fixedStep, double h, const System& sys) {
    Integrator* I = nullptr;
    switch (integ) {
        case 0: I = new ExplicitEulerIntegrator(sys); break;
        case 1: I = new RungeKutta2Integrator(sys); break;
        case 2: I = new RungeKutta3Integrator(sys); break;
        case 3: I = new RungeKuttaFeldbergIntegrator(sys); break;
        case 4: I = new RungeKuttaMersonIntegrator(sys); break;
        case 5: I = new VerletIntegrator(sys); break;
        case 6: I = new SemiExplicitEulerIntegrator(sys, fixedStep ? h : h / 4); break;
        case 7: I = new SemiExplicitEuler2Integrator(sys); break;
        case 8: I = new CPodesIntegrator(sys, CPodes::BDF); break;
        default: I = new CPodesIntegrator(sys, CPodes::Adams); break;
    }
    if (fixedStep && integ != 6) I->setFixedStepSize(h);
    return I;
}
static Integrator* makeIntegrator(const Cfg& c, const System& sys) {
    const double h = c.V().hfix;
    Integrator* I = nullptr;
    switch (c.integ) {
        case 0: I = new ExplicitEulerIntegrator(sys); break;
        case 1: I = new RungeKutta2Integrator(sys); break;
        case 2: I = new RungeKutta3Integrator(sys); break;
        case 3: I = new RungeKuttaFeldbergIntegrator(sys); break;
        case 4: I = new RungeKuttaMersonIntegrator(sys); break;
        case 5: I = new VerletIntegrator(sys); break;
        case 6: I = new SemiExplicitEulerIntegrator(sys, c.fixedStep ? h : h / 4); break;
        case 7: I = new SemiExplicitEuler2Integrator(sys); break;
        case 8: I = new CPodesIntegrator(sys, CPodes::BDF); break;
        default: I = new CPodesIntegrator(sys, CPodes::Adams); break;
    }
    if (c.fixedStep && c.integ != 6) I->setFixedStepSize(h);
    // the product witness has two roots: keep controlled steps shorter than their distance (a trigger that comes
    // and goes inside one step is documented as lost)
    if (!c.fixedStep && c.pattern == 6 && c.integ != 6) I->setMaximumStepSize(h * 0.75);
    I->setFinalTime(TFINAL);
    return I;
}

// ---------------------------------------------------------------- analytic reference simulation
struct RefSeg { double t0, q0, u, z0, d; };        // trajectory from t0: q = q0 + u (t-t0), z = z0 + d (t-t0)
struct Reference {
    std::vector<LogEntry> log; std::vector<RefSeg> segs; bool terminated = false; double tEnd = TFINAL;
    double q(double t) const { const RefSeg& s = seg(t); return s.q0 + s.u * (t - s.t0); }
    double u(double t) const { return seg(t).u; }
    double z(double t) const { const RefSeg& s = seg(t); return s.z0 + s.d * (t - s.t0); }
    const RefSeg& seg(double t) const { size_t i = segs.size() - 1; while (i > 0 && segs[i].t0 > t) --i; return segs[i]; }
    // is t within tol of a discontinuity (handler action)?  report states there are not compared
    bool nearBreak(double t, double tol) const { for (size_t i = 1; i < segs.size(); ++i) if (std::abs(t - segs[i].t0) <= tol) return true; return false; }
};
static Reference simulateReference(const Cfg& c, const std::vector<Wit>& wits, double schedTime) {
    const Values& v = c.V();
    Reference R; RefSeg s = {0, 0, 1, 0, 0}; R.segs.push_back(s);
    bool acted = false;
    // pending scheduled times
    std::vector<double> sched;
    if (c.sched == SchedPeriodic) { for (long long k = 0; k * v.period < TFINAL; ++k) sched.push_back(k * v.period); }
    else if (schedTime < Infinity) sched.push_back(schedTime);
    size_t nextSched = 0;
    // roots in q of every witness with the sign change seen when q increases through the root
    struct Root { int wit; double c; int dirUp; };
    std::vector<Root> roots;
    for (int i = 0; i < (int)wits.size(); ++i) {
        const Wit& w = wits[i];
        if (w.kind == 0) roots.push_back({i, w.a, +1});
        else if (w.kind == 1) roots.push_back({i, w.a, -1});
        else { roots.push_back({i, std::min(w.a, w.b), -1}); roots.push_back({i, std::max(w.a, w.b), +1}); }
    }
    double t = 0;
    // a root is armed while q is strictly below it; handling it disarms it until q drops below it again (q jump)
    std::vector<char> armed(roots.size(), 1);
    for (int guard = 0; guard < 200; ++guard) {
        const double qNow = s.q0 + s.u * (t - s.t0);
        for (size_t k = 0; k < roots.size(); ++k) if (qNow < roots[k].c - 1e-9) armed[k] = 1;
        // next triggered crossing (u > 0 always in this family)
        double tc = Infinity;
        for (size_t k = 0; k < roots.size(); ++k) {
            const Root& r = roots[k];
            if (!armed[k] || !(wits[r.wit].mask & (r.dirUp > 0 ? 1 : 2))) continue;
            tc = std::min(tc, t + std::max(0.0, r.c - qNow) / s.u);
        }
        double ts = nextSched < sched.size() ? sched[nextSched] : (double)Infinity;
        double tn = std::min(tc, ts);
        if (!(tn < TFINAL)) break;
        const double qAt = s.q0 + s.u * (tn - s.t0), zAt = s.z0 + s.d * (tn - s.t0);
        RefSeg ns = {tn, qAt, s.u, zAt, s.d}; bool changed = false;
        // the order of handlers due at the same instant is not documented: logs are compared as sets per instant
        if (ts == tn) {
            R.log.push_back({'S', 0, tn, qAt, s.u, 0}); nextSched++;
            if (c.sched == SchedOnceSetsU) { ns.u = v.uNew; changed = true; }
        }
        if (tc == tn) {
            for (size_t k = 0; k < roots.size(); ++k) {
                const Root& r = roots[k];
                if (!armed[k]) continue;
                if (t + std::max(0.0, r.c - qNow) / s.u != tc) continue;
                armed[k] = 0;                                   // passed (whether monitored or not)
                if (!(wits[r.wit].mask & (r.dirUp > 0 ? 1 : 2))) continue;
                R.log.push_back({'T', r.wit, tn, qAt, s.u, r.dirUp});
                if (r.wit == 0 && !acted) {
                    acted = true;
                    switch (c.action) {
                        case ActJumpQ: ns.q0 = qAt - v.qJump; changed = true; break;
                        case ActSetU: ns.u = v.uNew; changed = true; break;
                        case ActSetD: ns.d = 1; changed = true; break;
                        case ActTerminate: R.terminated = true; R.tEnd = tn; break;
                        default: break;
                    }
                }
            }
        }
        // roots passed silently (not monitored) before tn are disarmed as well
        for (size_t k = 0; k < roots.size(); ++k) if (armed[k] && roots[k].c <= qAt + 1e-12 && !(tc == tn && false)) { if (roots[k].c < qAt - 1e-12 || !(wits[roots[k].wit].mask & (roots[k].dirUp > 0 ? 1 : 2))) armed[k] = 0; }
        t = tn;
        if (changed) { s = ns; R.segs.push_back(s); }
        if (R.terminated) break;
    }
    return R;
}

// ---------------------------------------------------------------- judging helpers
struct Judge {
    verif::Run& run; std::string cfgStr, cfgDesc, integName, replayKey; std::string trace; bool tracing;
    bool sawFailure = false;      // (untraced pass) some clause failed: the case is executed again with tracing
    bool reported = false;        // (traced pass) the first failing clause has been reported; later ones in the same
                                  // simulation are consequences more often than not and are only counted
    bool reportedB = false;       // the same for the second clause group (sections win/stage/repwin/reuse: "the trajectory
                                  // continues from the state the handlers produced"), which is judged against a reference that
                                  // follows the implementation's own handler invocations and therefore does not inherit
                                  // protocol failures (a known CPodes root-finding key cannot hide a lost handler change)
    Judge(verif::Run& run, const Cfg& c, bool tracing) : run(run), cfgStr(c.str()), cfgDesc(c.describe()), integName(INTEG_NAMES[c.integ]), replayKey("cfg"), tracing(tracing) {}
    Judge(verif::Run& run, const std::string& cfgStr, const std::string& cfgDesc, const std::string& integName, const std::string& replayKey, bool tracing)
        : run(run), cfgStr(cfgStr), cfgDesc(cfgDesc), integName(integName), replayKey(replayKey), tracing(tracing) {}
    std::string where() const { return cfgStr + "\n  " + cfgDesc + "\n" + trace; }
    std::string replay() const { return replayKey + "=" + cfgStr + "\n" + trace; }
    template <class M> void checkG(bool& rep, bool cond, const char* clause, const M& msg) {
        if (cond) { if (!tracing || run.verbose) { run.acc.transitions++; okCount()[clause]++; } return; }
        if (!tracing) { sawFailure = true; return; }
        if (rep) { run.count("failures_after_the_first_in_one_simulation"); return; }
        rep = true;
        run.expect(false, integName + "/" + clause, [&] { return std::string(clause) + ": " + msg() + "\n  at " + where(); }, [&] { return replay(); });
    }
    template <class M> void check(bool cond, const char* clause, const M& msg) { checkG(reported, cond, clause, msg); }
    template <class M> void checkB(bool cond, const char* clause, const M& msg) { checkG(reportedB, cond, clause, msg); }
    void residual(const char* oracle, double value, double bound, const char* clause) {
        if (!(value <= bound) && !tracing) { sawFailure = true; return; }
        if (!(value <= bound) && reported) { run.count("failures_after_the_first_in_one_simulation"); return; }
        if (!(value <= bound)) reported = true;
        if ((value <= bound) != tracing || run.verbose)
            run.residual(oracle, value, bound, [&] { return where(); }, [&] { return replay(); }, integName + "/" + clause);
    }
    // a residual whose failure is reported under the boolean key <integrator>/<clause> (group A or B); passing values
    // are recorded under `oracle` for calibration
    template <class M> void residualKeyed(bool groupB, const char* oracle, double value, double bound, const char* clause, const M& msg) {
        if (value <= bound) {
            if (!tracing || run.verbose) { run.residual(oracle, value, bound, [&] { return where(); }); okCount()[clause]++; }
            return;
        }
        checkG(groupB ? reportedB : reported, false, clause, msg);
    }
    void note(const char* fmt, ...) {
        if (!tracing) return;
        char b[500]; va_list ap; va_start(ap, fmt); vsnprintf(b, sizeof b, fmt, ap); va_end(ap); trace += b;
    }
    static std::map<const char*, int64_t>& okCount() { static std::map<const char*, int64_t> m; return m; }
    static void flush(verif::Run& run) { for (auto& kv : okCount()) run.count(std::string("oracle:") + kv.first + ":ok", kv.second); okCount().clear(); }
    // stable storage for clause names composed at run time (okCount is keyed by pointer)
    static const char* intern(const std::string& s) { static std::set<std::string> pool; return pool.insert(s).first->c_str(); }
};

// tolerances (see notes/C22.md): the localisation window the documentation promises is accuracy*timescale*window
// = 1e-3 * 0.1 * 0.1 = 1e-5 (default accuracy, default time scale, default 10% window); a handler acts at tHigh,
// i.e. up to one window after the crossing, so everything downstream of an action may drift by window*|du|.
static const double WINDOW = 1e-3 * 0.1 * 0.1;
static const double EPS_T = 1e-12;          // roundoff in a crossing time (q and t are O(1))
static const double TOL_T = 4 * WINDOW;     // handler time vs analytic crossing time (after earlier actions)
static const double TOL_Y = 8 * WINDOW;     // state at a report vs reference (|u| <= 2)

// One simulation.  Returns through J; the implementation's handler log is compared with the reference log.
static void simulate(verif::Run& run, const Cfg& cfg, Judge& J, uint64_t& outcome) {
    Fixture fx(cfg);
    const Values& v = cfg.V();
    Reference ref = simulateReference(cfg, fx.wits, fx.schedTime);
    std::unique_ptr<Integrator> integ(makeIntegrator(cfg, *fx.sys));
    odesys::OdeSystem& sys = *fx.sys;

    // event id -> handler index, learnt from the library's own dispatch (System::handleEvents)
    std::map<int, int> idToWit;
    {
        State scratch = fx.init; sys.realize(scratch, Stage::Acceleration);
        const int nIds = (int)fx.wits.size() + 2;
        for (int id = 0; id < nIds; ++id) {
            fx.sh.probe = id; fx.sh.probed.clear();
            Array_<EventId> ids; ids.push_back(EventId(id));
            HandleEventsOptions opts; HandleEventsResults res;
            sys.handleEvents(scratch, Event::Cause::Triggered, ids, opts, res);
            if (fx.sh.probed.size() == 1) idToWit[id] = fx.sh.probed[0];
        }
        fx.sh.probe = -1;
    }
    J.check(idToWit.size() == fx.wits.size(), "event-id-dispatch", [&] { return std::string("System::handleEvents did not dispatch each triggered event id to exactly one handler"); });

    // report grid
    std::vector<double> grid;
    if (cfg.grid == 1) for (int k = 1; k * 0.05 < TFINAL - 1e-9; ++k) grid.push_back(k * 0.05);
    if (cfg.grid == 2) { const Wit& w = fx.wits[0]; double c = w.kind == 2 ? std::max(w.a, w.b) : w.a; if (c < 0.9) grid.push_back(c); grid.push_back(0.9); }
    grid.push_back(TFINAL);

    // returned trajectory points are collected and judged after the handler log (a wrong log explains wrong states)
    struct Sample { double t, q, u, z; };
    std::vector<Sample> samples;
    auto judgeReportState = [&](double t, const State& s, const char* whatReturn) {
        samples.push_back({t, sys.q(s, 0), sys.u(s, 0), sys.z(s, 0)});
        J.note("    %s t=%.12g q=%.12g u=%.6g z=%.12g (ref q=%.12g u=%.6g z=%.12g)\n", whatReturn, t, sys.q(s, 0), sys.u(s, 0), sys.z(s, 0), ref.q(t), ref.u(t), ref.z(t));
    };
    auto judgeSamples = [&]() {
        for (auto& sm : samples) {
            const double t = sm.t;
            if (ref.terminated && t > ref.tEnd + TOL_T) {
                J.check(false, "state-returned-after-termination", [&] { return "a state at t=" + verif::fmtd(t) + " was returned although a handler terminated the simulation at " + verif::fmtd(ref.tEnd); });
                continue;
            }
            // a trajectory point on a discontinuity (within a window of a handler action) is not compared
            if (ref.nearBreak(t, TOL_T)) { Judge::okCount()["(unspecified) report state within a window of a handler action: not compared"]++; continue; }
            const double eq = std::abs(sm.q - ref.q(t)), eu = std::abs(sm.u - ref.u(t)), ez = std::abs(sm.z - ref.z(t));
            J.residual("report-state-vs-reference", std::max(eq, std::max(eu, ez)), TOL_Y, "trajectory-after-handler-wrong");
        }
    };

    integ->setAccuracy(1e-3);
    double lastHigh = -Infinity; int nEventReturns = 0;
    if (cfg.driver == 1) {
        // ---------------- the library's TimeStepper
        TimeStepper ts(sys, *integ);
        ts.initialize(fx.init);
        for (double r : grid) {
            if (integ->isSimulationOver()) break;
            Status st = ts.stepTo(r);
            J.note("  TimeStepper::stepTo(%.12g) -> %s at t=%.12g\n", r, Integrator::getSuccessfulStepStatusString(st).c_str(), ts.getTime());
            outcome = verif::hashPod((int)st, outcome);
            if (st == Integrator::ReachedReportTime) {
                J.check(ts.getTime() == r, "timestepper-report-not-at-requested-time", [&] { return "stepTo(" + verif::fmtd(r) + ") returned ReachedReportTime at " + verif::fmtd(ts.getTime()); });
                judgeReportState(ts.getTime(), ts.getState(), "report");
            } else if (st != Integrator::EndOfSimulation)
                J.check(false, "timestepper-unexpected-status", [&] { return std::string("TimeStepper::stepTo returned ") + Integrator::getSuccessfulStepStatusString(st).c_str(); });
        }
        if (!integ->isSimulationOver()) { Status st = ts.stepTo(Infinity); J.note("  TimeStepper::stepTo(inf) -> %s at t=%.12g\n", Integrator::getSuccessfulStepStatusString(st).c_str(), ts.getTime()); }
    } else {
        // ---------------- raw stepTo loop (the TimeStepper protocol, with the window judged at every event)
        integ->initialize(fx.init);
        HandleEventsOptions hopts(integ->getConstraintToleranceInUse());
        double lastEventTime = -Infinity; size_t gi = 0; int guard = 0;
        while (!integ->isSimulationOver() && guard++ < 2000) {
            Real tSched = Infinity; Array_<EventId> schedIds;
            sys.realize(integ->getState(), Stage::Time);
            sys.calcTimeOfNextScheduledEvent(integ->getState(), tSched, schedIds, lastEventTime != integ->getTime());
            const double r = gi < grid.size() ? grid[gi] : (double)Infinity;
            Status st = integ->stepTo(r, tSched);
            const double t = integ->getTime(), ta = integ->getAdvancedTime();
            outcome = verif::hashPod((int)st, outcome);
            J.note("  stepTo(%.12g, %.12g) -> %s t=%.15g tAdv=%.15g\n", r, (double)tSched, Integrator::getSuccessfulStepStatusString(st).c_str(), t, ta);
            Stage lowest = Stage::Report; bool term = false;
            switch (st) {
                case Integrator::ReachedReportTime:
                    if (t >= r) { judgeReportState(t, integ->getState(), "report"); gi++; }
                    continue;
                case Integrator::StartOfContinuousInterval: case Integrator::ReachedStepLimit: case Integrator::TimeHasAdvanced:
                    continue;
                case Integrator::ReachedScheduledEvent: {
                    HandleEventsResults res;
                    sys.handleEvents(integ->updAdvancedState(), Event::Cause::Scheduled, schedIds, hopts, res);
                    lowest = res.getLowestModifiedStage(); term = res.getExitStatus() == HandleEventsResults::ShouldTerminate;
                    lastEventTime = integ->getTime();
                    break;
                }
                case Integrator::ReachedEventTrigger: {
                    nEventReturns++;
                    const Vec2 w = integ->getEventWindow();
                    const Array_<EventId> ids = integ->getTriggeredEvents();
                    const Array_<Event::Trigger> trans = integ->getEventTransitionsSeen();
                    const Array_<Real> est = integ->getEstimatedEventTimes();
                    J.note("      window (%.15g, %.15g] width %.3g, %d event(s)\n", w[0], w[1], w[1] - w[0], (int)ids.size());
                    J.check(w[0] < w[1], "event-window-empty", [&] { return std::string("tLow >= tHigh"); });
                    // CPODES localises with its own (much tighter) root tolerance; the documented bound applies to all
                    J.residual("event-window-width", w[1] - w[0], WINDOW * (1 + 1e-9), "event-window-too-wide");
                    J.check(t == w[0] && ta == w[1], "event-return-not-at-window", [&] { return "state time " + verif::fmtd(t) + " / advanced " + verif::fmtd(ta) + " are not the window ends"; });
                    J.check(w[0] >= lastHigh, "events-out-of-time-order", [&] { return "window starts at " + verif::fmtd(w[0]) + " before the previous window's end " + verif::fmtd(lastHigh); });
                    lastHigh = w[1];
                    // the before-state must really be before: no monitored witness may already show its after-sign at tLow
                    // (judged through the listed events below).  Listed events: each must be a witness whose value changes sign
                    // in a monitored direction across the window, judged on the library's own states at tLow and tHigh.
                    J.check(ids.size() == trans.size() && ids.size() == est.size() && ids.size() >= 1, "event-arrays-inconsistent", [&] { return std::string("triggered ids / transitions / estimated times differ in length or are empty"); });
                    const double qLow = sys.q(integ->getState(), 0), qHigh = sys.q(integ->getAdvancedState(), 0);
                    for (int k = 0; k < (int)ids.size() && k < (int)trans.size(); ++k) {
                        auto it = idToWit.find((int)ids[k]);
                        if (it == idToWit.end()) { J.check(false, "unknown-event-id-listed", [&] { return "event id " + std::to_string((int)ids[k]) + " does not belong to a triggered handler"; }); continue; }
                        const Wit& wt = fx.wits[it->second];
                        const double eLow = witnessValue(wt, qLow), eHigh = witnessValue(wt, qHigh);
                        // signs judged with a roundoff allowance: the library localises on interpolated states whose
                        // witness values may differ from these re-evaluations in the last bits
                        const double EE = 1e-12;
                        const bool rising = eLow <= EE && eHigh >= -EE && eHigh > eLow, falling = eLow >= -EE && eHigh <= EE && eHigh < eLow;
                        J.note("      listed: handler %d transition %s  e(tLow)=%.3g e(tHigh)=%.3g est=%.15g\n", it->second, Event::eventTriggerString(trans[k]).c_str(), eLow, eHigh, (double)est[k]);
                        J.check(rising || falling, "listed-event-did-not-cross", [&] { return "handler " + std::to_string(it->second) + " is listed but its witness goes " + verif::fmtd(eLow) + " -> " + verif::fmtd(eHigh) + " across the window: no sign change"; });
                        J.check(!(rising || falling) || (rising && (wt.mask & 1)) || (falling && (wt.mask & 2)), "listed-event-in-unmonitored-direction", [&] { return "handler " + std::to_string(it->second) + " is listed for a " + (rising ? "rising" : "falling") + " transition (" + verif::fmtd(eLow) + " -> " + verif::fmtd(eHigh) + ") but monitors only " + (wt.mask == 1 ? "rising" : "falling"); });
                        J.check((rising && trans[k] == Event::Rising) || (falling && trans[k] == Event::Falling) || (!rising && !falling), "transition-direction-wrong", [&] { return "handler " + std::to_string(it->second) + " transition reported as " + Event::eventTriggerString(trans[k]); });
                        // closed interval: when a report time pins one end of the window the window can be one ulp wide
                        // and the estimate sits on tLow (the header only says "within the event window")
                        if (k < (int)est.size()) J.check(w[0] <= est[k] && est[k] <= w[1], "estimated-event-time-outside-window", [&] { return "estimated time " + verif::fmtd(est[k]) + " outside the window"; });
                    }
                    HandleEventsResults res;
                    sys.handleEvents(integ->updAdvancedState(), Event::Cause::Triggered, ids, hopts, res);
                    lowest = res.getLowestModifiedStage(); term = res.getExitStatus() == HandleEventsResults::ShouldTerminate;
                    break;
                }
                case Integrator::EndOfSimulation: {
                    HandleEventsResults res;
                    sys.handleEvents(integ->updAdvancedState(), Event::Cause::Termination, Array_<EventId>(), hopts, res);
                    lowest = res.getLowestModifiedStage(); term = res.getExitStatus() == HandleEventsResults::ShouldTerminate;
                    break;
                }
                default:
                    J.check(false, "invalid-status", [&] { return std::string("stepTo returned an invalid status"); });
                    guard = 1 << 30;
            }
            integ->reinitialize(lowest, term);
        }
        J.check(integ->isSimulationOver(), "simulation-did-not-end", [&] { return std::string("the raw loop did not reach the end of the simulation within 2000 returns"); });
    }

    // ---------------- the handler log against the analytic reference
    const std::vector<LogEntry>& got = fx.sh.log;
    J.note("  implementation log: %s\n  reference log:      %s\n", logStr(got).c_str(), logStr(ref.log).c_str());
    for (auto& e : got) outcome = verif::hashPod(e.idx, verif::hashPod(e.kind, outcome));
    // The logs are compared as sequences, except that entries due at the same reference time form a set
    // (order between simultaneous scheduled and triggered handlers is not documented).
    auto canon = [&](std::vector<LogEntry> L, bool isRef) {
        // group by time proximity: entries within TOL_T+WINDOW of each other and of the same reference instant are sorted by (kind, idx)
        std::stable_sort(L.begin(), L.end(), [&](const LogEntry& a, const LogEntry& b) {
            if (std::abs(a.t - b.t) > TOL_T + WINDOW) return a.t < b.t;
            if (a.kind != b.kind) return a.kind < b.kind;
            return a.idx < b.idx; });
        (void)isRef; return L;
    };
    // time order as produced (before canonicalisation): handler invocation times never decrease
    for (size_t i = 1; i < got.size(); ++i)
        J.check(got[i].t >= got[i - 1].t, "handlers-invoked-out-of-time-order", [&] { return "handler invoked at " + verif::fmtd(got[i].t) + " after one at " + verif::fmtd(got[i - 1].t); });
    std::vector<LogEntry> G = canon(got, false), E = canon(ref.log, true);
    // a handler that terminates the simulation may pre-empt a scheduled handler due at the same instant (order undocumented)
    if (ref.terminated && G.size() < E.size()) {
        std::vector<LogEntry> E2;
        for (auto& e : E) if (!(e.kind == 'S' && std::abs(e.t - ref.tEnd) <= TOL_T + WINDOW)) E2.push_back(e);
        if (E2.size() == G.size()) E = E2;
    }
    size_t n = std::min(G.size(), E.size());
    bool same = G.size() == E.size();
    size_t firstDiff = n;
    for (size_t i = 0; i < n; ++i) if (G[i].kind != E[i].kind || G[i].idx != E[i].idx) { same = false; firstDiff = i; break; }
    if (!same) {
        // classify the first difference for a precise key
        const char* clause;
        const size_t i = firstDiff;
        const bool gHas = i < G.size(), eHas = i < E.size();
        if (gHas && i > 0 && G[i].kind == 'T' && G[i - 1].kind == 'T' && G[i].idx == G[i - 1].idx && std::abs(G[i].t - G[i - 1].t) <= 2 * WINDOW)
            clause = "crossing-handled-twice";                     // the same handler again within two windows of its own invocation
        else if (gHas && (!eHas || G[i].t < E[i].t - (TOL_T + WINDOW)))
            clause = G[i].kind == 'T' ? "unexpected-triggered-handler-invocation" : "unexpected-scheduled-handler-invocation";
        else
            clause = E[i].kind == 'T' ? "crossing-not-handled" : "scheduled-handler-not-invoked";
        J.check(false, clause, [&] { return "implementation log [" + logStr(got) + "] differs from the analytic reference [" + logStr(ref.log) + "]"; });
    } else {
        J.check(true, "handler-sequence-equals-reference", [] { return std::string(); });
        for (size_t i = 0; i < n; ++i) {
            if (E[i].kind == 'S') {
                J.check(G[i].t == E[i].t, "scheduled-handler-not-at-its-time", [&] { return "scheduled handler ran at " + verif::fmtd(G[i].t) + ", scheduled for " + verif::fmtd(E[i].t); });
            } else {
                // localised time: not before the crossing (minus roundoff), at most one window (+ drift from earlier actions) after it
                const double dt = G[i].t - E[i].t;
                J.residual("handler-time-after-crossing", dt, TOL_T, "triggered-handler-too-late");
                J.residual("handler-time-before-crossing", -dt, TOL_T - WINDOW + EPS_T, "triggered-handler-before-crossing");
            }
            // the state the handler saw: on the pre-action trajectory at its own time
            const bool clustered = (i > 0 && std::abs(E[i].t - E[i - 1].t) <= TOL_T + WINDOW) || (i + 1 < n && std::abs(E[i + 1].t - E[i].t) <= TOL_T + WINDOW);
            if (!clustered) {
                const double qExpect = E[i].q + E[i].u * (G[i].t - E[i].t);
                J.residual("handler-state-vs-reference", std::max(std::abs(G[i].q - qExpect), std::abs(G[i].u - E[i].u)), TOL_Y, "handler-saw-wrong-state");
            }
        }
    }
    // termination
    if (integ->isSimulationOver()) {
        const bool byHandler = integ->getTerminationReason() == Integrator::EventHandlerRequestedTermination;
        J.check(byHandler == ref.terminated, "termination-reason-wrong", [&] { return std::string("termination reason is ") + Integrator::getTerminationReasonString(integ->getTerminationReason()).c_str() + (ref.terminated ? " but a handler requested termination" : " but no handler requested termination"); });
        const double tEnd = integ->getAdvancedTime();
        J.check(ref.terminated ? std::abs(tEnd - ref.tEnd) <= TOL_T + WINDOW : tEnd == TFINAL, "simulation-ended-at-wrong-time", [&] { return "simulation ended at " + verif::fmtd(tEnd) + ", expected " + verif::fmtd(ref.tEnd); });
    }
    judgeSamples();
    (void)nEventReturns; (void)v;
}

// ================================================================ second generation: sections win / stage / repwin / reuse
// Same system family (qdot=u, udot=0, zdot=d0+d1), but every witness carries its own required localisation window
// (EventTriggerInfo::setRequiredLocalizationTimeWindow) and a shape (linear, convex, concave in q: the secant estimate
// of the root is exact, undershoots, overshoots); scheduled handlers/reporters come as a list; handler actions include
// changes whose lowest modified stage is Dynamics or Acceleration (z only, Dynamics-stage variable, Acceleration-stage
// variable).  The reference is a *tracking* reference: it follows the implementation's own merged trace (handler and
// reporter invocations, returned trajectory points, in the order they happened), demands of each invocation that it is
// at the right time (crossing <= t <= crossing + the event's OWN window; scheduled: exact), that the state it saw lies on
// the current analytic segment, and restarts the analytic segment from the handler's own time.  So all state
// comparisons are exact to roundoff (no drift allowance), and a lost handler change cannot hide behind a protocol failure.
namespace g2 {

enum Shape { ShLinear, ShConvex, ShConcave };
enum Act2 { A2None, A2SetU, A2SetZ, A2SetD, A2SetDAcc, NACT2 };
static const char* ACT2_NAMES[] = {"none", "u-change", "z-only", "dynamics-var", "acceleration-var"};
static const char* SHAPE_NAMES[] = {"linear", "convex", "concave"};
static const double SHAPE_L = 2.0;       // distance of the second root of a convex/concave witness: out of reach (0 <= q < 2)
static const double Z_JUMP = 0.7;
static const double ACCURACY = 1e-3, TIMESCALE = 0.1;     // setAccuracy(1e-3); System default time scale

struct Wit2 { int shape, orient; double root, win; int mask, action; };        // orient +1: rising as q increases; mask bit0 rising, bit1 falling
struct SchedItem { char kind; bool periodic; double when; int action; };       // kind 'S' handler, 'R' reporter; when = time or interval
struct Scn {
    std::string sec;
    int vs = 0, integ = 0, fixedStep = 0, driver = 0;    // driver 0 raw stepTo loop, 1 TimeStepper (reports = stepTo targets), 2 TimeStepper (reports = a ScheduledEventReporter)
    double hfix = .3, uNew = 2, t0 = 0, q0 = 0, u0 = 1, z0 = 0, tFinal = TFINAL;
    std::vector<Wit2> wits; std::vector<SchedItem> sched; std::vector<double> reports;     // reports ascending, < tFinal
    double tolOf(int i) const { return ACCURACY * TIMESCALE * wits[i].win; }
    std::string describe() const {
        std::string s = "section " + sec + ", witnesses:";
        char b[200];
        for (auto& w : wits) {
            snprintf(b, sizeof b, " [%s %s root q=%.12g window %g (tolerance %.3g) mask %s action %s]", SHAPE_NAMES[w.shape], w.orient > 0 ? "rising" : "falling", w.root, w.win,
                     ACCURACY * TIMESCALE * w.win, w.mask == 1 ? "rising" : w.mask == 2 ? "falling" : "both", ACT2_NAMES[w.action]);
            s += b;
        }
        s += "; scheduled:";
        for (auto& k : sched) { snprintf(b, sizeof b, " [%s %s %.12g action %s]", k.kind == 'S' ? "handler" : "reporter", k.periodic ? "every" : "once at", k.when, ACT2_NAMES[k.action]); s += b; }
        s += "; reports at:";
        for (double r : reports) { snprintf(b, sizeof b, " %.12g", r); s += b; }
        snprintf(b, sizeof b, "; start t=%.12g q=%.6g u=%.6g z=%.6g, final time %.12g, %s step, %s", t0, q0, u0, z0, tFinal, fixedStep ? "fixed" : "controlled",
                 driver == 0 ? "raw stepTo loop" : driver == 1 ? "TimeStepper" : "TimeStepper with a scheduled reporter at the report times");
        return s + b;
    }
};
static double wit2Value(const Wit2& w, double q) {
    const double x = q - w.root;
    const double f = w.shape == ShLinear ? x : w.shape == ShConvex ? x * (x + SHAPE_L) / SHAPE_L : x * (SHAPE_L - x) / SHAPE_L;
    return w.orient * f;
}

// the merged trace: handler / reporter invocations and returned trajectory points in the order they happened
struct Entry {
    char kind; int idx; double t, q, u, z; int status;      // 'T' triggered handler, 'S' scheduled handler, 'R' reporter, 'P' returned point
    // 'T' only (read from the integrator while the handler runs; NaN for CPodes): the event window and the start of the internal
    // step in which it was localised -- used only to recognise the one case the documentation leaves open (see Tracker::excused)
    double wLow = NaN, wHigh = NaN, tPrev = NaN;
};
struct Shared2 {
    std::vector<Entry> trace; std::vector<char> acted; int probe = -1; std::vector<int> probed; bool terminateOnTrigger = false;
    const Integrator* integ = nullptr; bool integIsCPodes = false;
    void reset(size_t n) { trace.clear(); acted.assign(n, 0); probe = -1; probed.clear(); }
};
static std::string traceStr(const std::vector<Entry>& L) {
    std::string s;
    for (auto& e : L) { char b[100]; if (e.kind == 'P') snprintf(b, sizeof b, "P@%.12g ", e.t); else snprintf(b, sizeof b, "%c%d@%.12g ", e.kind, e.idx, e.t); s += b; }
    return s.empty() ? "(empty)" : s;
}
static void applyAct2(const odesys::OdeSystem& sys, const Scn& sc, int action, State& s) {
    switch (action) {
        case A2SetU: sys.setU(s, 0, sc.uNew); break;
        case A2SetZ: s.updZ(sys.subsys())[0] += Z_JUMP; break;
        case A2SetD: sys.setD(s, 0, 1.0); break;
        case A2SetDAcc: sys.setD(s, 1, 1.0); break;
        default: break;
    }
}
static Entry entryOf(const odesys::OdeSystem& sys, char kind, int idx, const State& s, int status = 0) {
    Entry e; e.kind = kind; e.idx = idx; e.t = s.getTime(); e.q = sys.q(s, 0); e.u = sys.u(s, 0); e.z = sys.z(s, 0); e.status = status;
    return e;
}
class TrigHandler2 : public TriggeredEventHandler {
public:
    TrigHandler2(const odesys::OdeSystem& sys, Shared2& sh, const Scn& sc, int idx) : TriggeredEventHandler(Stage::Position), sys(sys), sh(sh), sc(sc), idx(idx), w(sc.wits[idx]) {
        getTriggerInfo().setTriggerOnRisingSignTransition((w.mask & 1) != 0);
        getTriggerInfo().setTriggerOnFallingSignTransition((w.mask & 2) != 0);
        getTriggerInfo().setRequiredLocalizationTimeWindow(w.win);
    }
    Real getValue(const State& s) const override { return wit2Value(w, sys.q(s, 0)); }
    void handleEvent(State& s, Real, bool& terminate) const override {
        if (sh.probe >= 0) { sh.probed.push_back(idx); return; }
        Entry e = entryOf(sys, 'T', idx, s);
        if (sh.integ && !sh.integIsCPodes) { const Vec2 w = sh.integ->getEventWindow(); e.wLow = w[0]; e.wHigh = w[1]; e.tPrev = sh.integ->getRep().getPreviousTime(); }
        sh.trace.push_back(e);
        if (sh.terminateOnTrigger) { terminate = true; return; }
        if (!sh.acted[idx]) { sh.acted[idx] = 1; applyAct2(sys, sc, w.action, s); }
    }
    const odesys::OdeSystem& sys; Shared2& sh; const Scn& sc; int idx; Wit2 w;
};
class OnceHandler2 : public ScheduledEventHandler {
public:
    OnceHandler2(const odesys::OdeSystem& sys, Shared2& sh, const Scn& sc, int k) : sys(sys), sh(sh), sc(sc), k(k) {}
    Real getNextEventTime(const State& s, bool includeCurrent) const override {
        const double when = sc.sched[k].when;
        return (s.getTime() < when || (includeCurrent && s.getTime() == when)) ? when : (Real)Infinity;
    }
    void handleEvent(State& s, Real, bool&) const override {
        if (sh.probe >= 0) return;
        sh.trace.push_back(entryOf(sys, 'S', k, s));
        const size_t a = sc.wits.size() + k;
        if (!sh.acted[a]) { sh.acted[a] = 1; applyAct2(sys, sc, sc.sched[k].action, s); }
    }
    const odesys::OdeSystem& sys; Shared2& sh; const Scn& sc; int k;
};
class PerHandler2 : public PeriodicEventHandler {
public:
    PerHandler2(const odesys::OdeSystem& sys, Shared2& sh, const Scn& sc, int k) : PeriodicEventHandler(sc.sched[k].when), sys(sys), sh(sh), sc(sc), k(k) {}
    void handleEvent(State& s, Real, bool&) const override {
        if (sh.probe >= 0) return;
        sh.trace.push_back(entryOf(sys, 'S', k, s));
        const size_t a = sc.wits.size() + k;
        if (!sh.acted[a]) { sh.acted[a] = 1; applyAct2(sys, sc, sc.sched[k].action, s); }
    }
    const odesys::OdeSystem& sys; Shared2& sh; const Scn& sc; int k;
};
class OnceReporter2 : public ScheduledEventReporter {
public:
    OnceReporter2(const odesys::OdeSystem& sys, Shared2& sh, const Scn& sc, int k) : sys(sys), sh(sh), sc(sc), k(k) {}
    Real getNextEventTime(const State& s, bool includeCurrent) const override {
        const double when = sc.sched[k].when;
        return (s.getTime() < when || (includeCurrent && s.getTime() == when)) ? when : (Real)Infinity;
    }
    void handleEvent(const State& s) const override { sh.trace.push_back(entryOf(sys, 'R', k, s)); }
    const odesys::OdeSystem& sys; Shared2& sh; const Scn& sc; int k;
};
class PerReporter2 : public PeriodicEventReporter {
public:
    PerReporter2(const odesys::OdeSystem& sys, Shared2& sh, const Scn& sc, int k) : PeriodicEventReporter(sc.sched[k].when), sys(sys), sh(sh), k(k) {}
    void handleEvent(const State& s) const override { sh.trace.push_back(entryOf(sys, 'R', k, s)); }
    const odesys::OdeSystem& sys; Shared2& sh; int k;
};
// driver 2: the report times as one scheduled reporter (index -1 in the trace: judged like a returned point)
class ListReporter2 : public ScheduledEventReporter {
public:
    ListReporter2(const odesys::OdeSystem& sys, Shared2& sh, const std::vector<double>& times) : sys(sys), sh(sh), times(times) {}
    Real getNextEventTime(const State& s, bool includeCurrent) const override {
        for (double r : times) if (s.getTime() < r || (includeCurrent && s.getTime() == r)) return r;
        return Infinity;
    }
    void handleEvent(const State& s) const override { sh.trace.push_back(entryOf(sys, 'P', -1, s, (int)Integrator::ReachedReportTime)); }
    const odesys::OdeSystem& sys; Shared2& sh; std::vector<double> times;
};

struct Fixture2 {
    Shared2 sh; std::unique_ptr<odesys::OdeSystem> sys; State init; const Scn& sc;
    Fixture2(const Scn& sc) : sc(sc) {
        sys.reset(new odesys::OdeSystem(1, 1, [](Real, const Vector&, const Vector&, const Vector&, const Vector& d, Vector& udot, Vector& zdot) { udot[0] = 0; zdot[0] = d[0] + d[1]; }, 2));
        sys->setDiscreteVariableStage(1, Stage::Acceleration);
        for (int k = 0; k < (int)sc.sched.size(); ++k) {
            const SchedItem& it = sc.sched[k];
            if (it.kind == 'S') { if (it.periodic) sys->addEventHandler(new PerHandler2(*sys, sh, sc, k)); else sys->addEventHandler(new OnceHandler2(*sys, sh, sc, k)); }
            else { if (it.periodic) sys->addEventReporter(new PerReporter2(*sys, sh, sc, k)); else sys->addEventReporter(new OnceReporter2(*sys, sh, sc, k)); }
        }
        if (sc.driver == 2) sys->addEventReporter(new ListReporter2(*sys, sh, sc.reports));
        for (int i = 0; i < (int)sc.wits.size(); ++i) sys->addEventHandler(new TrigHandler2(*sys, sh, sc, i));
        init = sys->makeState(sc.t0, Vector(1, Real(sc.q0)), Vector(1, Real(sc.u0)), Vector(1, Real(sc.z0)));
        sh.reset(sc.wits.size() + sc.sched.size());
    }
    Integrator* makeIntegrator() const {
        Integrator* I = makeIntegratorOf(sc.integ, sc.fixedStep != 0, sc.hfix, *sys);
        I->setAccuracy(ACCURACY);
        if (sc.tFinal < Infinity) I->setFinalTime(sc.tFinal);
        return I;
    }
};

// ---------------------------------------------------------------- the tracking reference
static const double TOLX_ABSTRACT = 1e-10;      // state vs analytic segment (linear trajectory: roundoff only), see notes for the measured worst
static const double TOLX_CPODES = 1e-9;
struct Seg { double t0, q0, u, z0, zd; };
static double segQ(const Seg& s, double t) { return s.q0 + s.u * (t - s.t0); }
static double segZ(const Seg& s, double t) { return s.z0 + s.zd * (t - s.t0); }
struct Tracker {
    const Scn& sc; Judge& J; double tEnd;
    Seg seg, before; bool haveBefore = false; int lastAct = A2None; double d0 = 0, d1 = 0;
    std::vector<double> tc; std::vector<char> handled, actedW, actedS;
    std::vector<std::vector<double>> expect; std::vector<size_t> nextE;
    double tMax = -Infinity; char tMaxKind = 0;
    std::vector<double> allReports, listExpect; size_t nextL = 0;      // every report time the integrator is ever given; driver 2: the list reporter's times
    double lastW0 = NaN, lastW1 = NaN, lastKnownR = NaN;               // window of the last handled triggered event and the report time known when it was localised
    const std::vector<Entry>* all = nullptr; size_t pos = 0;          // the whole trace and the position of the entry being fed
    // handler i is invoked later in the trace at the very same instant (several handlers run in one handleEvents call)
    bool invokedLaterAtSameTime(int i, double t) const {
        if (!all) return false;
        for (size_t k = pos + 1; k < all->size() && (*all)[k].t == t; ++k) if ((*all)[k].kind == 'T' && (*all)[k].idx == i) return true;
        return false;
    }
    const double tolx; const char* oracleName;
    Tracker(const Scn& sc, Judge& J, double tEnd) : sc(sc), J(J), tEnd(tEnd), tolx(sc.integ >= 8 ? TOLX_CPODES : TOLX_ABSTRACT), oracleName(sc.integ >= 8 ? "track-state-cpodes" : "track-state-abstract") {
        seg = {sc.t0, sc.q0, sc.u0, sc.z0, 0}; before = seg;
        const int nW = (int)sc.wits.size();
        tc.assign(nW, Infinity); handled.assign(nW, 0); actedW.assign(nW, 0); actedS.assign(sc.sched.size(), 0);
        for (int i = 0; i < nW; ++i) if (sc.wits[i].root > sc.q0) tc[i] = sc.t0 + (sc.wits[i].root - sc.q0) / sc.u0;
        expect.resize(sc.sched.size()); nextE.assign(sc.sched.size(), 0);
        for (size_t k = 0; k < sc.sched.size(); ++k) {
            const SchedItem& it = sc.sched[k];
            if (!it.periodic) { if (it.when >= sc.t0 && it.when <= tEnd + EPS_T) expect[k].push_back(it.when); continue; }
            long long count = (long long)std::floor(sc.t0 / it.when);         // the arithmetic PeriodicEventHandler documents: multiples of the interval
            while (count * it.when < sc.t0) count++;
            for (; count * it.when <= tEnd + EPS_T; ++count) expect[k].push_back(count * it.when);
        }
        allReports = sc.reports; allReports.push_back(tEnd);
        for (size_t k = 0; k < sc.sched.size(); ++k) if (sc.sched[k].kind == 'R') allReports.insert(allReports.end(), expect[k].begin(), expect[k].end());
        std::sort(allReports.begin(), allReports.end());
        if (sc.driver == 2) listExpect = sc.reports;
    }
    // Integrator.h promises that no report time lies strictly inside an event window.  The integrator can honour that only for
    // the report time it was given in the stepTo call that took the step (the earliest report time after the start of that
    // step); a report time it is told about later, after the window exists, may lie inside it.  What happens to such a report
    // (returned after the event was handled, or skipped when the handler changed the state) is not documented: counted, not judged.
    bool excused(double r) const { return lastW0 < r && r < lastW1 && r != lastKnownR; }
    std::vector<double> excusedTimes;      // scheduled report times passed over as excused: a late delivery of one of them is accepted
    bool wasExcused(double t) const { return std::find(excusedTimes.begin(), excusedTimes.end(), t) != excusedTimes.end(); }
    void noteExcused() { Judge::okCount()["(unspecified) a report time first requested after the event window was localised lies strictly inside it: order / delivery not judged"]++; }
    bool monitored(int i) const { return (sc.wits[i].mask & (sc.wits[i].orient > 0 ? 1 : 2)) != 0; }
    void missesBefore(double t, char kind, int idx) {
        for (int i = 0; i < (int)tc.size(); ++i) {
            if (handled[i] || !monitored(i) || (kind == 'T' && idx == i) || invokedLaterAtSameTime(i, t)) continue;
            if (tc[i] + sc.tolOf(i) * (1 + 1e-9) + EPS_T < t) {
                handled[i] = 2;
                J.check(false, "crossing-not-handled", [&] { return "witness " + std::to_string(i) + " crossed at " + verif::fmtd(tc[i]) + " (own window " + verif::fmtd(sc.tolOf(i)) + ") but its handler had not been invoked when the trace reached t=" + verif::fmtd(t); });
            }
        }
        for (size_t k = 0; k < expect.size(); ++k) {
            // an item due within roundoff of the end of the run is optional (the run may end before or after handling it)
            while (nextE[k] < expect[k].size() && expect[k][nextE[k]] < t && expect[k][nextE[k]] < tEnd - EPS_T) {
                const double s = expect[k][nextE[k]++];
                if (sc.sched[k].kind == 'R' && excused(s)) { noteExcused(); excusedTimes.push_back(s); continue; }
                const bool atStart = s == sc.t0;
                J.check(false, sc.sched[k].kind == 'S' ? (atStart ? "scheduled-handler-due-at-initial-time-not-invoked" : "scheduled-handler-not-invoked") : (atStart ? "scheduled-report-due-at-initial-time-not-made" : "scheduled-report-not-made"),
                        [&] { return "scheduled item " + std::to_string(k) + " due at " + verif::fmtd(s) + " had not run when the trace reached t=" + verif::fmtd(t); });
            }
        }
    }
    void listMissesBefore(double t) {
        while (nextL < listExpect.size() && listExpect[nextL] < t && listExpect[nextL] < tEnd - EPS_T) {
            const double s = listExpect[nextL++];
            if (excused(s)) { noteExcused(); excusedTimes.push_back(s); continue; }
            J.check(false, "scheduled-report-not-made", [&] { return "the report scheduled at " + verif::fmtd(s) + " had not been made when the trace reached t=" + verif::fmtd(t); });
        }
    }
    void stateOnSegment(const Entry& e, bool isReturnedPoint) {
        const double err = std::max(std::abs(e.q - segQ(seg, e.t)), std::max(std::abs(e.u - seg.u), std::abs(e.z - segZ(seg, e.t))));
        if (!isReturnedPoint) {
            J.residualKeyed(false, oracleName, err, tolx, "handler-saw-wrong-state", [&] { return std::string(1, e.kind) + std::to_string(e.idx) + " at t=" + verif::fmtd(e.t) + " saw q=" + verif::fmtd(e.q) + " u=" + verif::fmtd(e.u) + " z=" + verif::fmtd(e.z) +
                                                                                                 ", the trajectory has q=" + verif::fmtd(segQ(seg, e.t)) + " u=" + verif::fmtd(seg.u) + " z=" + verif::fmtd(segZ(seg, e.t)); });
            return;
        }
        // group B: "later integration starts from the state the handlers produced"
        const char* clause = "returned-state-off-trajectory";
        if (!(err <= tolx) && haveBefore) {
            const double errOld = std::max(std::abs(e.q - segQ(before, e.t)), std::max(std::abs(e.u - before.u), std::abs(e.z - segZ(before, e.t))));
            clause = Judge::intern(std::string(errOld <= 1e3 * tolx ? "handler-change-lost/" : "trajectory-after-handler-wrong/") + ACT2_NAMES[lastAct]);
        }
        J.residualKeyed(true, oracleName, err, tolx, clause, [&] { return "returned state at t=" + verif::fmtd(e.t) + " is q=" + verif::fmtd(e.q) + " u=" + verif::fmtd(e.u) + " z=" + verif::fmtd(e.z) + ", the trajectory continued from the handlers' state has q=" +
                                                                          verif::fmtd(segQ(seg, e.t)) + " u=" + verif::fmtd(seg.u) + " z=" + verif::fmtd(segZ(seg, e.t)) + " (last action: " + ACT2_NAMES[lastAct] + " at t=" + verif::fmtd(seg.t0) + ")"; });
    }
    void act(int action, double t) {
        if (action == A2None) return;
        before = seg; haveBefore = true; lastAct = action;
        Seg n = {t, segQ(seg, t), seg.u, segZ(seg, t), seg.zd};
        if (action == A2SetU) n.u = sc.uNew;
        if (action == A2SetZ) n.z0 += Z_JUMP;
        if (action == A2SetD) d0 = 1;
        if (action == A2SetDAcc) d1 = 1;
        n.zd = d0 + d1;
        seg = n;
        for (int i = 0; i < (int)tc.size(); ++i) if (!handled[i] && tc[i] > t && sc.wits[i].root > n.q0) tc[i] = t + (sc.wits[i].root - n.q0) / n.u;
    }
    void feed(const Entry& e) {
        // time order of everything the caller sees
        if (e.kind == 'T') {      // the window this event was localised in (before anything is judged against it)
            lastW0 = e.wLow; lastW1 = e.wHigh; lastKnownR = NaN;
            for (double r : allReports) if (r > e.tPrev) { lastKnownR = r; break; }
        }
        if (e.t < tMax && tMaxKind == 'T' && (e.kind == 'P' || e.kind == 'R') && excused(e.t)) noteExcused();
        else if (e.t < tMax) {
            const char* clause = e.kind == 'P' ? (tMaxKind == 'P' ? "returned-time-decreased" : "report-returned-after-later-event-was-handled")
                                               : (e.kind == 'R' ? "scheduled-report-made-after-later-event-was-handled" : "handlers-invoked-out-of-time-order");
            J.check(false, clause, [&] { return std::string(1, e.kind) + " entry at t=" + verif::fmtd(e.t) + " follows a '" + std::string(1, tMaxKind) + "' entry at the later time " + verif::fmtd(tMax); });
        } else J.check(true, "trace-in-time-order", [] { return std::string(); });
        if (e.t >= tMax) { tMax = e.t; tMaxKind = e.kind; }
        missesBefore(e.t, e.kind, e.idx);
        const bool stale = e.t < seg.t0;          // out of time order (reported above): no segment to compare with
        if (e.kind == 'P' && e.idx == -1) {       // driver 2: the list reporter
            if (nextL < listExpect.size() && listExpect[nextL] < e.t) listMissesBefore(e.t);
            if (nextL < listExpect.size() && listExpect[nextL] == e.t) { nextL++; J.check(true, "scheduled-item-at-its-time", [] { return std::string(); }); }
            else if (!wasExcused(e.t)) J.check(false, "scheduled-report-not-at-its-time", [&] { return "the list reporter ran at " + verif::fmtd(e.t); });
        } else listMissesBefore(e.t);
        if (e.kind == 'P') { if (!stale) stateOnSegment(e, true); return; }
        if (e.kind == 'T') {
            const int i = e.idx;
            if (handled[i] == 1) {
                J.check(false, "crossing-handled-twice", [&] { return "handler " + std::to_string(i) + " invoked again at " + verif::fmtd(e.t); });
            } else if (!monitored(i) || !(tc[i] < Infinity)) {
                J.check(false, "unexpected-triggered-handler-invocation", [&] { return "handler " + std::to_string(i) + " invoked at " + verif::fmtd(e.t) + " without a crossing in a monitored direction"; });
            } else {
                const double dt = e.t - tc[i], tol = sc.tolOf(i);
                J.check(dt >= -EPS_T, "triggered-handler-before-crossing", [&] { return "handler " + std::to_string(i) + " invoked at " + verif::fmtd(e.t) + ", its witness crosses at " + verif::fmtd(tc[i]); });
                J.residualKeyed(false, "handler-delay-over-own-window", dt / tol, 1 + 1e-9 + EPS_T / tol, "triggered-handler-later-than-its-own-window",
                                [&] { return "handler " + std::to_string(i) + " invoked at " + verif::fmtd(e.t) + ", " + verif::fmtd(dt) + " after its crossing at " + verif::fmtd(tc[i]) + "; its required localisation window is " + verif::fmtd(tol); });
                handled[i] = 1;
            }
            if (!stale) stateOnSegment(e, false);
            if (!actedW[i]) { actedW[i] = 1; act(sc.wits[i].action, e.t); }
            return;
        }
        // scheduled handler / reporter
        const size_t k = (size_t)e.idx;
        if (nextE[k] < expect[k].size() && expect[k][nextE[k]] == e.t) { nextE[k]++; J.check(true, "scheduled-item-at-its-time", [] { return std::string(); }); }
        else if (e.kind == 'R' && wasExcused(e.t)) { /* late delivery of an excused report */ }
        else J.check(false, e.kind == 'S' ? "scheduled-handler-not-at-its-time" : "scheduled-report-not-at-its-time",
                     [&] { return "scheduled item " + std::to_string(k) + " ran at " + verif::fmtd(e.t) + "; next due time is " + (nextE[k] < expect[k].size() ? verif::fmtd(expect[k][nextE[k]]) : std::string("none")); });
        if (!stale) stateOnSegment(e, false);
        if (e.kind == 'S' && !actedS[k]) { actedS[k] = 1; act(sc.sched[k].action, e.t); }
    }
    void finish() { missesBefore(tEnd, 0, -1); listMissesBefore(tEnd); }
};

// ---------------------------------------------------------------- one simulation of a second-generation scenario
static void judgeTrace(const Scn& sc, Judge& J, const std::vector<Entry>& trace, double tEnd, uint64_t& outcome) {
    J.note("  trace: %s\n", traceStr(trace).c_str());
    Tracker T(sc, J, tEnd); T.all = &trace;
    for (auto& e : trace) { T.pos = &e - &trace[0]; T.feed(e); outcome = verif::hashPod(e.idx, verif::hashPod(e.kind, outcome)); }
    T.finish();
}
static void driveTimeStepper(const Scn& sc, Fixture2& fx, TimeStepper& ts, Integrator& integ, Judge& J, uint64_t& outcome) {
    odesys::OdeSystem& sys = *fx.sys;
    std::vector<double> targets = sc.driver == 1 ? sc.reports : std::vector<double>();
    if (sc.tFinal < Infinity) targets.push_back(sc.tFinal);
    double tPrevReturn = -Infinity;
    auto one = [&](double r) {
        Status st = ts.stepTo(r);
        J.note("  TimeStepper::stepTo(%.12g) -> %s at t=%.12g\n", r, Integrator::getSuccessfulStepStatusString(st).c_str(), ts.getTime());
        outcome = verif::hashPod((int)st, outcome);
        J.check(ts.getTime() >= tPrevReturn, "returned-time-decreased", [&] { return "stepTo(" + verif::fmtd(r) + ") returned at t=" + verif::fmtd(ts.getTime()) + " after a return at " + verif::fmtd(tPrevReturn); });
        tPrevReturn = ts.getTime();
        if (st == Integrator::ReachedReportTime) {
            J.check(ts.getTime() == r, "timestepper-report-not-at-requested-time", [&] { return "stepTo(" + verif::fmtd(r) + ") returned ReachedReportTime at " + verif::fmtd(ts.getTime()); });
            fx.sh.trace.push_back(entryOf(sys, 'P', 0, ts.getState(), (int)st));
        } else if (st != Integrator::EndOfSimulation)
            J.check(false, "timestepper-unexpected-status", [&] { return std::string("TimeStepper::stepTo returned ") + Integrator::getSuccessfulStepStatusString(st).c_str(); });
    };
    for (double r : targets) { if (integ.isSimulationOver()) break; one(r); }
    if (sc.tFinal < Infinity && !integ.isSimulationOver()) one(Infinity);
}
static void simulate2(verif::Run& run, const Scn& sc, Judge& J, uint64_t& outcome) {
    Fixture2 fx(sc);
    std::unique_ptr<Integrator> integ(fx.makeIntegrator());
    odesys::OdeSystem& sys = *fx.sys;
    const int nW = (int)sc.wits.size();

    std::map<int, int> idToWit;
    {
        State scratch = fx.init; sys.realize(scratch, Stage::Acceleration);
        for (int id = 0; id < nW + (int)sc.sched.size() + 3; ++id) {
            fx.sh.probe = id; fx.sh.probed.clear();
            Array_<EventId> ids; ids.push_back(EventId(id));
            HandleEventsOptions opts; HandleEventsResults res;
            sys.handleEvents(scratch, Event::Cause::Triggered, ids, opts, res);
            if (fx.sh.probed.size() == 1) idToWit[id] = fx.sh.probed[0];
        }
        fx.sh.probe = -1;
    }
    J.check((int)idToWit.size() == nW, "event-id-dispatch", [&] { return std::string("System::handleEvents did not dispatch each triggered event id to exactly one handler"); });

    fx.sh.integ = integ.get(); fx.sh.integIsCPodes = sc.integ >= 8;
    if (sc.driver >= 1) {
        TimeStepper ts(sys, *integ);
        ts.initialize(fx.init);
        driveTimeStepper(sc, fx, ts, *integ, J, outcome);
    } else {
        std::vector<double> grid = sc.reports; grid.push_back(sc.tFinal);
        integ->initialize(fx.init);
        HandleEventsOptions hopts(integ->getConstraintToleranceInUse());
        double lastEventTime = -Infinity, lastHigh = -Infinity, tPrevReturn = -Infinity; size_t gi = 0; int guard = 0;
        double lastW0 = NaN, lastW1 = NaN, lastKnownR = NaN;
        while (!integ->isSimulationOver() && guard++ < 2000) {
            Real tSched = Infinity; Array_<EventId> schedIds;
            sys.realize(integ->getState(), Stage::Time);
            sys.calcTimeOfNextScheduledEvent(integ->getState(), tSched, schedIds, lastEventTime != integ->getTime());
            // the protocol's precondition (stepTo: reportTime >= current time) can only be broken by the integrator itself:
            // it handed out an event whose window reaches beyond a report time it knew about.  (A report time it did not know
            // when it localised the window may lie inside it -- see Tracker::excused -- and is then skipped, as TimeStepper's
            // scheduled reports are.)
            while (gi < grid.size() && grid[gi] < integ->getTime()) {
                const double r = grid[gi++];
                if (lastW0 < r && r < lastW1 && r != lastKnownR) { Judge::okCount()["(unspecified) a report time first requested after the event window was localised is overtaken by the handled event: skipped"]++; continue; }
                J.check(false, "pending-report-overtaken-by-handled-event", [&] { return "the report due at " + verif::fmtd(r) + " was never returned but the integrator is already at t=" + verif::fmtd(integ->getTime()); });
            }
            const double r = gi < grid.size() ? grid[gi] : (double)Infinity;
            const double taBefore = integ->getAdvancedTime();
            Status st = integ->stepTo(r, tSched);
            const double t = integ->getTime(), ta = integ->getAdvancedTime();
            outcome = verif::hashPod((int)st, outcome);
            J.note("  stepTo(%.12g, %.12g) -> %s t=%.15g tAdv=%.15g\n", r, (double)tSched, Integrator::getSuccessfulStepStatusString(st).c_str(), t, ta);
            J.check(t >= tPrevReturn, "returned-time-decreased", [&] { return "stepTo returned at t=" + verif::fmtd(t) + " after a return at " + verif::fmtd(tPrevReturn); });
            tPrevReturn = t;
            Stage lowest = Stage::Report; bool term = false;
            switch (st) {
                case Integrator::ReachedReportTime:
                    if (t >= r) { fx.sh.trace.push_back(entryOf(sys, 'P', 0, integ->getState(), (int)st)); gi++; }
                    continue;
                case Integrator::StartOfContinuousInterval:
                    fx.sh.trace.push_back(entryOf(sys, 'P', 0, integ->getState(), (int)st));
                    continue;
                case Integrator::ReachedStepLimit: case Integrator::TimeHasAdvanced:
                    continue;
                case Integrator::ReachedScheduledEvent: {
                    HandleEventsResults res;
                    sys.handleEvents(integ->updAdvancedState(), Event::Cause::Scheduled, schedIds, hopts, res);
                    lowest = res.getLowestModifiedStage(); term = res.getExitStatus() == HandleEventsResults::ShouldTerminate;
                    lastEventTime = integ->getTime();
                    break;
                }
                case Integrator::ReachedEventTrigger: {
                    const Vec2 w = integ->getEventWindow();
                    const Array_<EventId> ids = integ->getTriggeredEvents();
                    const Array_<Event::Trigger> trans = integ->getEventTransitionsSeen();
                    const Array_<Real> est = integ->getEstimatedEventTimes();
                    J.note("      window (%.15g, %.15g] width %.3g, %d event(s)\n", w[0], w[1], w[1] - w[0], (int)ids.size());
                    J.check(w[0] < w[1], "event-window-empty", [&] { return std::string("tLow >= tHigh"); });
                    J.check(t == w[0] && ta == w[1], "event-return-not-at-window", [&] { return "state time " + verif::fmtd(t) + " / advanced " + verif::fmtd(ta) + " are not the window ends"; });
                    J.check(w[0] >= lastHigh, "events-out-of-time-order", [&] { return "window starts at " + verif::fmtd(w[0]) + " before the previous window's end " + verif::fmtd(lastHigh); });
                    lastHigh = w[1]; lastW0 = w[0]; lastW1 = w[1]; lastKnownR = ta != taBefore ? r : (double)NaN;
                    // Integrator.h: "no report time, scheduled time, or final time t can occur *within* an event window".  Demanded of
                    // the times the integrator was given in the call that localised the window (C19 does the same); a report time
                    // first requested after the window was localised is counted as unspecified.
                    if (ta != taBefore) {
                        J.check(!(w[0] < r && r < w[1]), "report-time-inside-event-window", [&] { return "the pending report time " + verif::fmtd(r) + " lies strictly inside the event window (" + verif::fmtd(w[0]) + ", " + verif::fmtd(w[1]) + "]"; });
                        J.check(!(w[0] < tSched && tSched < w[1]), "scheduled-time-inside-event-window", [&] { return "the pending scheduled time " + verif::fmtd(tSched) + " lies strictly inside the event window"; });
                        J.check(!(w[0] < sc.tFinal && sc.tFinal < w[1]), "final-time-inside-event-window", [&] { return std::string("the final time lies strictly inside the event window"); });
                    } else if (w[0] < r && r < w[1]) Judge::okCount()["(unspecified) a later request's report time lies strictly inside an already localised event window"]++;
                    J.check(ids.size() == trans.size() && ids.size() == est.size() && ids.size() >= 1, "event-arrays-inconsistent", [&] { return std::string("triggered ids / transitions / estimated times differ in length or are empty"); });
                    if (!J.tracing) {      // vacuity guards
                        if (r == w[0] || r == w[1]) Judge::okCount()["(branch) a pending report time is an end of the event window"]++;
                        if (tSched == w[1]) Judge::okCount()["(branch) a pending scheduled time is the upper end of the event window"]++;
                        double wmin = Infinity, wmax = 0;
                        for (int k = 0; k < (int)ids.size(); ++k) { auto it = idToWit.find((int)ids[k]); if (it != idToWit.end()) { wmin = std::min(wmin, sc.wits[it->second].win); wmax = std::max(wmax, sc.wits[it->second].win); } }
                        if (ids.size() > 1) Judge::okCount()[wmin != wmax ? "(branch) one event window lists events with different required windows" : "(branch) one event window lists several events with equal required windows"]++;
                    }
                    // the before-state belongs to the trajectory
                    fx.sh.trace.push_back(entryOf(sys, 'P', 0, integ->getState(), (int)st));
                    const double qLow = sys.q(integ->getState(), 0), qHigh = sys.q(integ->getAdvancedState(), 0);
                    for (int k = 0; k < (int)ids.size() && k < (int)trans.size(); ++k) {
                        auto it = idToWit.find((int)ids[k]);
                        if (it == idToWit.end()) { J.check(false, "unknown-event-id-listed", [&] { return "event id " + std::to_string((int)ids[k]) + " does not belong to a triggered handler"; }); continue; }
                        const Wit2& wt = sc.wits[it->second];
                        const double eLow = wit2Value(wt, qLow), eHigh = wit2Value(wt, qHigh);
                        const double EE = 1e-12;
                        const bool rising = eLow <= EE && eHigh >= -EE && eHigh > eLow, falling = eLow >= -EE && eHigh <= EE && eHigh < eLow;
                        J.note("      listed: handler %d (own window %.3g) transition %s  e(tLow)=%.3g e(tHigh)=%.3g est=%.15g\n", it->second, sc.tolOf(it->second), Event::eventTriggerString(trans[k]).c_str(), eLow, eHigh, (double)est[k]);
                        // every listed event must be localised within ITS OWN required window: accuracy * timescale * window
                        J.residualKeyed(false, "event-window-width-over-listed-event-requirement", (w[1] - w[0]) / sc.tolOf(it->second), 1 + 1e-9, "event-window-wider-than-listed-event-allows",
                                        [&] { return "handler " + std::to_string(it->second) + " requires localisation within " + verif::fmtd(sc.tolOf(it->second)) + " but is listed in the window (" + verif::fmtd(w[0]) + ", " + verif::fmtd(w[1]) + "] of width " + verif::fmtd(w[1] - w[0]); });
                        J.check(rising || falling, "listed-event-did-not-cross", [&] { return "handler " + std::to_string(it->second) + " is listed but its witness goes " + verif::fmtd(eLow) + " -> " + verif::fmtd(eHigh) + " across the window: no sign change"; });
                        J.check(!(rising || falling) || (rising && (wt.mask & 1)) || (falling && (wt.mask & 2)), "listed-event-in-unmonitored-direction", [&] { return "handler " + std::to_string(it->second) + " is listed for a transition in a direction it does not monitor"; });
                        J.check((rising && trans[k] == Event::Rising) || (falling && trans[k] == Event::Falling) || (!rising && !falling), "transition-direction-wrong", [&] { return "handler " + std::to_string(it->second) + " transition reported as " + Event::eventTriggerString(trans[k]); });
                        if (k < (int)est.size()) J.check(w[0] <= est[k] && est[k] <= w[1], "estimated-event-time-outside-window", [&] { return "estimated time " + verif::fmtd(est[k]) + " outside the window"; });
                    }
                    HandleEventsResults res;
                    sys.handleEvents(integ->updAdvancedState(), Event::Cause::Triggered, ids, hopts, res);
                    lowest = res.getLowestModifiedStage(); term = res.getExitStatus() == HandleEventsResults::ShouldTerminate;
                    break;
                }
                case Integrator::EndOfSimulation: {
                    HandleEventsResults res;
                    sys.handleEvents(integ->updAdvancedState(), Event::Cause::Termination, Array_<EventId>(), hopts, res);
                    lowest = res.getLowestModifiedStage(); term = res.getExitStatus() == HandleEventsResults::ShouldTerminate;
                    break;
                }
                default:
                    J.check(false, "invalid-status", [&] { return std::string("stepTo returned an invalid status"); });
                    guard = 1 << 30;
            }
            if (!J.tracing && (st == Integrator::ReachedScheduledEvent || st == Integrator::ReachedEventTrigger))
                Judge::okCount()[lowest == Stage::Dynamics ? "(branch) handlers' lowest modified stage: Dynamics" : lowest == Stage::Acceleration ? "(branch) handlers' lowest modified stage: Acceleration"
                                 : lowest == Stage::Velocity ? "(branch) handlers' lowest modified stage: Velocity" : lowest >= Stage::Report ? "(branch) handlers modified nothing" : "(branch) handlers' lowest modified stage: other"]++;
            integ->reinitialize(lowest, term);
        }
        J.check(integ->isSimulationOver(), "simulation-did-not-end", [&] { return std::string("the raw loop did not reach the end of the simulation within 2000 returns"); });
    }
    judgeTrace(sc, J, fx.sh.trace, sc.tFinal, outcome);
    if (integ->isSimulationOver()) {
        J.check(integ->getTerminationReason() == Integrator::ReachedFinalTime, "termination-reason-wrong", [&] { return std::string("termination reason is ") + Integrator::getTerminationReasonString(integ->getTerminationReason()).c_str(); });
        J.check(integ->getAdvancedTime() == sc.tFinal, "simulation-ended-at-wrong-time", [&] { return "simulation ended at " + verif::fmtd(integ->getAdvancedTime()); });
    }
}

// ---------------------------------------------------------------- section reuse: a second run on used objects vs fresh objects
struct ReuseCfg { int variant, t1, t2, mode, final2; };
static const char* REUSE_VARIANTS[] = {"run 1 = one stepTo(T1)", "run 1 ends by final time T1", "run 1 terminated by the triggered handler", "run 1 = stepTo(T1/2), stepTo(T1)"};
static const char* REUSE_T2[] = {"0", "time of run 1's last scheduled event", "time of run 1's last scheduled report", "run 1's end time", "the periodic handler's next due time after run 1's last one", "run 1's last scheduled event time + 0.07", "3 periods"};
static const char* REUSE_MODES[] = {"same TimeStepper and Integrator", "new TimeStepper on the used Integrator", "used TimeStepper with a new Integrator (setIntegrator)"};
static const double RUN2_LEN = 0.55;
static bool sameEntry(const Entry& a, const Entry& b) { return a.kind == b.kind && a.idx == b.idx && a.status == b.status && memcmp(&a.t, &b.t, 4 * sizeof(double)) == 0; }
static void simulateReuse(verif::Run& run, const Scn& sc1, const ReuseCfg& rc, Judge& J, uint64_t& outcome) {
    // ---- run 1 on the objects that will be used again
    Fixture2 fx(sc1);
    std::unique_ptr<Integrator> integ(makeIntegratorOf(sc1.integ, sc1.fixedStep != 0, sc1.hfix, *fx.sys)), integ2;
    odesys::OdeSystem& sys = *fx.sys;
    integ->setAccuracy(ACCURACY);
    const double T1 = sc1.tFinal;
    std::unique_ptr<TimeStepper> ts(new TimeStepper(sys, *integ)), tsNew;
    if (rc.variant == 1) integ->setFinalTime(T1);
    fx.sh.terminateOnTrigger = rc.variant == 2;
    ts->initialize(fx.init);
    if (rc.variant == 3) ts->stepTo(T1 / 2);
    Status st1 = ts->stepTo(T1);
    if (rc.variant == 1 && !integ->isSimulationOver()) st1 = ts->stepTo(Infinity);
    const bool over1 = integ->isSimulationOver();
    double lastE = 0, lastR = 0;
    for (auto& e : fx.sh.trace) { if (e.kind == 'S') lastE = e.t; if (e.kind == 'R') lastR = e.t; }
    const double tEnd1 = ts->getTime(), period = sc1.sched[0].when;
    J.note("  run 1 (%s): last status %s, ended at t=%.12g, trace %s\n", REUSE_VARIANTS[rc.variant], Integrator::getSuccessfulStepStatusString(st1).c_str(), tEnd1, traceStr(fx.sh.trace).c_str());
    double t2 = 0;
    switch (rc.t2) {
        case 0: t2 = 0; break;
        case 1: t2 = lastE; break;
        case 2: t2 = lastR; break;
        case 3: t2 = tEnd1; break;
        case 4: t2 = (std::floor(lastE / period + 0.5) + 1) * period; break;
        case 5: t2 = lastE + 0.07; break;
        default: t2 = 3 * period; break;
    }
    // ---- run 2
    Scn sc2 = sc1;
    sc2.t0 = t2; sc2.q0 = 0.05; sc2.z0 = 0.3; sc2.driver = 1;
    sc2.tFinal = rc.final2 ? t2 + RUN2_LEN : (double)Infinity;
    sc2.reports = {t2 + 0.11, t2 + 0.31, t2 + 0.5};
    const double tEnd2 = rc.final2 ? sc2.tFinal : sc2.reports.back();
    auto run2 = [&](Fixture2& f, TimeStepper& stepper, Integrator& I, const Scn& scn, std::vector<Entry>& out) {
        f.sh.reset(scn.wits.size() + scn.sched.size()); f.sh.terminateOnTrigger = false;
        f.sh.integ = &I; f.sh.integIsCPodes = scn.integ >= 8;
        I.setFinalTime(rc.final2 ? scn.tFinal : -1.0);
        State s2 = f.sys->makeState(scn.t0, Vector(1, Real(scn.q0)), Vector(1, Real(scn.u0)), Vector(1, Real(scn.z0)));
        stepper.initialize(s2);
        driveTimeStepper(scn, f, stepper, I, J, outcome);
        out = f.sh.trace;
    };
    std::vector<Entry> used, fresh;
    J.note("  run 2 starts at t=%.17g (%s), %s, %s\n  -- on the used objects:\n", t2, REUSE_T2[rc.t2], REUSE_MODES[rc.mode], rc.final2 ? "final time set" : "no final time");
    // the used system keeps its handlers (they read the scenario parameters of sc1, which run 2 shares: same root in q, same intervals and actions)
    if (rc.mode == 1) { tsNew.reset(new TimeStepper(sys, *integ)); run2(fx, *tsNew, *integ, sc2, used); }
    else if (rc.mode == 2) {
        integ2.reset(makeIntegratorOf(sc1.integ, sc1.fixedStep != 0, sc1.hfix, sys)); integ2->setAccuracy(ACCURACY);
        ts->setIntegrator(*integ2); run2(fx, *ts, *integ2, sc2, used);
    } else run2(fx, *ts, *integ, sc2, used);
    J.note("  -- on freshly constructed System, Integrator and TimeStepper:\n");
    {
        Fixture2 fy(sc2);
        std::unique_ptr<Integrator> I(makeIntegratorOf(sc2.integ, sc2.fixedStep != 0, sc2.hfix, *fy.sys)); I->setAccuracy(ACCURACY);
        TimeStepper stepper(*fy.sys, *I);
        run2(fy, stepper, *I, sc2, fresh);
    }
    J.note("  used objects trace:  %s\n  fresh objects trace: %s\n", traceStr(used).c_str(), traceStr(fresh).c_str());
    if (!J.tracing) {      // vacuity guards
        if (t2 == lastE) Judge::okCount()["(branch) run 2 starts at the time of run 1's last scheduled event"]++;
        if (t2 == lastR) Judge::okCount()["(branch) run 2 starts at the time of run 1's last scheduled report"]++;
        bool sAt = false, rAt = false;
        for (auto& e : fresh) { if (e.kind == 'S' && e.t == t2) sAt = true; if (e.kind == 'R' && e.t == t2) rAt = true; }
        if (sAt && t2 == lastE) Judge::okCount()["(branch) a scheduled handler is due exactly at run 2's initial time = run 1's last scheduled event time"]++;
        if (rAt && t2 == lastR) Judge::okCount()["(branch) a scheduled report is due exactly at run 2's initial time = run 1's last scheduled report time"]++;
        if (over1) Judge::okCount()["(branch) run 1 ended the simulation (final time or termination) before the objects were used again"]++;
    }
    // differential oracle: the second run behaves exactly like the same run on fresh objects (bitwise)
    size_t n = std::min(used.size(), fresh.size()), i = 0;
    while (i < n && sameEntry(used[i], fresh[i])) ++i;
    if (i == n && used.size() == fresh.size()) J.check(true, "reuse/second-run-equals-fresh-run", [] { return std::string(); });
    else {
        const char* clause;
        const bool freshHas = i < fresh.size(), usedHas = i < used.size();
        const Entry* f = freshHas ? &fresh[i] : nullptr; const Entry* u = usedHas ? &used[i] : nullptr;
        if (f && (f->kind == 'S' || f->kind == 'R') && f->t == t2 && !(u && u->kind == f->kind && u->idx == f->idx && u->t == f->t))
            clause = f->kind == 'S' ? "reuse/scheduled-handler-due-at-new-initial-time-not-invoked" : "reuse/scheduled-report-due-at-new-initial-time-not-made";
        else if (f && u && f->kind == u->kind && f->idx == u->idx && f->t == u->t) clause = "reuse/second-run-state-differs-from-fresh-run";
        else if (f && u && f->kind == u->kind && f->idx == u->idx) clause = "reuse/second-run-time-differs-from-fresh-run";
        else clause = "reuse/second-run-sequence-differs-from-fresh-run";
        J.check(false, clause, [&] { return "entry " + std::to_string(i) + " of the second run's trace differs: used objects [" + traceStr(used) + "] fresh objects [" + traceStr(fresh) + "]"; });
    }
    // absolute oracle on the fresh run (and therefore, through the differential one, on the used run)
    judgeTrace(sc2, J, fresh, tEnd2, outcome);
    for (auto& e : used) outcome = verif::hashPod(e.idx, verif::hashPod(e.kind, outcome));
    (void)run;
}

// ---------------------------------------------------------------- parameters of one case (replayable as text)
struct P2 {
    std::string sec; int vs = 0, integ = 0, fixed = 0, driver = 0; int a[8] = {0, 0, 0, 0, 0, 0, 0, 0};
    std::string str() const {
        std::string s = "sec=" + sec + " vs=" + std::to_string(vs) + " integ=" + INTEG_NAMES[integ] + " fixed=" + std::to_string(fixed) + " driver=" + std::to_string(driver) + " a=";
        for (int i = 0; i < 8; ++i) s += std::to_string(a[i]) + (i < 7 ? "," : "");
        return s;
    }
};
static P2 parseP2(const std::string& text) {
    P2 p; std::istringstream is(text); std::string tok;
    while (is >> tok) {
        size_t e = tok.find('='); if (e == std::string::npos) continue;
        std::string k = tok.substr(0, e), v = tok.substr(e + 1); int n = atoi(v.c_str());
        if (k == "sec") p.sec = v; else if (k == "vs") p.vs = n; else if (k == "fixed") p.fixed = n; else if (k == "driver") p.driver = n;
        else if (k == "integ") { for (int i = 0; i < 10; ++i) if (v == INTEG_NAMES[i]) p.integ = i; }
        else if (k == "a") { std::replace(v.begin(), v.end(), ',', ' '); std::istringstream as(v); for (int i = 0; i < 8 && (as >> p.a[i]); ++i) {} }
    }
    return p;
}

static const double WIN3[3] = {0.001, 0.1, 10};                  // section win: tolerances 1e-7, 1e-5 (the default), 1e-3
static const double WINWIDE[4] = {50, 500, 5, 150};              // section repwin: tolerances 5e-3, 5e-2 (quick) and 5e-4, 1.5e-2 (thorough)
static const int NDELTA = 15;
static double deltaOf(int k, double f, double c) {               // offsets of the second root: fractions of the finer (f) and the coarser (c) tolerance
    static const double fr[7] = {0.5, 2, 0.25, 0.6, 0.95, 1.5, 4};
    if (k == 0) return 0;
    const int m = (k - 1) / 2; const double d = fr[m] * (m < 2 ? f : c);
    return (k - 1) % 2 ? -d : d;
}
static const double OFF12[12] = {-1.5, -1, -0.5, -0.25, -0.05, 0, 0.05, 0.25, 0.5, 0.75, 1, 1.5};   // report offsets in units of the event's tolerance
static const int PAIRSET[6] = {2, 4, 6, 7, 8, 10};
static const int NREPCFG = 12 + 15;

static Scn buildScn(const P2& p) {
    const Values& v = VALUES[p.vs];
    Scn sc; sc.sec = p.sec; sc.vs = p.vs; sc.integ = p.integ; sc.fixedStep = p.fixed; sc.driver = p.driver; sc.hfix = v.hfix; sc.uNew = v.uNew;
    if (p.sec == "win") {
        // a0,a1: window of A,B; a2,a3: shape; a4: orientations; a5: offset of B's root; a6: third witness (0 none, 1..6 = window x side)
        const double wA = WIN3[p.a[0]], wB = WIN3[p.a[1]];
        const double tolA = ACCURACY * TIMESCALE * wA, tolB = ACCURACY * TIMESCALE * wB;
        const double d = deltaOf(p.a[5], std::min(tolA, tolB), std::max(tolA, tolB));
        sc.wits.push_back({p.a[2], (p.a[4] & 1) ? -1 : +1, v.one, wA, 3, A2None});
        sc.wits.push_back({p.a[3], (p.a[4] & 2) ? -1 : +1, v.one + d, wB, 3, A2None});
        if (p.a[6] > 0) {
            const double wC = WIN3[(p.a[6] - 1) % 3], coarsest = ACCURACY * TIMESCALE * std::max(wC, std::max(wA, wB));
            sc.wits.push_back({ShLinear, +1, v.one + ((p.a[6] - 1) / 3 ? -0.4 : 0.4) * coarsest, wC, 3, A2None});
        }
    } else if (p.sec == "stage") {
        // a0: witness shape (linear/convex); a1: action of the triggered handler; a2: action of the scheduled handler; a3: report grid; a4: scheduled once / periodic
        sc.wits.push_back({p.a[0] ? ShConvex : ShLinear, +1, v.three[0], 0.1, 3, p.a[1]});
        sc.sched.push_back({'S', p.a[4] != 0, p.a[4] ? v.period : v.three[1] + 0.07, p.a[2]});
        if (p.a[3] == 1) for (int k = 1; k * 0.05 < TFINAL - 1e-9; ++k) sc.reports.push_back(k * 0.05);
        if (p.a[3] == 0) sc.reports.push_back(0.9);
    } else if (p.sec == "repwin") {
        // a0: wide window; a1: shape; a2: orientation; a3: action; a4: report configuration (12 single offsets, 15 pairs);
        // a5: where the internal step that contains the crossing ends: 0 wherever the integrator puts it, 1..3 a passive
        // scheduled handler 0.3 / 0.8 / 1.6 tolerances after the crossing forces every integrator to end the step there
        // (the crossing is then closer to the step end than the window is wide, so the first bisection can finish the search)
        static const double ENDS[4] = {0, 0.3, 0.8, 1.6};
        const double w = WINWIDE[p.a[0]], tol = ACCURACY * TIMESCALE * w;
        sc.wits.push_back({p.a[1], p.a[2] ? -1 : +1, v.one, w, 3, p.a[3] ? A2SetU : A2None});
        if (p.a[5]) sc.sched.push_back({'S', false, v.one + ENDS[p.a[5]] * tol, A2None});
        if (p.a[4] < 12) sc.reports.push_back(v.one + OFF12[p.a[4]] * tol);
        else {
            int k = p.a[4] - 12, i = 0, j = 1;
            while (k >= 5 - i) { k -= 5 - i; ++i; j = i + 1; }
            j += k;
            sc.reports.push_back(v.one + OFF12[PAIRSET[i]] * tol); sc.reports.push_back(v.one + OFF12[PAIRSET[j]] * tol);
        }
    } else if (p.sec == "reuse") {
        // a0: run-1 variant; a1: T1; a2: start of run 2; a3: which objects are used again; a4: final time in run 2; a5: action of the periodic handler
        static const double T1F[4] = {0.6, 2.0, 2.3, 3.6};
        sc.sched.push_back({'S', true, v.period, p.a[5] ? A2SetU : A2None});
        sc.sched.push_back({'R', true, 0.75 * v.period, A2None});
        sc.sched.push_back({'S', false, v.sched, A2None});
        sc.sched.push_back({'R', false, v.sched + 0.05, A2None});
        sc.wits.push_back({ShLinear, +1, 0.22, 0.1, 3, A2None});
        sc.tFinal = T1F[p.a[1]] * v.period;          // run 1's end (a final time only in variant 1)
        sc.driver = 1;
    }
    return sc;
}
static std::string describeP2(const P2& p, const Scn& sc) {
    if (p.sec != "reuse") return sc.describe();
    return "section reuse: " + std::string(REUSE_VARIANTS[p.a[0]]) + " with T1=" + verif::fmtd(sc.tFinal) + "; run 2 starts at " + REUSE_T2[p.a[2]] + " on " + REUSE_MODES[p.a[3]] + (p.a[4] ? ", final time set" : ", no final time") +
           "; system: " + sc.describe();
}

}  // namespace g2

// ---------------------------------------------------------------- two-pass execution
static void quietWorker(verif::Run& run) {
    static bool done = false;
    if (done || run.replaying()) return;
    done = true;
    int fd = open("/dev/null", O_WRONLY);
    if (fd >= 0) { dup2(fd, 2); close(fd); }
}
static const long WORK_BUDGET = 300000;     // realizations per simulation; the largest healthy simulation needs < 20000
static void runCase(verif::Run& run, const Cfg& cfg) {
    // A simulation that loops inside the library is stopped by the odesys work budget.  The budget itself is the
    // criterion (the exception may be swallowed inside the library: CPODES' callbacks catch everything, after which
    // the results are garbage), and it takes precedence over every other clause.  The alarm is a last resort for a
    // loop that does not even realize the state (kills the worker).
    alarm(300);
    bool loops = false;
    for (int pass = 0; pass < 2; ++pass) {
        Judge J(run, cfg, pass == 1 || run.verbose);
        if (pass == 1 && loops) J.reported = true;       // build the trace only; the one report is made below
        uint64_t outcome = verif::hashStr(INTEG_NAMES[cfg.integ]);
        bool threw = false; std::string what;
        odesys::workBudget() = WORK_BUDGET;
        try { simulate(run, cfg, J, outcome); }
        catch (const std::exception& e) { threw = true; what = e.what(); }
        const bool exhausted = odesys::workBudget() == 0;
        odesys::workBudget() = -1;
        if (exhausted) {
            loops = true;
            if (!J.tracing) J.sawFailure = true;
            else run.expect(false, std::string(INTEG_NAMES[cfg.integ]) + "/simulation-never-returns",
                            [&] { return "simulation-never-returns: the simulation kept realizing the state without finishing (stopped after " + std::to_string(WORK_BUDGET) + " realizations)\n  at " + J.where(); }, [&] { return J.replay(); });
        } else if (threw) J.check(false, "unexpected-exception", [&] { return "the simulation threw: " + what.substr(0, 400); });
        if (pass == 0) { run.evaluation(verif::hashStr(cfg.str()), true); run.outcome(outcome); }
        if (run.verbose) printf("%s\n  %s\n%s", cfg.str().c_str(), cfg.describe().c_str(), J.trace.c_str());
        if (!J.sawFailure) break;
    }
    alarm(0);
}

static void runCase2(verif::Run& run, const g2::P2& p) {
    alarm(300);
    const g2::Scn sc = g2::buildScn(p);
    const std::string cs = p.str(), cd = g2::describeP2(p, sc);
    bool loops = false;
    for (int pass = 0; pass < 2; ++pass) {
        Judge J(run, cs, cd, INTEG_NAMES[p.integ], "cfg2", pass == 1 || run.verbose);
        if (pass == 1 && loops) J.reported = J.reportedB = true;
        uint64_t outcome = verif::hashStr(p.sec + INTEG_NAMES[p.integ]);
        bool threw = false; std::string what;
        odesys::workBudget() = WORK_BUDGET;
        try {
            if (p.sec == "reuse") { g2::ReuseCfg rc = {p.a[0], p.a[1], p.a[2], p.a[3], p.a[4]}; g2::simulateReuse(run, sc, rc, J, outcome); }
            else g2::simulate2(run, sc, J, outcome);
        } catch (const std::exception& e) { threw = true; what = e.what(); }
        const bool exhausted = odesys::workBudget() == 0;
        odesys::workBudget() = -1;
        if (exhausted) {
            loops = true;
            if (!J.tracing) J.sawFailure = true;
            else run.expect(false, std::string(INTEG_NAMES[p.integ]) + "/simulation-never-returns",
                            [&] { return "simulation-never-returns: the simulation kept realizing the state without finishing (stopped after " + std::to_string(WORK_BUDGET) + " realizations)\n  at " + J.where(); }, [&] { return J.replay(); });
        } else if (threw) J.check(false, "unexpected-exception", [&] { return "the simulation threw: " + what.substr(0, 400); });
        if (pass == 0) { run.evaluation(verif::hashStr(cs), true); run.outcome(outcome); }
        if (run.verbose) printf("%s\n  %s\n%s", cs.c_str(), cd.c_str(), J.trace.c_str());
        if (!J.sawFailure) break;
    }
    alarm(0);
}

int main(int argc, char** argv) {
    verif::Run run("C22", argc, argv);
    run.setDeadline(1200, 3600);   // safety net only: quick needs about 200 CPU-s (50 s wall on 4 workers), see notes
    const bool thorough = run.thorough();
    run.rule = "a case = (value set, integrator, crossing pattern, direction-mask combination, action of handler 0, fixed/controlled step, report grid, scheduled-handler variant, driver); "
               "every case is one complete simulation to the final time, judged at every ReachedEventTrigger (raw driver) and on its handler log and report states (both drivers) against an analytic reference; "
               "distinct = distinct tuple; all non-trivial (each simulation has at least one witness and takes at least one step).  "
               "Four further sections, each a complete product as well (tuples listed in notes/C22.md): "
               "win = (value set, integrator, step mode, driver, required localisation window of witness A and of B from {0.001, 0.1, 10}, shape of A and of B from {linear, convex, concave}, "
               "orientations, offset of B's root from A's on a 15-point lattice in units of the finer and the coarser tolerance, optional third witness): every listed event must be localised within its OWN window; "
               "stage = (.., witness shape, action of the triggered handler, action of the scheduled handler from {none, u, z only, Dynamics-stage variable, Acceleration-stage variable}, report grid, once/periodic): "
               "the trajectory continues from the handlers' state; "
               "repwin = (.., wide window from {50, 500} (thorough also 5, 150), shape, orientation, passive/state-modifying handler, 27 report configurations on a lattice of 12 offsets around the crossing (singles and pairs), "
               "step end forced 0 / 0.3 / 0.8 / 1.6 tolerances after the crossing, driver from {raw, TimeStepper targets, TimeStepper scheduled reporter}): no report time inside an event window, everything the caller sees is in time order; "
               "reuse = (.., how run 1 ended, its length, start time of run 2 from 7 choices incl. run 1's last scheduled event / report time, which objects are used again, final time in run 2, action): "
               "the second run on used TimeStepper/Integrator objects equals bitwise the same run on fresh objects";
    run.assumptions = {"piecewise-linear trajectory (qdot=u, udot=0, zdot=d): crossing times are closed-form and every integrator is exact between handler actions",
                       "u > 0 throughout; crossings are transversal (the property excludes tangential contacts)",
                       "two sign changes of one witness inside a single step are not demanded (documented: a trigger that came and went during a step is lost)",
                       "order of handlers due at the same instant is compared as a set",
                       "default accuracy 1e-3, default time scale 0.1 and default 10% localisation window: documented window = 1e-5",
                       "sections win/stage/repwin/reuse: the documented window of an event is accuracy*timescale*its own required window (1e-4 * window); the reference follows the implementation's own handler "
                       "invocation times (each judged against the analytic crossing / scheduled time first), so states are compared to roundoff (1e-10; CPodes 1e-9)",
                       "Integrator.h's promise that no report time lies strictly inside an event window is demanded for the report time given to the stepTo call that localised the window (the earliest report time after the "
                       "start of that internal step); a report time first requested later may lie inside an existing window and its delivery order is not judged (counted; same reading as C19)",
                       "convex/concave witnesses are quadratics in q whose second root is out of reach (q stays in [0,2)), so each witness crosses once"};

    if (run.replaying() && !run.replayField("cfg").empty()) {
        Cfg cfg = parseCfg(run.replayField("cfg"));
        runCase(run, cfg);
        int rc = run.finish();
        if (run.acc.violCountByKey.empty()) printf("replay: no violation\n");
        return rc;
    }

    if (run.replaying() && !run.replayField("cfg2").empty()) {
        runCase2(run, g2::parseP2(run.replayField("cfg2")));
        int rc = run.finish();
        if (run.acc.violCountByKey.empty()) printf("replay: no violation\n");
        return rc;
    }

    std::vector<Cfg> cases;
    std::vector<int> vss; if (thorough) vss = {0, 1, 2}; else vss = {(int)(((run.seed % 3) + 3) % 3)};
    const int nInteg = thorough ? 10 : 9;
    for (int vs : vss) for (int integ = 0; integ < nInteg; ++integ) for (int pattern = 0; pattern < 7; ++pattern)
        for (int mc = 0; mc < Cfg::nMaskCombos(pattern); ++mc) for (int action = 0; action < NACT; ++action) for (int fixed = 0; fixed < 2; ++fixed)
            for (int grid = 0; grid < 3; ++grid) for (int sched = 0; sched < NSCHED; ++sched) for (int driver = 0; driver < 2; ++driver) {
                if (!thorough && (grid == 1 || sched == SchedOnce)) continue;      // quick: grids none/at-crossing, scheduled none/periodic/at-crossing/sets-u
                Cfg c; c.vs = vs; c.integ = integ; c.pattern = pattern; c.maskCombo = mc; c.action = action; c.fixedStep = fixed; c.grid = grid; c.sched = sched; c.driver = driver;
                cases.push_back(c);
            }
    run.extraCoverage["cases"] = std::to_string(cases.size());
    run.parallel("sim", (int64_t)cases.size(), [&](int64_t i) {
        quietWorker(run);
        runCase(run, cases[i]);
        Judge::flush(run);
        if (i % 3001 == 0) run.sample(cases[i].str() + " :: " + cases[i].describe());
    });
    Judge::flush(run);

    // ---------------- second-generation sections (see the comment at namespace g2)
    std::map<std::string, std::vector<g2::P2>> cases2;
    for (int vs : vss) for (int integ = 0; integ < nInteg; ++integ) for (int fixed = 0; fixed < 2; ++fixed) {
        g2::P2 b; b.vs = vs; b.integ = integ; b.fixed = fixed;
        // win: per-event localisation windows
        for (int driver = 0; driver < 2; ++driver) for (int wA = 0; wA < 3; ++wA) for (int wB = 0; wB < 3; ++wB) for (int sA = 0; sA < 3; ++sA) for (int sB = 0; sB < 3; ++sB)
            for (int o = 0; o < 4; ++o) for (int d = 0; d < g2::NDELTA; ++d) for (int third = 0; third < 7; ++third) {
                // quick: the third witness only with both rising, three shape pairs and every third offset
                if (third && !thorough && !(o == 0 && d % 3 == 0 && ((sA == 1 && sB == 0) || (sA == 0 && sB == 1) || (sA == 1 && sB == 2)))) continue;
                if (third && thorough && !(o == 0 || o == 3)) continue;
                g2::P2 p = b; p.sec = "win"; p.driver = driver; p.a[0] = wA; p.a[1] = wB; p.a[2] = sA; p.a[3] = sB; p.a[4] = o; p.a[5] = d; p.a[6] = third;
                cases2["win"].push_back(p);
            }
        // stage: handlers whose lowest modified stage is Dynamics / Acceleration
        for (int driver = 0; driver < 2; ++driver) for (int sh = 0; sh < 2; ++sh) for (int x = 0; x < g2::NACT2; ++x) for (int y = 0; y < g2::NACT2; ++y) for (int grid = 0; grid < 2; ++grid) for (int per = 0; per < 2; ++per) {
            g2::P2 p = b; p.sec = "stage"; p.driver = driver; p.a[0] = sh; p.a[1] = x; p.a[2] = y; p.a[3] = grid; p.a[4] = per;
            cases2["stage"].push_back(p);
        }
        // repwin: report times around a crossing that is localised with a wide window
        for (int driver = 0; driver < 3; ++driver) for (int w = 0; w < (thorough ? 4 : 2); ++w) for (int sh = 0; sh < 3; ++sh) for (int o = 0; o < 2; ++o) for (int act = 0; act < 2; ++act) for (int rep = 0; rep < g2::NREPCFG; ++rep) for (int end = 0; end < 4; ++end) {
            g2::P2 p = b; p.sec = "repwin"; p.driver = driver; p.a[0] = w; p.a[1] = sh; p.a[2] = o; p.a[3] = act; p.a[4] = rep; p.a[5] = end;
            cases2["repwin"].push_back(p);
        }
        // reuse: a second run on used TimeStepper / Integrator objects
        for (int var = 0; var < 4; ++var) for (int t1 = 0; t1 < 4; ++t1) for (int t2 = 0; t2 < 7; ++t2) for (int mode = 0; mode < 3; ++mode) for (int fin = 0; fin < 2; ++fin) for (int act = 0; act < 2; ++act) {
            g2::P2 p = b; p.sec = "reuse"; p.driver = 1; p.a[0] = var; p.a[1] = t1; p.a[2] = t2; p.a[3] = mode; p.a[4] = fin; p.a[5] = act;
            cases2["reuse"].push_back(p);
        }
    }
    for (const char* sec : {"win", "stage", "repwin", "reuse"}) {
        const std::vector<g2::P2>& L = cases2[sec];
        run.extraCoverage[std::string("cases_") + sec] = std::to_string(L.size());
        run.parallel(sec, (int64_t)L.size(), [&](int64_t i) {
            quietWorker(run);
            runCase2(run, L[i]);
            Judge::flush(run);
            if (i % 7001 == 0) run.sample(L[i].str() + " :: " + g2::describeP2(L[i], g2::buildScn(L[i])));
        });
        Judge::flush(run);
    }
    return run.finish();
}
